#!/bin/bash
# MANIFEST.setup_cmd: build the framework from files on disk only (offline).
# Regenerates coq/Generated.v from /repo, builds every .vo (full build, no -vos),
# and builds every per-property driver.  Each ./check run re-does the part it needs
# incrementally, so this is only a warm-up; a failure here is not fatal for checks.
set -u
cd "$(dirname "$0")"
export PYTHONHASHSEED=0
PYTHONPATH=/repo /venv/bin/python tools/gen_tables.py || echo "setup: gen_tables failed (checks will report it)"
/venv/bin/python - <<'PY'
import sys, os
sys.path.insert(0, os.getcwd())
from harness import core
core.ensure_makefile()
PY
( cd coq && timeout 3000 make -j16 -k >/dev/null 2>../build/setup-make.log; tail -3 ../build/setup-make.log )
/venv/bin/python - <<'PY'
import sys, os, json, importlib
sys.path.insert(0, os.getcwd()); sys.path.insert(0, "/repo")
from harness import core
m = json.load(open("MANIFEST.json"))
for c in m["checks"]:
    P = importlib.import_module("harness." + c["property_id"].lower())
    ok, msg = core.build_driver(P)
    print("setup: driver", c["property_id"], "ok" if ok else "FAILED", msg[:200])
PY
exit 0
