"""C09 - SWHID parsing accepts exactly the documented language, fails cleanly.

Two streams of strings (as code-point lists, surrogates included) go through
CoreSWHID / ExtendedSWHID / QualifiedSWHID.from_string of /repo and through the
extracted model (coq/model/Swhid.v parse_core / parse_ext / parse_q) together
with the independently written recogniser lang_core / lang_ext / lang_q:

  valid     sentences generated from the BNF (all types, qualifier subsets,
            orders, duplicates, percent-escapes, leading zeros);
  malformed every single-character substitution / insertion / deletion / case
            flip of valid seeds, separators replaced by every whitespace code
            point and look-alikes, hostile numerals, unknown/empty keys, ...

Oracle (the property on the implementation): no exception other than
ValidationError; accepted <=> lang_X says so; an accepted string re-prints to a
string that parses to an equal value; the classes agree on qualifier-free
strings.  Comparison: model == implementation on outcome, field values,
re-print.  A third, small stream ties the stdlib pieces of the model directly
(unquote, unquote_to_bytes, quote_from_bytes, quote, UTF-8 decode 'replace').
"""
import re
import sys
import urllib.parse

from . import core as K
from .c08 import (cps, uncps, tok_text, untok_text, untok_res, untok_core, untok_q, fields_core, fields_q, kv,
                  WS, CORE_TYPES, EXT_TYPES, LIM)

ID = "C09"
PROPS = "Props/C09.v"
EXTRACT = "extract/ExC09.v"
OBLIGATION = "swhid-parse"
THEOREMS = ["C09_total", "C09_accepts_sound", "C09_accepts_iff", "C09_reprint", "C09_classes_agree", "C09_long_number_refuted", "C09_lines_over_acceptance_refuted_old", "C09_reprint_refuted_old", "C09_surrogate_path_rejected", "C09_tables", "C09_satisfiable"]
RULE = ("valid sentences from the BNF (types x qualifier multisets x orders x duplicates x escapes x leading zeros) and "
        "malformed neighbours (every substitution/insertion/deletion/case flip at every position of valid seeds, "
        "separators replaced by each of the 29 whitespace code points and look-alikes, numerals '+1' '-1' '1_0' ' 1' "
        "Arabic-Indic/full-width digits '1-2-3' '-' '' 5000 digits, unknown/empty keys, missing '=', ';;', trailing ';', "
        "wrong-class types, visit/anchor of every type); numeric positions other than lines - the version and each of the 40 "
        "id digits, at top level and inside visit / anchor values - written with a non-ASCII digit or letter of the same value "
        "(Arabic-Indic, Devanagari, full-width, mathematical, superscript, Cyrillic look-alikes); qualifier keys equal to the "
        "constructor's other parameters (namespace, scheme_version, object_type, object_id, ...); percent-escapes where the "
        "grammar has none (keys, '=', ';', ':', the values of visit / anchor / lines, the id, double escapes, %uXXXX); '+' in "
        "origins and paths; very long sentences (thousands of qualifiers, 20000-character origins, 10000 escapes in a path, "
        "over-long version / id fields); the same text as a str subclass; every string is parsed a second time by the three "
        "Qualified and Core classes in the opposite order (memoised state between calls) and the second outcome is held to the same standard; "
        "non-trivial = the string is a valid sentence or within edit "
        "distance 1 of one (accepted and rejected sides are both counted in the distribution); distinct = distinct string")
TRUSTED = ["stdlib behaviour as modelled in coq/lib/Utf8.v, coq/lib/Percent.v, coq/model/Swhid.v (see C08); the "
           "whitespace table (29 code points) and the int()/str() digit limit are cross-checked against the running "
           "interpreter on every run (pre_checks)"]
ASSUMPTIONS = ["duplicated qualifier keys: the effective (last) value is the one constrained (DESIGN section 7)",
               "a path qualifier must consist of Unicode scalar values (a lone surrogate is not an RFC 3987 character)",
               "numbers longer than sys.get_int_max_str_digits() digits are rejected although in the grammar: known "
               "finding int-max-str-digits",
               "the model is a pure function of the text: a str subclass instance stands for its text, and a second call with the "
               "same text must have the first call's outcome (both are checked on the implementation)"]


def S_of(c):
    """code points of a string case; kind "srep" = pre + ch*n + post (compact form for very long strings)"""
    if c["k"] == "srep":
        return cps(c["pre"] + c["ch"] * c["n"] + c.get("post", ""))
    return c["s"]


def is_s(c):
    return c["k"] in ("s", "srep")


def hx40(rng):
    return "".join(rng.choice("0123456789abcdef") for _ in range(40))


# ---------------------------------------------------------------- valid sentences
ORIGIN_VALUES = ["https://example.org/r.git", "a%20b", "a%3Bb", "%C3%A9", "%ff", "%zz", "%", "%%", "é", "a=b", "=",
                 "%E2%80%A8", "%C2%85x", "%09%0A%0B%0C%0D%1C%1D%1E%1F%20", "%C2%A0%E1%9A%80%E3%80%80", "\ud800",
                 "\U0001f600", "%25", "%253B", "%F0%9F%98%80", "%ED%A0%80", "%c3%a9", "x%C3", "%E2%82é", "", "~._-",
                 "%E2%80%8B", "%00", "http://[::1]/?q=%2520", "a+b", "git+ssh://h/libstdc++?q=a+b%2Bc"]
PATH_VALUES = ["/", "/a/b", "", "%00", "%FF%fe", "a%20b", "%zz", "%", "é", "/%E2%82%AC", "%41%4a%6F", "x=y", "/a%3Bb",
               "\U0001f600", "%2", "%%41", "/あ", "%7e~", "/c++/a+b%2B"]
LINES_VALUES = ["0", "1", "007", "5-10", "10-5", "0-0", "00-000", "1234567890123456789012345678901234567890",
                "4-18446744073709551616"]
BAD_DUP = {"origin": ["", "%"], "visit": ["foo", "swh:1:cnt:" + "0" * 40, ""], "anchor": ["x", "swh:1:ori:" + "1" * 40],
           "path": ["%zz"], "lines": ["x", "+1", "-", "", "1-2-3"]}


def value_for(rng, k):
    if k == "origin":
        return rng.choice(ORIGIN_VALUES)
    if k == "visit":
        return "swh:1:snp:" + hx40(rng)
    if k == "anchor":
        return "swh:1:%s:%s" % (rng.choice(["dir", "rev", "rel", "snp"]), hx40(rng))
    if k == "path":
        r = rng.random()
        if r < 0.3:
            b = rng.randrange(256)
            return rng.choice(["%%%02X", "%%%02x", "/x%%%02Xy"]) % b
        return rng.choice(PATH_VALUES)
    r = rng.random()
    if r < 0.6:
        return rng.choice(LINES_VALUES)
    a = "0" * rng.randrange(0, 3) + str(rng.randrange(0, 10 ** rng.randrange(1, 25)))
    return a if r < 0.8 else a + "-" + str(rng.randrange(0, 10 ** rng.randrange(1, 25)))


KEYS = ["origin", "visit", "anchor", "path", "lines"]


def valid_sentence(rng, nq=None, dup=False):
    s = "swh:1:%s:%s" % (rng.choice(CORE_TYPES), hx40(rng))
    nq = rng.choice([0, 1, 1, 2, 3, 5]) if nq is None else nq
    ks = [rng.choice(KEYS) for _ in range(nq)]
    items = []
    for k in ks:
        if dup and rng.random() < 0.5:
            items.append(k + "=" + rng.choice(BAD_DUP[k]))      # overridden by the later occurrence
        items.append(k + "=" + value_for(rng, k))
    if dup:
        # keep the last occurrence of each key the valid one: move the bad ones first
        good = {}
        for it in items:
            good[it.split("=", 1)[0]] = it
        bad = [it for it in items if good[it.split("=", 1)[0]] is not it]
        rng.shuffle(bad)
        rest = [it for it in items if good[it.split("=", 1)[0]] is it]
        items = bad + rest
    return s + "".join(";" + it for it in items)


# ---------------------------------------------------------------- malformed neighbours
SUBST = [" ", "g", "A", "F", ":", ";", "=", "%", "0", "-", "+", "_", "é", " ", "\ud800", "\n", "\t", "　", "/", "\x00"]
LOOKALIKES = {":": ["：", "꞉", "ː", "："], ";": [";", "；", "؛"], "=": ["＝", "═", "⁼"],
              "-": ["‐", "‑", "−", "–", "－"]}
NUMERALS = ["+1", "-1", "1_0", " 1", "1 ", "١٢", "５", "1-2-3", "-", "", "1-", "-1-2", "1--2", "1-+2", "0x10",
            "1e3", "1.0", "१", "1٠", "١", "1​", "9" * 5000, "1-" + "9" * 5000, "0" * 5000, "٣-٤", "1_0-2", "١-2",
            "²", "①", "1\n", "\t1"]


def mutations(seed):
    n = len(seed)
    for i in range(n + 1):
        for ch in SUBST:
            yield seed[:i] + ch + seed[i:]                     # insertion
    for i in range(n):
        yield seed[:i] + seed[i + 1:]                          # deletion
        c = seed[i]
        if c.swapcase() != c:
            yield seed[:i] + c.swapcase() + seed[i + 1:]       # case flip
        for ch in SUBST:
            if ch != c:
                yield seed[:i] + ch + seed[i + 1:]             # substitution
        if c in LOOKALIKES or c in ":;=-":
            for w in WS:
                yield seed[:i] + chr(w) + seed[i + 1:]
            for ch in LOOKALIKES.get(c, []):
                yield seed[:i] + ch + seed[i + 1:]


def structural(rng):
    h = hx40(rng)
    base = "swh:1:cnt:" + h
    out = ["", "swh", base + ";", base + ";;", ";" + base, base + ";lines=1;", base + ";;lines=1", base + ";lines", base + ";=1",
           base + ";lines=1;;path=/", base + ";foo=1", base + ";Lines=1", base + ";LINES=1", base + ";lines =1", base + ";origin",
           base + ";origin=a;b", base + ";origin=a b", base + " ", " " + base, base + "\n", "\n" + base, base + ";lines=1\n",
           base.upper(), "SWH:1:cnt:" + h, "swh:2:cnt:" + h, "swh:01:cnt:" + h, "swh:1:cnt:" + h[:39], "swh:1:cnt:" + h + "0",
           "swh:1:cnt:" + h.upper(), "swh:1:cnt:" + h[:39] + "g", "swh::cnt:" + h, "swh:1::" + h, "swh:1:cnt" + h,
           "swh:1:cnt:" + h + ":", base + ";lines=1;lines=2", base + ";lines=2;lines=x", base + ";path=%ud800", base + ";path=\ud800",
           base + ";path=\udfff/x", base + ";path=a;path=\ud800", base + ";path=\ud800;path=a", base + ";origin=\ud800",
           base + ";visit=" + base, base + ";anchor=" + base, base + ";x=\ud800", base + ";\ud800=1", base + ";origin==",
           base + ";origin=" + "%20" * 50, base + ";lines=" + "9" * LIM, base + ";lines=1-" + "9" * LIM,
           base + ";lines=" + "9" * (LIM + 1), base + ";lines=" + "0" * (LIM + 1), base + ";lines=" + "9" * (LIM + 1) + ";lines=1",
           base + ";origin=" + "9" * (LIM + 1), base + ";path=/" + "1" * 5000]
    for t in EXT_TYPES + ["xyz", "CNT", "cn", "cntt", ""]:
        out += ["swh:1:%s:%s" % (t, h), "swh:1:%s:%s;lines=1" % (t, h), base + ";visit=swh:1:%s:%s" % (t, h),
                base + ";anchor=swh:1:%s:%s" % (t, h), base + ";visit=swh:1:%s:%s;lines=1" % (t, h)]
    for k in KEYS + ["", "foo", "origi", "origin2", "Origin", "path "]:
        out += [base + ";" + k, base + ";" + k + "=", base + ";" + k + "==", base + ";" + k + "=x;" + k]
    for nm in NUMERALS:
        out += [base + ";lines=" + nm, base + ";lines=1-" + nm, base + ";lines=" + nm + "-2", base + ";lines=1;lines=" + nm,
                base + ";lines=" + nm + ";lines=7"]
    for w in WS:
        out += [base + ";origin=a" + chr(w) + "b", base + ";origin=a" + urllib.parse.quote(chr(w)) + "b",
                base + chr(w) + ";lines=1", base + ";lines=1" + chr(w), base + ";path=" + chr(w)]
    out += alt_numerals(rng, h) + param_keys(rng, h) + stray_escapes(rng, h)
    return out


def alts(ch):
    """characters that int() / bytes.fromhex / a careless character class could take for `ch`"""
    if ch in "0123456789":
        d = int(ch)
        a = [chr(0x660 + d), chr(0x6F0 + d), chr(0x966 + d), chr(0xFF10 + d), chr(0x1D7CE + d), chr(0x1D7EC + d)]
        if d in (1, 2, 3):
            a.append({1: "¹", 2: "²", 3: "³"}[d])
        a.append(chr(0x2460 + d - 1) if d else "⓪")
        return a
    i = "abcdef".index(ch)
    return [chr(0xFF41 + i), chr(0xFF21 + i), ch.upper()] + {"a": ["а", "ɑ"], "c": ["с", "ϲ"], "e": ["е"]}.get(ch, [])


def alt_numerals(rng, h):
    """the version and every id digit, spelled with another character of the same value"""
    out = []
    for head, tail in (("", ""), ("swh:1:cnt:%s;visit=" % hx40(rng), ";lines=1"), ("swh:1:dir:%s;anchor=" % hx40(rng), "")):
        ty = "snp" if head else "cnt"
        for a in alts("1") + ["l", "I", "|", "01", "1.0", "+1", "1_", "１１"]:
            out.append(head + "swh:%s:%s:%s" % (a, ty, h) + tail)
        for i in range(40):
            if head and i not in (0, 39) and rng.random() < 0.7:
                continue
            al = alts(h[i])
            for a in (al if i in (0, 39) and not head else [rng.choice(al)]):
                out.append(head + "swh:1:%s:%s" % (ty, h[:i] + a + h[i + 1:]) + tail)
    return out


PARAM_KEYS = [("namespace", "swh"), ("scheme_version", "1"), ("object_type", "dir"), ("object_type", "cnt"), ("object_id", None),
              ("qualifiers", "x"), ("swhid", None), ("self", "1"), ("cls", "1"), ("s", "1"), ("kwargs", "1"), ("metadata", "x"),
              ("__class__", "x"), ("origin_url", "x"), ("core", None), ("Lines", "1"), ("line", "1"), ("visits", None)]


def param_keys(rng, h):
    base = "swh:1:cnt:" + h
    out = []
    for k, v in PARAM_KEYS:
        for val in ([v] if v is not None else [hx40(rng), "swh:1:dir:" + hx40(rng)]):
            out += [base + ";%s=%s" % (k, val), base + ";%s=%s;lines=1" % (k, val), base + ";origin=x;%s=%s" % (k, val)]
    return out


def pct(ch):
    return "%%%02X" % ord(ch)


def stray_escapes(rng, h):
    """percent-escapes at places where the grammar has none: only the values of origin and path are percent-encoded"""
    base = "swh:1:cnt:" + h
    v = "swh:1:snp:" + hx40(rng)
    a = "swh:1:rev:" + hx40(rng)
    out = [base + pct(";") + "lines=1", base + ";lines" + pct("=") + "1", base + ";lines=1" + pct(";") + "origin=x",
           base + ";lines=%2531", base + ";lines=%u0031", base + ";lines=1%2D2", base + ";lines=1-%32", base + ";lines=%31-2",
           base + ";lines=1%00", base + ";lines=%201", base + ";lines=1%0A", "swh" + pct(":") + "1:cnt:" + h,
           "swh:" + pct("1") + ":cnt:" + h, "swh:1:" + pct("c") + "nt:" + h, "swh:1:cnt" + pct(":") + h, pct("s") + "wh:1:cnt:" + h,
           "swh:1:cnt:" + pct(h[0]) + h[1:], "swh:1:cnt:" + h[:39] + pct(h[39]), "swh:1:cnt:" + h[:38] + "%" + h[38:],
           base + ";visit=" + v + pct(";") + "lines=1", base + ";origin=x" + pct(";") + "lines=1" + pct(";") + "path=/"]
    for k in KEYS:
        for i in range(len(k)):
            out.append(base + ";" + k[:i] + pct(k[i]) + k[i + 1:] + "=1")
            out.append(base + ";" + k[:i] + pct(k[i]).lower() + k[i + 1:] + "=" + {"visit": v, "anchor": a}.get(k, "1"))
    for key, val in (("visit", v), ("anchor", a)):
        for i in sorted(set(list(range(10)) + [rng.randrange(10, 50) for _ in range(6)] + [49])):
            out.append(base + ";%s=%s" % (key, val[:i] + pct(val[i]) + val[i + 1:]))
            out.append(base + ";%s=%s;lines=4" % (key, val[:i] + pct(val[i]).lower() + val[i + 1:]))
        out.append(base + ";%s=%s" % (key, "".join(pct(ch) for ch in val)))
        out.append(base + ";%s=%s" % (key, val.replace(":", "%3A")))
        out.append(base + ";%s=%s" % (key, val.replace(":", "%3a")))
    for ln in ("12", "4-12", "0", "007-010"):
        for i in range(len(ln)):
            out.append(base + ";lines=" + ln[:i] + pct(ln[i]) + ln[i + 1:])
        out.append(base + ";lines=" + "".join(pct(ch) for ch in ln))
        out.append(base + ";origin=x;lines=" + "".join(pct(ch) for ch in ln) + ";path=/")
    return out


def long_sentences(rng, tier):
    """compact cases (pre + ch * n + post) for sentences of tens of thousands of characters"""
    h = hx40(rng)
    base = "swh:1:cnt:" + h
    k = 1 if tier == "quick" else 4
    L = [(base, ";lines=1", 2000 * k, ""), (base, ";lines=1", 1500 * k, ";lines=x"), (base, ";origin=x;origin=%20", 700 * k, ""),
         (base + ";origin=", "é", 20000 * k, ""), (base + ";origin=", "%20", 1200 * k, ";lines=3"),      # (the model's escaping
         (base + ";origin=", "%3B", 1500 * k, ""), (base + ";origin=", "%C3%A9%E2%80%A8", 400 * k, ""),  #  is quadratic)
         (base + ";path=", "%41", 10000 * k, ""), (base + ";path=", "%ff/", 4000 * k, ""), (base + ";path=/", "é", 8000 * k, ""),
         (base, ";", 3000 * k, ""), (base + ";", "=", 3000 * k, ""), (base + ";lines", "=", 3000 * k, "1"),
         (base + ";origin", "=", 3000 * k, ""), (base + ";x", "y", 5000 * k, "=1"), (base + ";lines=1;", "x", 5000 * k, ""),
         ("swh:1:cnt:", "0", 4000 * k, ""), ("swh:1:cnt:" + h, "0", 5000, ""), ("swh:", "1", 5000, ":cnt:" + h),
         ("swh:", "0", 4400, "1:cnt:" + h), ("swh:1", ":", 5000, "cnt:" + h), ("swh:1:", "cnt", 3000, ":" + h),
         (base + ";visit=swh:", "1", 5000, ":snp:" + h), (base + ";anchor=swh:1:dir:" + h, "0", 5000, ""),
         (base + ";lines=", "0", LIM - 1, "1-2"), (base + ";lines=1-", "0", LIM, ""), (base + ";lines=1-", "0", LIM + 1, ""),
         (base + ";lines=", "1-", 3000, "1"), (base + ";visit=swh:1:snp:" + h, ";visit=swh:1:snp:" + hx40(rng), 300 * k, ""),
         (base + " ", "x", 5000, ""), (base + ";origin=", "\ud800", 5000 * k, ""), (base + ";path=", "\U0001f600", 5000 * k, "")]
    return [{"k": "srep", "pre": pre, "ch": ch, "n": n, "post": post} for pre, ch, n, post in L]


STDLIB_TEXTS = ["a%20b", "%", "%%", "%2", "%zz", "%C3%A9", "%c3%a9", "é%C3%A9é", "%C3é%A9", "%E2%82", "%E2%82%AC", "%F0%9F%98",
                "%F0%9F%98%80", "%ED%A0%80", "%C0%80", "%F5", "%80", "%E0%80%80", "%F4%90%80%80", "%F0%80%80%80", "%E2%28%A1",
                "%F0%90%28%BC", "%F0%28%8C%BC", "\ud800%41", "a\ud800", "", "abc", "%41%", "%%41", "%4%41", "日本%E6%97%A5",
                "%C2", "%C2%", "%E1%80", "%E1%80%", "%F1%80%80", "%F1%80%80x", "%EF%BF%BD", "%EF%BF", "%00", "+", "%2B%2b"]


def gen(rng, tier):
    cases = []
    # stdlib pieces
    for t in STDLIB_TEXTS:
        for k in ("unquote", "unq2b", "quote"):
            cases.append({"k": k, "t": cps(t)})
    for w in WS:
        cases.append({"k": "quote", "t": [w]})
    cases.append({"k": "quoteb", "b": bytes(range(256)).hex()})
    nrand = 600 if tier == "quick" else 40000
    lead = [0x41, 0x7F, 0x80, 0xBF, 0xC0, 0xC1, 0xC2, 0xDF, 0xE0, 0xE1, 0xEC, 0xED, 0xEE, 0xEF, 0xF0, 0xF1, 0xF3, 0xF4, 0xF5, 0xFF,
            0x9F, 0xA0, 0x8F, 0x90, 0x25, 0x28]
    for _ in range(nrand):
        b = bytes(rng.choice(lead) if rng.random() < 0.8 else rng.randrange(256) for _ in range(rng.randrange(0, 7)))
        cases.append({"k": "utf8dec", "b": b.hex()})
        # the same bytes as percent escapes inside text, mixed with raw non-ASCII
        t = "".join(("%%%02X" % x) if rng.random() < 0.8 else chr(x) for x in b)
        if rng.random() < 0.3:
            t = t + rng.choice(["é", "\ud800", "%", "%4", "x"])
        cases.append({"k": "unquote", "t": cps(t)})
        cases.append({"k": "unq2b", "t": cps(t)})
    for _ in range(nrand // 4):
        cases.append({"k": "quoteb", "b": bytes(rng.randrange(256) for _ in range(rng.randrange(0, 12))).hex()})
        cases.append({"k": "utf8enc", "t": [rng.choice([0x41, 0x7F, 0x80, 0x7FF, 0x800, 0xD7FF, 0xD800, 0xDFFF, 0xE000, 0xFFFF,
                                                       0x10000, 0x10FFFF, rng.randrange(0x110000)])
                                            for _ in range(rng.randrange(0, 5))]})

    def S(s):
        cases.append({"k": "s", "s": cps(s)})
    # valid sentences
    nvalid = 3000 if tier == "quick" else 120000
    for i in range(nvalid):
        S(valid_sentence(rng, dup=(i % 4 == 0)))
    for k in KEYS:                                   # every value of the hand-picked tables, alone
        for v in {"origin": ORIGIN_VALUES, "path": PATH_VALUES, "lines": LINES_VALUES}.get(k, []):
            S("swh:1:dir:" + hx40(rng) + ";" + k + "=" + v)
    for b in range(256):
        S("swh:1:cnt:%s;path=%%%02X;origin=%%%02x" % (hx40(rng), b, b))
    # origin / path values built from literals harvested from the code under test, plain and percent-escaped (a validator
    # keyed on a literal - e.g. an origin starting with "swh:" - is exercised even when the literal is new)
    from .gitobj_common import source_tokens
    toks = [t for t in source_tokens("str") if t and all(33 <= ord(ch) < 127 and ch != ";" for ch in t)]
    for t in (toks if tier == "thorough" else rng.sample(toks, min(len(toks), 120))):
        esc = t.replace("%", "%25")
        base0 = "swh:1:rev:" + hx40(rng)
        S(base0 + ";origin=" + esc)
        S(base0 + ";origin=" + esc + "example.org/x;path=/" + esc)
        S(base0 + ";origin=" + "".join("%%%02X" % ord(ch) if ch in ":/" else ch for ch in esc) + "x")
    # structural malformations
    for s in structural(rng):
        S(s)
    # single-character neighbours of valid seeds
    seeds = ["swh:1:cnt:" + hx40(rng), "swh:1:snp:" + hx40(rng) + ";lines=5-10",
             "swh:1:dir:" + hx40(rng) + ";origin=https://e.org/a%3Bb;path=/a%20b"]
    seeds += [valid_sentence(rng, nq=n) for n in (1, 2, 3, 5)]
    nseeds = 12 if tier == "quick" else 50
    while len(seeds) < nseeds:
        seeds.append(valid_sentence(rng, dup=(len(seeds) % 3 == 0)))
    muts = []
    for sd in seeds:
        muts.extend(mutations(sd))
    budget = 22000 if tier == "quick" else 1200000
    if len(muts) > budget:
        muts = rng.sample(muts, budget)
    for m in muts:
        S(m)
    cases += long_sentences(rng, tier)
    # the same text handed over as a str subclass
    strs = [c for c in cases if c["k"] == "s"]
    for c in rng.sample(strs, min(len(strs), 400 if tier == "quick" else 20000)):
        cases.append({"k": "s", "s": c["s"], "sub": True})
    return cases


# ---------------------------------------------------------------- classification
_VALIDISH = re.compile(r"swh:1:(snp|rel|rev|dir|cnt):[0-9a-f]{40}(;\S+)?")


def nontrivial(c):
    return is_s(c)


def classify(c):
    if not is_s(c):
        return ["stdlib:" + c["k"]]
    s = S_of(c)
    ks = ["strings"]
    if 59 in s:
        ks.append("with-qualifiers")
    if any(x in WS for x in s):
        ks.append("has-whitespace")
    if any(x > 127 for x in s):
        ks.append("has-non-ascii")
    if any(0xD800 <= x < 0xE000 for x in s):
        ks.append("has-surrogate")
    if len(s) > 1000:
        ks.append("long")
    if c.get("sub"):
        ks.append("str-subclass")
    acc = _ACCEPTED.pop(id(c), None)          # left by impl() for this very case object
    if acc is None:
        try:
            from swh.model.swhids import QualifiedSWHID
            QualifiedSWHID.from_string(uncps(s))
            acc = True
        except Exception:
            acc = False
    ks.append("accepted-by-qualified" if acc else "rejected-by-qualified")
    return ks


# ---------------------------------------------------------------- implementation
class _S(str):
    pass


_ACCEPTED = {}      # id(case) -> QualifiedSWHID accepted it (impl() -> classify(), same batch; bounded)


def _parse(cls, s, fields):
    try:
        v = cls.from_string(s)
    except Exception as e:
        return {"error": K.exc_class(e)}, None
    return {"ok": fields(v)}, v


def impl(c):
    k = c["k"]
    if k == "unquote":
        return {"out": cps(urllib.parse.unquote(uncps(c["t"])))}
    if k == "unq2b":
        try:
            return {"out": urllib.parse.unquote_to_bytes(uncps(c["t"])).hex()}
        except UnicodeEncodeError:
            return {"out": "err"}
    if k == "quote":
        try:
            return {"out": cps(urllib.parse.quote(uncps(c["t"])))}
        except UnicodeEncodeError:
            return {"out": "err"}
    if k == "quoteb":
        return {"out": cps(urllib.parse.quote_from_bytes(bytes.fromhex(c["b"])))}
    if k == "utf8dec":
        return {"out": cps(bytes.fromhex(c["b"]).decode("utf-8", "replace"))}
    if k == "utf8enc":
        try:
            return {"out": uncps(c["t"]).encode("utf-8").hex()}
        except UnicodeEncodeError:
            return {"out": "err"}
    from swh.model.swhids import CoreSWHID, ExtendedSWHID, QualifiedSWHID
    s = uncps(S_of(c))
    if c.get("sub"):
        s = _S(s)
    res = {}
    res["C"], _ = _parse(CoreSWHID, s, fields_core)
    res["X"], _ = _parse(ExtendedSWHID, s, fields_core)
    res["Q"], v = _parse(QualifiedSWHID, s, fields_q)
    res["P"] = None
    res["RR"] = None
    if v is not None:
        try:
            p = str(v)
            res["P"] = {"ok": cps(p)}
        except Exception as e:
            res["P"] = {"error": K.exc_class(e)}
            p = None
        if p is not None:
            res["RR"], v2 = _parse(QualifiedSWHID, p, fields_q)
            res["req"] = v2 is not None and v2 == v and hash(v2) == hash(v)
    # the same string once more, classes in the opposite order: what a first call left behind must not matter
    res["again"] = {}
    res["again"]["Q"], v3 = _parse(QualifiedSWHID, s, fields_q)
    res["again"]["C"], _ = _parse(CoreSWHID, s, fields_core)
    if v is not None:
        res["again"]["eq"] = v3 is not None and v3 == v and hash(v3) == hash(v)
    if len(_ACCEPTED) > 5000:
        _ACCEPTED.clear()
    _ACCEPTED[id(c)] = v is not None
    return res


# ---------------------------------------------------------------- model
def requests(c):
    k = c["k"]
    if is_s(c):
        return ["s %d %s" % (LIM, tok_text(S_of(c)))]
    if k in ("quoteb", "utf8dec"):
        return ["%s %s" % (k, c["b"] or ".")]
    return ["%s %s" % (k, tok_text(c["t"]))]


def model(c, resp):
    r = resp[0]
    k = c["k"]
    if r.startswith("err "):
        return {"model_error": r}
    if k in ("unquote", "quote", "quoteb", "utf8dec"):
        return {"out": "err" if r == "err" else untok_text(r)}
    if k in ("unq2b", "utf8enc"):
        return {"out": "" if r == "." else r}
    d = kv(r)
    return {"C": untok_res(d["C"], untok_core), "X": untok_res(d["X"], untok_core), "Q": untok_res(d["Q"], untok_q),
            "P": untok_res(d["P"], untok_text), "RR": untok_res(d["RR"], untok_q),
            "lang": {"C": d["L"][0] == "t", "X": d["L"][1] == "t", "Q": d["L"][2] == "t"}, "within_limit": d["W"] == "t"}


# ---------------------------------------------------------------- property and comparison
def oracle(c, ires, mres):
    if not is_s(c):
        return None
    if "lang" not in mres:
        return None
    s = S_of(c)
    names = {"C": "CoreSWHID", "X": "ExtendedSWHID", "Q": "QualifiedSWHID"}
    for rs, when in ((ires, ""), (ires.get("again") or {}, " (second parse of the same string)")):
        for x in "CXQ":
            r = rs.get(x)
            if r is not None and "error" in r and r["error"] != "ValidationError":
                return "%s.from_string raised %s instead of ValidationError%s" % (names[x], r["error"], when)
        for x in "CXQ":
            if rs.get(x) is None:
                continue
            acc = "ok" in rs[x]
            if acc and not mres["lang"][x]:
                return "%s.from_string accepts a string outside the documented language%s" % (names[x], when)
            if not acc and mres["lang"][x]:
                return "%s.from_string rejects a string of the documented language%s" % (names[x], when)
    ag = ires.get("again") or {}
    if "ok" in ires["Q"] and "ok" in ag.get("Q", {}) and (ag["Q"]["ok"] != ires["Q"]["ok"] or not ag.get("eq")):
        return "parsing the same string twice gives two different values"
    if "ok" in ires["Q"]:
        p = ires["P"]
        if "ok" not in p:
            return "an accepted string cannot be printed back: str() raised " + p.get("error", "?")
        rr = ires["RR"]
        if "ok" not in rr:
            return "an accepted string re-prints to a string that is rejected: %r" % uncps(p["ok"])[:200]
        if rr["ok"] != ires["Q"]["ok"] or not ires.get("req"):
            return "an accepted string re-prints to a string that parses to a different value"
    if 59 not in s:                                   # qualifier-free: the classes agree
        cq = ("ok" in ires["C"], "ok" in ires["Q"])
        if cq[0] != cq[1]:
            return "CoreSWHID and QualifiedSWHID disagree on a qualifier-free string"
        if cq[0]:
            q = ires["Q"]["ok"]
            if [q["ty"], q["oid"]] != ires["C"]["ok"] or any(q[k] is not None for k in ("origin", "visit", "anchor", "path", "lines")):
                return "CoreSWHID and QualifiedSWHID parse a qualifier-free string to different values"
            if ires["X"].get("ok") != ires["C"]["ok"]:
                return "ExtendedSWHID disagrees with CoreSWHID on a qualifier-free core string"
        elif "ok" in ires["X"] and ires["X"]["ok"][0] in CORE_TYPES:
            return "ExtendedSWHID accepts a qualifier-free string of a core type that CoreSWHID rejects"
    return None


def compare(c, ires, mres):
    if "model_error" in mres:
        return "model/driver failed: " + str(mres)[:300]
    if not is_s(c):
        if ires["out"] != mres["out"]:
            return "stdlib piece %s: implementation %s, model %s" % (c["k"], K.canon(ires["out"])[:300], K.canon(mres["out"])[:300])
        return None
    for k in ("C", "X", "Q", "P", "RR"):
        if ires.get(k) != mres.get(k):
            return "%s differs: implementation %s, model %s" % (k, K.canon(ires.get(k))[:300], K.canon(mres.get(k))[:300])
    for k in ("C", "X", "Q"):
        if (ires.get("again") or {}).get(k, mres.get(k)) != mres.get(k):
            return "%s differs on the second parse: implementation %s, model %s" % (k, K.canon(ires["again"][k])[:300], K.canon(mres.get(k))[:300])
    return None


def finding_key(c, ires, mres):
    """a sentence of the language rejected only because a number in it is longer than the interpreter's limit"""
    if is_s(c) and mres.get("lang", {}).get("Q") and not mres.get("within_limit", True) and "error" in ires.get("Q", {}):
        return "int-max-str-digits"
    return None


def shrink(c):
    if c["k"] == "srep":
        for n in (c["n"] // 2, c["n"] - 1):
            if 0 <= n < c["n"]:
                d = dict(c)
                d["n"] = n
                yield d
        return
    if c["k"] == "s" and c.get("sub"):
        for d in shrink({"k": "s", "s": c["s"]}):
            yield dict(d, sub=True)
        return
    if c["k"] == "s":
        s = c["s"]
        if len(s) > 400:                   # long strings: cut the longest run of one repeated character
            best, i = (0, 0), 0
            while i < len(s):
                j = i
                while j < len(s) and s[j] == s[i]:
                    j += 1
                if j - i > best[0]:
                    best = (j - i, i)
                i = j
            n, i = best
            for m in (n // 2, n - 1):
                yield {"k": "s", "s": s[:i] + s[i:i + m] + s[i + n:]}
        # drop whole qualifiers, then single characters of the qualifier part
        parts = []
        cur = []
        for x in s:
            if x == 59:
                parts.append(cur)
                cur = []
            else:
                cur.append(x)
        parts.append(cur)
        for i in range(1, len(parts)):
            rest = parts[:i] + parts[i + 1:]
            out = []
            for j, p in enumerate(rest):
                out += ([59] if j else []) + p
            yield {"k": "s", "s": out}
        if 50 < len(s) <= 400:
            for i in range(50, len(s)):
                yield {"k": "s", "s": s[:i] + s[i + 1:]}
    elif "t" in c:
        for i in range(len(c["t"])):
            yield {"k": c["k"], "t": c["t"][:i] + c["t"][i + 1:]}
    elif "b" in c:
        for i in range(0, len(c["b"]), 2):
            yield {"k": c["k"], "b": c["b"][:i] + c["b"][i + 2:]}


# ---------------------------------------------------------------- run-time cross-checks of tables
def pre_checks(ctx):
    bad = []
    ws = [x for x in range(0x110000) if chr(x).isspace()]
    ws_re = [x for x in range(0x110000) if re.fullmatch(r"\s", chr(x))]
    if ws != ws_re:
        bad.append(("table:whitespace", "str.isspace and the regex class \\s differ in this interpreter"))
    if ws != WS:
        bad.append(("table:whitespace", "harness whitespace table differs from the interpreter's: %r" % (sorted(set(ws) ^ set(WS)),)))
    try:
        got = K.run_driver(ID, ["wstable"])[0]
        if sorted(untok_text(got)) != ws:
            bad.append(("table:whitespace", "model WS_TABLE %s differs from the interpreter's str.isspace set %s" % (got, ws)))
    except Exception as e:
        bad.append(("table:whitespace", "driver failed: " + repr(e)))
    # the digit limit behaves as modelled: more than LIM digits raises ValueError in both directions, LIM digits do not
    if LIM > 0:
        try:
            ok = int("9" * LIM) == 10 ** LIM - 1 and len(str(10 ** LIM - 1)) == LIM and int("0" * LIM) == 0
        except ValueError:
            ok = False
        for f in (lambda: int("9" * (LIM + 1)), lambda: int("0" * (LIM + 1)), lambda: str(10 ** LIM)):
            try:
                f()
                ok = False
            except ValueError:
                pass
        if not ok:
            bad.append(("table:int-max-str-digits", "int()/str() do not honour sys.get_int_max_str_digits() as modelled"))
    return bad


# functions of /repo whose executed-line coverage by this run is reported in the evidence
ANCHORS = [('swh/model/swhids.py', '_BaseSWHID.*'),
           ('swh/model/swhids.py', 'QualifiedSWHID.*'),
           ('swh/model/swhids.py', '_parse_swhid'),
           ('swh/model/swhids.py', '_parse_core_swhid'),
           ('swh/model/swhids.py', '_parse_lines_qualifier'),
           ('swh/model/swhids.py', '_parse_path_qualifier')]


# the case stream is ordered by family: coq_cases gets every case and keeps a spread of each family (it shrinks the list it
# is given IN PLACE: the evidence's `n` is the number evaluated)
COQ_SAMPLE = 1 << 30


def coq_cases(cases):
    """parse_core / parse_ext / parse_q, print_q of the parsed value and its re-parse, lang_core / lang_ext / lang_q,
    within_limit, and the stdlib pieces (unquote, unquote_to_bytes, quote_from_bytes, quote_text, utf8_decode_replace,
    utf8_encode) evaluated by vm_compute inside Coq vs the extracted driver.  The Coq terms are built from the very request
    lines the driver receives."""
    from . import core
    fam = {}
    for c in cases:
        fam.setdefault("s" if is_s(c) else c["k"], []).append(c)
    def spread(l, n):
        return l[::max(1, len(l) // n)][:n] if l else []
    picked = []
    for k in sorted(fam):
        picked += spread(fam[k][:3000], 20) + spread(fam[k][3000:], 10) if k == "s" else spread(fam[k], 5)
    chosen = []
    for c in picked:
        rq = requests(c)[0]
        if len(rq) <= 2500 and rq not in {r for _, r in chosen}:
            chosen.append((c, rq))
    cases[:] = [c for c, _ in chosen]

    def txt(t):
        return "[" + "; ".join("%d" % x for x in (untok_text(t) or [])) + "]%N"
    def hexl(h):
        return "[" + "; ".join("%d" % b for b in core.unhx(h)) + "]%N"
    def term(rq):
        w = rq.split(" ")
        if w[0] == "s":
            return "s_case %d%%N %s" % (int(w[1]), txt(w[2]))
        return {"unquote": "unquote %s", "unq2b": "ot (unquote_to_bytes %s)", "quoteb": "quote_from_bytes %s", "quote": "ot (quote_text %s)",
                "utf8dec": "utf8_decode_replace %s", "utf8enc": "ot (utf8_encode %s)"}[w[0]] % (hexl if w[0] in ("quoteb", "utf8dec") else txt)(w[1])
    src = ("From Coq Require Import List NArith ZArith.\nFrom SWH.lib Require Import Bytes Utf8 Percent.\nFrom SWH.model Require Import Swhid.\n"
           "Import ListNotations.\n" + core.COQ_CHECKSUM + """
Definition zz (x : Z) : list N := [if (x <? 0)%Z then 1%N else 0%N; Z.abs_N x].
Definition en (e : err) : N := match e with EValidation => 1 | EValue => 2 | EType => 3 | EAssertion => 4 end%N.
Definition ot (o : option (list N)) : list N := match o with Some l => 360%N :: l | None => [361%N] end.
Definition sc (c : core) : list N := c_ty c ++ [362%N] ++ c_oid c.
Definition oc (o : option core) : list N := match o with Some c => 360%N :: sc c | None => [361%N] end.
Definition sl (o : option (Z * option Z)) : list N := match o with
  | None => [361%N] | Some (a, None) => 363%N :: zz a | Some (a, Some b) => 364%N :: zz a ++ zz b end.
Definition sq (v : qualified) : list N :=
  q_ty v ++ [362%N] ++ q_oid v ++ ot (q_origin v) ++ oc (q_visit v) ++ oc (q_anchor v) ++ ot (q_path v) ++ sl (q_lines v).
Definition res {A : Type} (show : A -> list N) (r : result A) : list N := match r with Ok v => 365%N :: show v | Err e => [366%N; en e] end.
Definition tf (b : bool) : N := if b then 1%N else 0%N.
Definition s_case (lim : N) (t : list N) : list N :=
  let q := parse_q lim t in
  let p := match q with Ok v => Some (print_q lim v) | Err _ => None end in
  res sc (parse_core t) ++ [350%N] ++ res sc (parse_ext t) ++ [351%N] ++ res sq q ++ [352%N]
  ++ match p with None => [361%N] | Some r => res (fun x : list N => x) r end ++ [353%N]
  ++ match p with Some (Ok s) => res sq (parse_q lim s) | _ => [361%N] end ++ [354%N]
  ++ [tf (lang_core t); tf (lang_ext t); tf (lang_q t); tf (within_limit lim t)].
""" + "Definition cases : list (list N) := [" + ";\n ".join(term(rq) for _, rq in chosen) + "].\nEval vm_compute in map cksum cases.\n")
    EN = {"ValidationError": 1, "ValueError": 2, "TypeError": 3, "AssertionError": 4}
    def zz(s):
        n = int(s)
        return [1 if n < 0 else 0, abs(n)]
    def wd(w):
        return [] if w == "." else [ord(ch) for ch in w]
    def ot(t, f):
        return [361] if t == "-" else [360] + f(t)
    def hb(h):
        return list(core.unhx(h))
    def sc(t):
        ty, h = t.split(":")
        return wd(ty) + [362] + hb(h)
    def sl(t):
        if t == "-":
            return [361]
        p = t.split(":")
        return [363] + zz(p[0]) if len(p) == 1 else [364] + zz(p[0]) + zz(p[1])
    def sq(t):
        ty, oid, origin, visit, anchor, path, ln = t.split("/")
        return wd(ty) + [362] + hb(oid) + ot(origin, untok_text) + ot(visit, sc) + ot(anchor, sc) + ot(path, hb) + sl(ln)
    def res(t, f):
        return [365] + f(t[3:]) if t.startswith("ok=") else [366, EN[t[4:]]]
    def answer(rq, r):
        k = rq.split(" ")[0]
        if k in ("unquote", "quoteb", "utf8dec"):
            return untok_text(r)
        if k == "quote":
            return [361] if r == "err" else [360] + untok_text(r)
        if k in ("unq2b", "utf8enc"):
            return [361] if r == "err" else [360] + hb(r)
        d = kv(r)
        return (res(d["C"], sc) + [350] + res(d["X"], sc) + [351] + res(d["Q"], sq) + [352]
                + ([361] if d["P"] == "-" else res(d["P"], untok_text)) + [353]
                + ([361] if d["RR"] == "-" else res(d["RR"], sq)) + [354]
                + [1 if ch == "t" else 0 for ch in d["L"]] + [1 if d["W"] == "t" else 0])
    reqs = [rq for _, rq in chosen]
    resp = core.run_driver(ID, reqs)
    exp = [core.py_cksum(answer(rq, r)) for rq, r in zip(reqs, resp)]
    return src, exp
