"""C04 - release ids are git tag ids (git_objects.release_git_object, model.Release)."""
import hashlib

from .core import exc_class, hx, unhx
from .gitobj_common import (author_line_spec, date_dict, enc_date, enc_opt, gen_bytes, gen_date, gen_fullname,
                            mk_person, mk_tstz, person_dict)

ID = "C04"
PROPS = "Props/C04.v"
EXTRACT = "extract/ExC04.v"
OBLIGATION = "release_git_object"
REQUESTS_NEED_IMPL = True
THEOREMS = ["C04_id_is_tag_hash", "C04_parse", "C04_object_hex_roundtrip", "C04_type_map_injective", "C04_type_recoverable",
            "C04_manifest_injective", "C04_irrelevant_fields", "C04_presence", "C04_no_target", "C04_type_table",
            "C04_satisfiable", "C04_tagger_date_exact"]
RULE = ("5 target types x {no author, author, author+date, date without author (rejected)} x message {None, empty, "
        "arbitrary incl. newlines / leading spaces / binary} x names with newlines/spaces/empty x dates over the whole "
        "accepted range, all microsecond shapes, canonical and junk offset bytes; target None (TypeError) included; every case "
        "is rebuilt with the other synthetic flag, a split author and a metadata mapping from a pool (legacy 'extra_headers' "
        "layout, keys named like tag-object lines or like Release fields, nested containers, empty) and must keep its id; "
        "non-trivial = an optional field present and a multi-line or empty value; distinct = distinct request")
TRUSTED = ["format_date / offset bytes as modelled in model/Time.v (property C16)", "bytes join/split/'%d' as modelled in lib/Headers.v, lib/Dec.v",
           "lib/Sha1.v as an instance of the hash oracle (validated against hashlib on every case)"]
ASSUMPTIONS = ["agreement with real git / dulwich on the expressible subset is validation of the spec, not a theorem"]

TTYPES = ["content", "directory", "revision", "release", "snapshot"]
TCODE = {"content": "c", "directory": "d", "revision": "v", "release": "r", "snapshot": "s"}
GITWORD = {"content": b"blob", "directory": b"tree", "revision": b"commit", "release": b"tag", "snapshot": b"refs"}
SWHIDT = {"content": "cnt", "directory": "dir", "revision": "rev", "release": "rel", "snapshot": "snp"}


def gen(rng, tier):
    n_cases = 1500 if tier == "quick" else 40000
    cases = []
    for k in range(n_cases):
        pres = k % 4
        c = {"name": gen_bytes(rng).hex(),
             "message": rng.choice([None, b"", gen_bytes(rng), gen_bytes(rng)]),
             "target": bytes(rng.randrange(256) for _ in range(20)).hex() if rng.random() > 0.03 else None,
             "ttype": TTYPES[(k // 4) % 5],
             "author": gen_fullname(rng).hex() if pres in (1, 2) else None,
             "date": gen_date(rng) if pres in (2, 3) else None,
             "synthetic": rng.random() < 0.5, "md": rng.randrange(len(MD_POOL)), "md_val": gen_bytes(rng).hex()}
        c["message"] = None if c["message"] is None else c["message"].hex()
        cases.append(c)
    return cases


def nontrivial(c):
    vals = [bytes.fromhex(c["name"])] + ([bytes.fromhex(c["message"])] if c["message"] is not None else []) + \
           ([bytes.fromhex(c["author"])] if c["author"] is not None else [])
    return (c["author"] is not None or c["message"] is not None) and any(v == b"" or b"\n" in v for v in vals)


def classify(c):
    ks = ["type=" + c["ttype"], "author" if c["author"] is not None else "no-author",
          "date" if c["date"] is not None else "no-date",
          "msg=" + ("None" if c["message"] is None else "empty" if c["message"] == "" else "bytes")]
    if c["target"] is None:
        ks.append("no-target")
    if c["date"] is not None and c["date"][1]:
        ks.append("microseconds")
    return ks


# metadata never takes part in a release id, whatever its keys look like (the revision-only legacy "extra_headers" layout,
# keys named like the lines of a tag object, nested containers)
MD_POOL = [lambda v: {"some": "metadata", "n": 1},
           lambda v: {"extra_headers": [[b"gpgsig", v], [b"x-custom", b"1"]]},
           lambda v: {"extra_headers": [(b"mergetag", v)]},
           lambda v: {"extra_headers": []},
           lambda v: {"object": v, "type": "commit", "tag": v, "tagger": v, "message": v, "gpgsig": v},
           lambda v: {"original_artifact": [{"sha1": v.hex(), "length": len(v)}], "raw_manifest": v, "id": v},
           lambda v: {},
           lambda v: {"author": {"fullname": v}, "date": {"timestamp": {"seconds": 1, "microseconds": 0}, "offset_bytes": b"+0000"},
                      "synthetic": True, "target": v, "target_type": "revision", "name": v}]


def mk_md(c):
    return MD_POOL[c.get("md", 0)](bytes.fromhex(c.get("md_val", "")))


def _build(c, variant=0):
    from swh.model.model import Release, ReleaseTargetType
    return Release(name=bytes.fromhex(c["name"]), message=None if c["message"] is None else bytes.fromhex(c["message"]),
                   target=None if c["target"] is None else bytes.fromhex(c["target"]),
                   target_type=ReleaseTargetType(c["ttype"]),
                   synthetic=c["synthetic"] if variant == 0 else not c["synthetic"],
                   author=mk_person(c["author"], variant), date=mk_tstz(c["date"]),
                   metadata=None if variant == 0 else mk_md(c))


_LAST_ID = [b"\x02" * 20]


def impl(c):
    from swh.model import git_objects
    from swh.model.model import Release
    try:
        r = _build(c)
    except Exception as e:
        return {"error": exc_class(e)}
    res = {"id": r.id.hex(), "manifest": git_objects.release_git_object(r).hex(), "swhid": str(r.swhid()),
           "target_swhid": str(r.target_swhid())}
    try:
        import warnings
        with warnings.catch_warnings():
            warnings.simplefilter("ignore")
            res["manifest_from_dict_arg"] = git_objects.release_git_object(r.to_dict()).hex()    # deprecated route
            # ... carrying an id that is not its own (one value for the whole run, and the id of the previous case):
            # the id key of the dict must not decide what is formatted
            for stale in (b"\x01" * 20, _LAST_ID[0]):
                git_objects.release_git_object(dict(r.to_dict(), id=stale, message=b"another release"))      # another object seen under that id first (self-contained replay)
                m2 = git_objects.release_git_object(dict(r.to_dict(), id=stale)).hex()
                if m2 != res["manifest_from_dict_arg"]:
                    res["manifest_from_dict_arg"] = "differs when the dict carries the id %s: %s" % (stale.hex(), m2[:80])
            _LAST_ID[0] = r.id
    except Exception as e:
        res["manifest_from_dict_arg"] = "error:" + exc_class(e)
    try:
        res["id_variant"] = _build(c, 1).id.hex()
    except Exception as e:
        res["id_variant"] = "error:" + exc_class(e)
    try:
        d = {"name": bytes.fromhex(c["name"]), "message": None if c["message"] is None else bytes.fromhex(c["message"]),
             "target": bytes.fromhex(c["target"]), "target_type": c["ttype"], "synthetic": c["synthetic"],
             "author": person_dict(c["author"]), "date": date_dict(c["date"])}
        res["id_from_dict"] = Release.from_dict(d).id.hex()
    except Exception as e:
        res["id_from_dict"] = "error:" + exc_class(e)
    # dictionary route with the tagger given WITHOUT a fullname (legacy rows): the documented rule builds it from name and
    # email - "name", "<email>" or "name <email>", an empty name or email still counts - and the id is the tag id of that
    if c["author"] is not None and c["target"] is not None:
        try:
            from swh.model.model import Person
            fn = bytes.fromhex(c["author"])
            half = len(fn) // 2
            bad = []
            for name, email in ((fn, None), (None, fn), (fn, b""), (b"", fn), (fn[:half], fn[half:]), (b"", b"")):
                parts = ([name] if name is not None else []) + ([b"<" + email + b">"] if email is not None else [])
                want = Release(name=bytes.fromhex(c["name"]), message=None if c["message"] is None else bytes.fromhex(c["message"]),
                               target=bytes.fromhex(c["target"]), target_type=__import__("swh.model.model", fromlist=["x"]).ReleaseTargetType(c["ttype"]),
                               synthetic=c["synthetic"], author=Person(fullname=b" ".join(parts), name=name, email=email),
                               date=mk_tstz(c["date"])).id
                got = Release.from_dict(dict(d, author={"name": name, "email": email})).id
                if got != want:
                    bad.append([None if name is None else name.hex(), None if email is None else email.hex()])
            res["nofullname_bad"] = bad
        except Exception as e:
            res["nofullname_bad"] = "error:" + exc_class(e)
    return res


def requests(c, ires):
    r = [" ".join(["rel", hx(bytes.fromhex(c["name"])), enc_opt(c["message"]), enc_opt(c["target"]), TCODE[c["ttype"]],
                   enc_opt(c["author"]), enc_date(c["date"])])]
    if "manifest" in ires:
        r.append("ptag " + hx(bytes.fromhex(ires["manifest"])))
    return r


def model(c, resp):
    res = {"rel": resp[0]}
    if len(resp) > 1:
        res["parsed_impl_manifest"] = resp[1]
    return res


def oracle(c, ires, mres):
    valid = not (c["author"] is None and c["date"] is not None)
    if "error" in ires:
        if c["target"] is None and valid and ires["error"] == "TypeError":
            return None     # a release without target cannot be identified: outside the property's domain
        return ("a valid release was rejected with " + ires["error"]) if valid else None
    if not valid:
        return "a release with a date but no author was accepted"
    man = bytes.fromhex(ires["manifest"])
    if ires["id"] != hashlib.sha1(man).hexdigest():
        return "id is not the SHA-1 of the tag object"
    if ires["manifest_from_dict_arg"] != ires["manifest"]:
        return "release_git_object(<dict>) differs from release_git_object(<Release>)"
    if ires["id_variant"] != ires["id"]:
        return "synthetic flag / metadata / split name+email influence the id"
    if ires["id_from_dict"] != ires["id"]:
        return "id differs between constructor and from_dict"
    if ires.get("nofullname_bad"):
        return ("Release.from_dict with a tagger given as {name, email} without fullname: the id is not the tag id of the "
                "documented fullname ('name', '<email>' or 'name <email>') for (name, email) = %s" % str(ires["nofullname_bad"])[:200])
    if ires["swhid"] != "swh:1:rel:" + ires["id"] or ires["target_swhid"] != "swh:1:%s:%s" % (SWHIDT[c["ttype"]], c["target"]):
        return "swhid()/target_swhid() wrong"
    got = mres.get("parsed_impl_manifest", "none")
    if not got.startswith("ok "):
        return "the independent tag parser cannot parse the manifest"
    _, o, t, n, tg, msg = got.split(" ")
    want_tagger = None if c["author"] is None else author_line_spec(bytes.fromhex(c["author"]), c["date"])
    if unhx(o) != c["target"].encode() or unhx(t) != GITWORD[c["ttype"]] or unhx(n) != bytes.fromhex(c["name"]) \
            or unhx(tg) != want_tagger or unhx(msg) != (None if c["message"] is None else bytes.fromhex(c["message"])):
        return "the independent tag parser does not recover object/type/tag/tagger/message from the manifest"
    return None


def compare(c, ires, mres):
    if "error" in ires:
        return None if mres["rel"] == "err " + ires["error"] else \
            "implementation raised %s, model says %s" % (ires["error"], mres["rel"][:40])
    if not mres["rel"].startswith("ok "):
        return "implementation accepted, model says " + mres["rel"]
    _, man, sha = mres["rel"].split(" ")
    if man != hx(bytes.fromhex(ires["manifest"])):
        return "manifest bytes differ between model and implementation"
    if sha != ires["id"]:
        return "id differs from the model's SHA-1 of the manifest"
    return None


def shrink(c):
    for k in ("message", "author", "date"):
        if c[k] is not None and not (k == "author" and c["date"] is not None):
            yield dict(c, **{k: None})
    for k in ("name", "message", "author"):
        if c[k]:
            b = bytes.fromhex(c[k])
            yield dict(c, **{k: b[:len(b) // 2].hex()})
            yield dict(c, **{k: b[1:].hex()})
    if c["date"] is not None:
        yield dict(c, date=[0, c["date"][1], c["date"][2]])
        yield dict(c, date=[c["date"][0], 0, c["date"][2]])
        yield dict(c, date=[c["date"][0], c["date"][1], b"+0000".hex()])


# functions of /repo whose executed-line coverage by this run is reported in the evidence
ANCHORS = [('swh/model/git_objects.py', 'release_git_object'),
           ('swh/model/git_objects.py', 'target_type_to_git'),
           ('swh/model/git_objects.py', 'format_author_data'),
           ('swh/model/git_objects.py', 'format_git_object_from_headers'),
           ('swh/model/model.py', 'Release.check_author')]


def pre_checks(ctx):
    """validation of the spec-level definition against independent implementations of git's tag format (not a
    theorem): dulwich parses the library's payload into the same fields and re-serialises it byte for byte;
    thorough tier: `git hash-object -t tag` / `git cat-file` agree on id and payload"""
    import random
    import subprocess
    import tempfile
    from swh.model import git_objects
    out = []
    try:
        from dulwich.objects import Tag
    except Exception:
        return out
    rng = random.Random(ctx.seed + 404)
    n = 60 if ctx.tier == "quick" else 3000
    gitdir = None
    if ctx.tier == "thorough":
        gitdir = tempfile.mkdtemp(prefix="c04git")
        subprocess.run(["git", "init", "-q", "--bare", gitdir], check=True)
    try:
        for _ in range(n):
            h, m = rng.randrange(0, 14), rng.choice([0, 30])
            c = {"name": rng.choice([b"v1.0", b"release-2", b"x"]).hex(), "message": rng.choice([b"", b"msg\n", b"a\n\nb"]).hex(),
                 "target": bytes(rng.randrange(256) for _ in range(20)).hex(), "ttype": rng.choice(["content", "directory", "revision", "release"]),
                 "author": b"T Agger <t@example.org>".hex(),
                 "date": [rng.randrange(0, 2 ** 33), 0, (rng.choice(["+", "-"]) + "%02d%02d" % (h, m)).encode().hex()], "synthetic": False}
            r = _build(c)
            man = git_objects.release_git_object(r)
            payload = man[man.index(b"\x00") + 1:]
            dt = Tag.from_string(payload)
            got = (dt.object[1], dt.object[0].type_name, dt.name, dt.tagger, dt.tag_time, dt.message)
            want = (c["target"].encode(), GITWORD[c["ttype"]], bytes.fromhex(c["name"]), bytes.fromhex(c["author"]), c["date"][0],
                    bytes.fromhex(c["message"]))
            if got != want or dt.as_raw_string() != payload or dt.id.decode() != r.id.hex():
                out.append(("spec-validation:dulwich-tag", "dulwich parses/re-serialises the payload differently: %r vs %r" % (got, want)))
                break
            if gitdir:
                p = subprocess.run(["git", "--git-dir", gitdir, "hash-object", "-t", "tag", "-w", "--stdin", "--literally"],
                                   input=payload, stdout=subprocess.PIPE, stderr=subprocess.PIPE)
                if p.returncode == 0:
                    gid = p.stdout.decode().strip()
                    back = subprocess.run(["git", "--git-dir", gitdir, "cat-file", "tag", gid], stdout=subprocess.PIPE).stdout
                    if gid != r.id.hex() or back != payload:
                        out.append(("spec-validation:git-tag", "git hash-object/cat-file disagree for %r" % c))
                        break
    finally:
        if gitdir:
            subprocess.run(["rm", "-rf", gitdir])
    return out


def coq_cases(cases):
    """release_valid / release_git_object (+ Sha1.sha1 of the manifest) evaluated by vm_compute inside Coq vs the
    extracted driver (extraction cross-check)"""
    from . import core
    def size(c):
        return sum(len(c[k]) // 2 for k in ("name", "message", "author") if c[k] is not None)
    cases[:] = [c for c in cases if size(c) <= 200]      # in place: the evidence's `n` is the number evaluated
    tt = {"content": "RContent", "directory": "RDirectory", "revision": "RRevision", "release": "RRelease", "snapshot": "RSnapshot"}
    def nl(h):
        return "[" + "; ".join("%d" % b for b in bytes.fromhex(h)) + "]%N"
    def opt(h, f=nl):
        return "None" if h is None else "(Some %s)" % f(h)
    def person(h):
        return "{| fullname := %s; p_name := None; p_email := None |}" % nl(h)
    def date(d):
        return "{| ts := {| seconds := (%d)%%Z; microseconds := (%d)%%Z |}; offset_bytes := %s |}" % (d[0], d[1], nl(d[2]))
    def rel(c):
        return ("{| r_name := %s; r_message := %s; r_target := %s; r_ttype := %s; r_synthetic := false; r_author := %s; "
                "r_date := %s; r_metadata := None; r_raw_manifest := None |}"
                % (nl(c["name"]), opt(c["message"]), opt(c["target"]), tt[c["ttype"]], opt(c["author"], person), opt(c["date"], date)))
    src = ("From Coq Require Import List NArith ZArith.\nFrom SWH.lib Require Import Bytes Sha1.\nFrom SWH.model Require Import Time Rel.\n"
           "Import ListNotations.\n" + core.COQ_CHECKSUM +
           "\nDefinition cases : list release := [" + ";\n ".join(rel(c) for c in cases) + "].\n"
           "Eval vm_compute in map (fun r => if release_valid r then match release_git_object r with MOk m => cksum (m ++ sha1 m) "
           "| MTypeError => 2%N | MValueError => 1%N end else 1%N) cases.\n")
    resp = core.run_driver(ID, [" ".join(["rel", hx(bytes.fromhex(c["name"])), enc_opt(c["message"]), enc_opt(c["target"]), TCODE[c["ttype"]],
                                          enc_opt(c["author"]), enc_date(c["date"])]) for c in cases])
    exp = []
    for r in resp:
        w = r.split(" ")
        exp.append(core.py_cksum(unhx(w[1]) + unhx(w[2])) if w[0] == "ok" else {"err ValueError": 1, "err TypeError": 2}.get(r, 3))
    return src, exp
