"""C04 - release ids are git tag ids (git_objects.release_git_object, model.Release)."""
import hashlib

from .core import exc_class, hx, unhx
from .gitobj_common import (LEGACY_DATE_MODES, author_line_spec, date_dict, date_dict_legacy, enc_date, enc_opt, gen_bytes,
                            gen_bytes_wide, gen_date_wide, gen_fullname_wide, gen_id, mk_person, mk_person_from_fullname, mk_tstz,
                            person_dict, BytesSub)

ID = "C04"
PROPS = "Props/C04.v"
EXTRACT = "extract/ExC04.v"
OBLIGATION = "release_git_object"
REQUESTS_NEED_IMPL = True
THEOREMS = ["C04_id_is_tag_hash", "C04_parse", "C04_object_hex_roundtrip", "C04_type_map_injective", "C04_type_recoverable",
            "C04_manifest_injective", "C04_irrelevant_fields", "C04_presence", "C04_no_target", "C04_type_table",
            "C04_satisfiable", "C04_raw_manifest_precedence", "C04_tagger_date_exact"]
RULE = ("5 target types x {no author, author, author+date, date without author (rejected)} x message {None, empty, "
        "arbitrary incl. newlines / leading spaces / binary} x names with newlines/spaces/empty, CR / CRLF, NUL, TAB continuation, "
        "lone separators, VT/FF/FS/NEL, header look-alikes, >100 lines, ~1 kB x dates over the whole accepted range (digit-count "
        "boundaries), all microsecond shapes, canonical and junk offset bytes; messages padded so that the object length sits at "
        "99/100/101, 999/1000/1001 (thorough: 9999/10000); targets of 20 bytes, git's null id, one byte apart from the previous "
        "case's target, 1 or 32 bytes, empty; target None (TypeError) included; every case "
        "is rebuilt with the other synthetic flag, a split author and a metadata mapping from a pool (legacy 'extra_headers' "
        "layout, keys named like tag-object lines or like Release fields, nested containers, empty; as dict or ImmutableDict) and "
        "must keep its id; the base object itself sometimes carries such metadata. Every case: constructor, from_dict, the deprecated "
        "dict argument (stale ids), taggers without fullname, check(), second calls; one group per case of: from_dict with the same "
        "dict twice / optional keys absent / id=b'' / values of a bytes subclass / to_dict round trips and dict arguments with and without id and with metadata / "
        "dates in the older dictionary encodings; one per case of: explicit id (empty / own / foreign: check() must refuse it), raw "
        "manifest (own / empty / arbitrary), evolve there and back; "
        "non-trivial = an optional field present and a multi-line or empty value; distinct = distinct request")
TRUSTED = ["format_date / offset bytes as modelled in model/Time.v (property C16)", "bytes join/split/'%d' as modelled in lib/Headers.v, lib/Dec.v",
           "lib/Sha1.v as an instance of the hash oracle (validated against hashlib on every case)"]
ASSUMPTIONS = ["agreement with real git / dulwich on the expressible subset is validation of the spec, not a theorem",
               "an id given explicitly to the constructor is kept as given (only check() compares it with the tag hash); a raw manifest "
               "replaces the fields for the id only (C04_raw_manifest_precedence); target_swhid() is observed for 20-byte targets only"]

TTYPES = ["content", "directory", "revision", "release", "snapshot"]
TCODE = {"content": "c", "directory": "d", "revision": "v", "release": "r", "snapshot": "s"}
GITWORD = {"content": b"blob", "directory": b"tree", "revision": b"commit", "release": b"tag", "snapshot": b"refs"}
SWHIDT = {"content": "cnt", "directory": "dir", "revision": "rev", "release": "rel", "snapshot": "snp"}
BOUNDARY_LENGTHS = [99, 100, 101, 999, 1000, 1001, 9999, 10000]


def _esc_len(v):
    return len(v) + v.count(b"\n")


def _payload_len(c):
    """length of the tag payload for these fields, from the format's definition (used only to aim a message at a length
    boundary; never compared with the implementation)"""
    n = 7 + len(c["target"] or "") + 1 + 5 + len(GITWORD[c["ttype"]]) + 1 + 4 + _esc_len(bytes.fromhex(c["name"])) + 1
    if c["author"] is not None:
        n += 7 + _esc_len(author_line_spec(bytes.fromhex(c["author"]), c["date"])) + 1
    if c["message"] is not None:
        n += 1 + len(c["message"]) // 2
    return n


def gen(rng, tier):
    n_cases = 1500 if tier == "quick" else 40000
    cases = []
    prev = []
    n_huge = 0
    for k in range(n_cases):
        pres = k % 4
        x = rng.random()
        target = None if x < 0.03 else b"" if x < 0.045 else gen_id(rng, prev)
        if target:
            prev = [target]
        msg = rng.choice([None, b"", gen_bytes_wide(rng), gen_bytes_wide(rng)])
        c = {"name": gen_bytes_wide(rng).hex(),
             "message": None if msg is None else msg.hex(),
             "target": None if target is None else target.hex(),
             "ttype": TTYPES[(k // 4) % 5],
             "author": gen_fullname_wide(rng).hex() if pres in (1, 2) else None,
             "date": gen_date_wide(rng) if pres in (2, 3) else None,
             "synthetic": rng.random() < 0.5, "md": rng.randrange(len(MD_POOL)), "md_val": gen_bytes(rng).hex()}
        # ---- dimensions of the audit (absent key = the behaviour of earlier recorded cases)
        if rng.random() < 0.3:
            c["md0"] = rng.randrange(len(MD_POOL))          # the base object itself carries metadata
        c["md_immutable"] = rng.random() < 0.4
        x = (k // 20) % 5
        if x == 0:
            c["id_mode"] = rng.choice(["empty", "own", "foreign"])
        elif x == 1:
            c["raw"] = rng.choice(["M", "", gen_bytes_wide(rng).hex(), b"tag 0\x00".hex()])
        elif x == 2:
            c["evolve"] = True
        c["grp"] = (k // 4) % 3
        c["dl"] = rng.randrange(len(LEGACY_DATE_MODES))
        if c["message"] is not None and c["target"] is not None and rng.random() < 0.04:      # aim the object length at a digit-count boundary
            want = rng.choice(BOUNDARY_LENGTHS[:6] if (tier == "quick" or n_huge >= 40) else BOUNDARY_LENGTHS)
            have = _payload_len(c)
            if have <= want:
                c["message"] = (bytes.fromhex(c["message"]) + b"x" * (want - have)).hex()
                n_huge += want > 2000
        cases.append(c)
    # deterministic sweep over the literals harvested from the code under test: random splicing alone puts a given literal at the
    # front of a given field too rarely to find a special case keyed on it
    from .gitobj_common import source_tokens
    for i, t in enumerate(source_tokens("bytes")):
        for mode in (("pre",) if tier == "quick" else ("pre", "suf", "whole")):
            f = {"pre": lambda v: t + v, "suf": lambda v: v + t, "whole": lambda v: t}[mode]
            cases.append({"name": f(b"v1.0").hex(), "message": f(b"msg\n").hex(), "target": (bytes([i % 251 + 1]) * 20).hex(),
                          "ttype": TTYPES[i % 5], "author": f(b"A U Thor <a@b>").hex(), "date": [1234567890 + i, 0, b"+0000".hex()],
                          "synthetic": False, "md": 0, "md_val": ""})
    return cases


def _vals(c):
    return [bytes.fromhex(c["name"])] + ([bytes.fromhex(c["message"])] if c["message"] is not None else []) + \
           ([bytes.fromhex(c["author"])] if c["author"] is not None else [])


def nontrivial(c):
    return (c["author"] is not None or c["message"] is not None) and any(v == b"" or b"\n" in v for v in _vals(c))


def classify(c):
    ks = ["type=" + c["ttype"], "author" if c["author"] is not None else "no-author",
          "date" if c["date"] is not None else "no-date",
          "msg=" + ("None" if c["message"] is None else "empty" if c["message"] == "" else "bytes")]
    if c["target"] is None:
        ks.append("no-target")
    elif c["target"] == "":
        ks.append("empty-target")
    elif len(c["target"]) != 40:
        ks.append("target-not-20-bytes")
    elif not c["target"].strip("0"):
        ks.append("null-id-target")
    if c["date"] is not None and c["date"][1]:
        ks.append("microseconds")
    vals = _vals(c)
    if any(b"\r" in v for v in vals):
        ks.append("value-with-CR")
    if any(b"\x00" in v for v in vals):
        ks.append("value-with-NUL")
    if any(b"\n\t" in v for v in vals):
        ks.append("TAB-continuation")
    if any(v.count(b"\n") > 100 for v in vals):
        ks.append("value>100-lines")
    if c.get("md0") is not None:
        ks.append("base-object-with-metadata")
    for k in ("id_mode", "raw", "evolve"):
        if c.get(k) is not None:
            ks.append("%s=%s" % (k, c[k] if k == "id_mode" else "M" if c[k] == "M" else "empty" if c[k] == "" else "yes"))
    if c.get("grp") is not None:
        ks.append("dict-route-group=%d" % c["grp"])
    try:
        n = _payload_len(c)
        if n in BOUNDARY_LENGTHS:
            ks.append("object-length=%d" % n)
    except Exception:
        pass
    return ks


# metadata never takes part in a release id, whatever its keys look like (the revision-only legacy "extra_headers" layout,
# keys named like the lines of a tag object, nested containers)
MD_POOL = [lambda v: {"some": "metadata", "n": 1},
           lambda v: {"extra_headers": [[b"gpgsig", v], [b"x-custom", b"1"]]},
           lambda v: {"extra_headers": [(b"mergetag", v)]},
           lambda v: {"extra_headers": []},
           lambda v: {"object": v, "type": "commit", "tag": v, "tagger": v, "message": v, "gpgsig": v},
           lambda v: {"original_artifact": [{"sha1": v.hex(), "length": len(v)}], "raw_manifest": v, "id": v},
           lambda v: {},
           lambda v: {"author": {"fullname": v}, "date": {"timestamp": {"seconds": 1, "microseconds": 0}, "offset_bytes": b"+0000"},
                      "synthetic": True, "target": v, "target_type": "revision", "name": v}]


def mk_md(c, key="md"):
    md = MD_POOL[c.get(key) or 0](bytes.fromhex(c.get("md_val", "")))
    if c.get("md_immutable"):
        from swh.model.collections import ImmutableDict
        md = ImmutableDict(md)
    return md


def _build(c, variant=0, **over):
    from swh.model.model import Release, ReleaseTargetType
    kw = dict(name=bytes.fromhex(c["name"]), message=None if c["message"] is None else bytes.fromhex(c["message"]),
              target=None if c["target"] is None else bytes.fromhex(c["target"]),
              target_type=ReleaseTargetType(c["ttype"]),
              synthetic=c["synthetic"] if variant == 0 else not c["synthetic"],
              author=mk_person_from_fullname(c["author"]) if (variant == 1 and (c.get("md") or 0) % 3 == 2) else mk_person(c["author"], variant),
              date=mk_tstz(c["date"]),
              metadata=(None if c.get("md0") is None else mk_md(c, "md0")) if variant == 0 else mk_md(c))
    kw.update(over)
    return Release(**kw)


_LAST_ID = [b"\x02" * 20]


def _from_dict_base(c):
    return {"name": bytes.fromhex(c["name"]), "message": None if c["message"] is None else bytes.fromhex(c["message"]),
            "target": bytes.fromhex(c["target"]), "target_type": c["ttype"], "synthetic": c["synthetic"],
            "author": person_dict(c["author"]), "date": date_dict(c["date"])}


def _wide_routes(c, r, res, d):
    """the routes added by the audit.  same_id / same_manifest: {route: value} that must equal the id / manifest of the
    plainly constructed release; notes: [violated statement]"""
    import warnings
    from swh.model import git_objects
    from swh.model.model import Release
    same_id, same_man, notes = {}, {}, []
    res["same_id"], res["same_manifest"], res["notes"] = same_id, same_man, notes
    man = bytes.fromhex(res["manifest"])

    def route(table, name, f):
        try:
            table[name] = f()
        except Exception as e:
            table[name] = "error:" + exc_class(e)

    route(same_man, "release_git_object(r), second call", lambda: git_objects.release_git_object(r).hex())
    route(same_id, "compute_hash()", lambda: r.compute_hash().hex())
    try:
        r.check()
    except Exception as e:
        notes.append("check() refuses the constructed release: " + exc_class(e))
    mode = c.get("id_mode")
    try:
        if mode == "empty":
            same_id["constructor with id=b''"] = _build(c, id=b"").id.hex()
        elif mode == "own":
            r2 = _build(c, id=r.id)
            same_id["constructor with its own id"] = r2.id.hex()
            same_man["object built with its own id"] = git_objects.release_git_object(r2).hex()
            r2.check()
        elif mode == "foreign":
            foreign = r.id[:-1] + bytes([r.id[-1] ^ 1])
            r2 = _build(c, id=foreign)
            same_id["compute_hash() of an object built with a foreign id"] = r2.compute_hash().hex()
            same_man["object built with a foreign id"] = git_objects.release_git_object(r2).hex()
            if r2.id != foreign:
                notes.append("an explicitly given id is not kept")
            try:
                r2.check()
                notes.append("check() accepts an id that is not the SHA-1 of the tag object")
            except ValueError:
                pass
    except Exception as e:
        notes.append("explicit id (%s): %s" % (mode, exc_class(e)))
    if c.get("raw") is not None:
        try:
            raw = man if c["raw"] == "M" else bytes.fromhex(c["raw"])
            rr = _build(c, raw_manifest=raw)
            res["raw_id"] = rr.id.hex()
            same_man["object carrying a raw manifest"] = git_objects.release_git_object(rr).hex()
            if rr.compute_hash() != rr.id:
                notes.append("compute_hash() of an object carrying a raw manifest differs from its id")
        except Exception as e:
            res["raw_id"] = "error:" + exc_class(e)
    if c.get("evolve"):
        try:
            n0 = bytes.fromhex(c["name"])
            m0 = None if c["message"] is None else bytes.fromhex(c["message"])
            n2 = n0 + b"\n2"
            e = r.evolve(name=n2, message=None)
            if e.id != _build(c, name=n2, message=None).id or e.id != hashlib.sha1(git_objects.release_git_object(e)).digest():
                notes.append("evolve(name=..., message=None) does not give the id of the tag with the new fields")
            same_id["evolve(name, message) there and back"] = e.evolve(name=n0, message=m0).id.hex()
        except Exception as e:
            notes.append("evolve: " + exc_class(e))
    grp = c.get("grp")
    keys0 = sorted(d)
    if grp in (None, 0):
        route(same_id, "from_dict, the same dict a second time", lambda: Release.from_dict(d).id.hex())
        if sorted(d) != keys0:
            notes.append("from_dict removed keys from the dictionary it was given")
        route(same_id, "from_dict, optional keys absent when unset, id=b'', other synthetic flag, metadata", lambda: Release.from_dict(
            dict({k: v for k, v in d.items() if v is not None or k == "message"}, id=b"", synthetic=not c["synthetic"],
                 metadata=mk_md(c))).id.hex())
        def sub():
            from swh.model.model import Person, TimestampWithTimezone
            over = dict(name=BytesSub(bytes.fromhex(c["name"])), target=BytesSub(bytes.fromhex(c["target"])),
                        message=None if c["message"] is None else BytesSub(bytes.fromhex(c["message"])))
            if c["author"] is not None:
                over["author"] = Person(fullname=BytesSub(bytes.fromhex(c["author"])), name=None, email=None)
            if c["date"] is not None:
                t = mk_tstz(c["date"])
                over["date"] = TimestampWithTimezone(timestamp=t.timestamp, offset_bytes=BytesSub(t.offset_bytes))
            return _build(c, **over).id.hex()
        route(same_id, "constructor, values of a bytes subclass", sub)
        route(same_id, "from_dict, metadata=None and raw_manifest=None given", lambda: Release.from_dict(
            dict(d, metadata=None, raw_manifest=None)).id.hex())
    if grp in (None, 1):
        route(same_id, "from_dict(to_dict())", lambda: Release.from_dict(r.to_dict()).id.hex())
        route(same_id, "from_dict(to_dict() without id)", lambda: Release.from_dict(
            {k: v for k, v in r.to_dict().items() if k != "id"}).id.hex())
        with warnings.catch_warnings():
            warnings.simplefilter("ignore")
            route(same_man, "release_git_object(<dict without id>)", lambda: git_objects.release_git_object(d).hex())
            route(same_man, "release_git_object(<to_dict() of the variant carrying metadata>)",
                  lambda: git_objects.release_git_object(_build(c, 1).to_dict()).hex())
            route(same_man, "release_git_object(<dict with metadata, without id>)",
                  lambda: git_objects.release_git_object(dict(d, metadata=dict(mk_md(c)))).hex())
    if grp in (None, 2) and c["date"] is not None and c.get("dl") is not None:
        mode = LEGACY_DATE_MODES[c["dl"] % len(LEGACY_DATE_MODES)]
        ld = date_dict_legacy(c["date"], mode)
        if ld is not None:
            route(same_id, "from_dict, date in the '%s' encoding" % mode, lambda: Release.from_dict(dict(d, date=ld)).id.hex())


def impl(c):
    from swh.model import git_objects
    from swh.model.model import Release
    try:
        r = _build(c)
    except Exception as e:
        return {"error": exc_class(e)}
    res = {"id": r.id.hex(), "manifest": git_objects.release_git_object(r).hex(), "swhid": str(r.swhid())}
    if len(c["target"]) == 40:
        res["target_swhid"] = str(r.target_swhid())
    try:
        import warnings
        with warnings.catch_warnings():
            warnings.simplefilter("ignore")
            res["manifest_from_dict_arg"] = git_objects.release_git_object(r.to_dict()).hex()    # deprecated route
            # ... carrying an id that is not its own (one value for the whole run, and the id of the previous case):
            # the id key of the dict must not decide what is formatted
            for stale in (b"\x01" * 20, _LAST_ID[0]):
                git_objects.release_git_object(dict(r.to_dict(), id=stale, message=b"another release"))      # another object seen under that id first (self-contained replay)
                m2 = git_objects.release_git_object(dict(r.to_dict(), id=stale)).hex()
                if m2 != res["manifest_from_dict_arg"]:
                    res["manifest_from_dict_arg"] = "differs when the dict carries the id %s: %s" % (stale.hex(), m2[:80])
            _LAST_ID[0] = r.id
    except Exception as e:
        res["manifest_from_dict_arg"] = "error:" + exc_class(e)
    try:
        res["id_variant"] = _build(c, 1).id.hex()
    except Exception as e:
        res["id_variant"] = "error:" + exc_class(e)
    d = None
    try:
        d = _from_dict_base(c)
        res["id_from_dict"] = Release.from_dict(d).id.hex()
    except Exception as e:
        res["id_from_dict"] = "error:" + exc_class(e)
    # dictionary route with the tagger given WITHOUT a fullname (legacy rows): the documented rule builds it from name and
    # email - "name", "<email>" or "name <email>", an empty name or email still counts - and the id is the tag id of that
    if c["author"] is not None and c["target"] is not None:
        try:
            from swh.model.model import Person
            fn = bytes.fromhex(c["author"])
            half = len(fn) // 2
            bad = []
            for name, email in ((fn, None), (None, fn), (fn, b""), (b"", fn), (fn[:half], fn[half:]), (b"", b"")):
                parts = ([name] if name is not None else []) + ([b"<" + email + b">"] if email is not None else [])
                want = Release(name=bytes.fromhex(c["name"]), message=None if c["message"] is None else bytes.fromhex(c["message"]),
                               target=bytes.fromhex(c["target"]), target_type=__import__("swh.model.model", fromlist=["x"]).ReleaseTargetType(c["ttype"]),
                               synthetic=c["synthetic"], author=Person(fullname=b" ".join(parts), name=name, email=email),
                               date=mk_tstz(c["date"])).id
                got = Release.from_dict(dict(d, author={"name": name, "email": email})).id
                if got != want:
                    bad.append([None if name is None else name.hex(), None if email is None else email.hex()])
            res["nofullname_bad"] = bad
        except Exception as e:
            res["nofullname_bad"] = "error:" + exc_class(e)
    if d is not None:
        try:
            _wide_routes(c, r, res, d)
        except Exception as e:
            res.setdefault("notes", []).append("the added routes crashed: " + exc_class(e))
    return res


def _raw_hex(c, ires):
    raw = c.get("raw")
    if raw == "M":
        return ires.get("manifest")
    return raw


def _rel_request(c, ires):
    w = ["rel", hx(bytes.fromhex(c["name"])), enc_opt(c["message"]), enc_opt(c["target"]), TCODE[c["ttype"]],
         enc_opt(c["author"]), enc_date(c["date"])]
    raw = _raw_hex(c, ires)
    if raw is not None:
        w.append(enc_opt(raw))
    return " ".join(w)


def requests(c, ires):
    r = [_rel_request(c, ires)]
    if "manifest" in ires:
        r.append("ptag " + hx(bytes.fromhex(ires["manifest"])))
    return r


def model(c, resp):
    res = {"rel": resp[0]}
    if len(resp) > 1:
        res["parsed_impl_manifest"] = resp[1]
    return res


def oracle(c, ires, mres):
    valid = not (c["author"] is None and c["date"] is not None)
    if "error" in ires:
        if c["target"] is None and valid and ires["error"] == "TypeError":
            return None     # a release without target cannot be identified: outside the property's domain
        return ("a valid release was rejected with " + ires["error"]) if valid else None
    if not valid:
        return "a release with a date but no author was accepted"
    man = bytes.fromhex(ires["manifest"])
    if ires["id"] != hashlib.sha1(man).hexdigest():
        return "id is not the SHA-1 of the tag object"
    if ires["manifest_from_dict_arg"] != ires["manifest"]:
        return "release_git_object(<dict>) differs from release_git_object(<Release>)"
    if ires["id_variant"] != ires["id"]:
        return "synthetic flag / metadata / split name+email influence the id"
    if ires["id_from_dict"] != ires["id"]:
        return "id differs between constructor and from_dict"
    if ires.get("nofullname_bad"):
        return ("Release.from_dict with a tagger given as {name, email} without fullname: the id is not the tag id of the "
                "documented fullname ('name', '<email>' or 'name <email>') for (name, email) = %s" % str(ires["nofullname_bad"])[:200])
    if ires["swhid"] != "swh:1:rel:" + ires["id"] or \
            ("target_swhid" in ires or len(c["target"]) == 40) and ires.get("target_swhid") != "swh:1:%s:%s" % (SWHIDT[c["ttype"]], c["target"]):
        return "swhid()/target_swhid() wrong"
    for k, v in ires.get("same_id", {}).items():
        if v != ires["id"]:
            return "the id differs on the route '%s': %s" % (k, v[:60])
    for k, v in ires.get("same_manifest", {}).items():
        if v != ires["manifest"]:
            return "the tag object differs on the route '%s': %s" % (k, v[:80])
    if ires.get("notes"):
        return ires["notes"][0]
    if "raw_id" in ires:
        raw = _raw_hex(c, ires)
        if ires["raw_id"] != hashlib.sha1(bytes.fromhex(raw)).hexdigest():
            return "the id of a release carrying a raw manifest is not the SHA-1 of that manifest: " + ires["raw_id"]
    got = mres.get("parsed_impl_manifest", "none")
    if not got.startswith("ok "):
        return "the independent tag parser cannot parse the manifest"
    _, o, t, n, tg, msg = got.split(" ")
    want_tagger = None if c["author"] is None else author_line_spec(bytes.fromhex(c["author"]), c["date"])
    if unhx(o) != c["target"].encode() or unhx(t) != GITWORD[c["ttype"]] or unhx(n) != bytes.fromhex(c["name"]) \
            or unhx(tg) != want_tagger or unhx(msg) != (None if c["message"] is None else bytes.fromhex(c["message"])):
        return "the independent tag parser does not recover object/type/tag/tagger/message from the manifest"
    return None


def compare(c, ires, mres):
    if "error" in ires:
        return None if mres["rel"] == "err " + ires["error"] else \
            "implementation raised %s, model says %s" % (ires["error"], mres["rel"][:40])
    if not mres["rel"].startswith("ok "):
        return "implementation accepted, model says " + mres["rel"]
    w = mres["rel"].split(" ")
    man, sha = w[1], w[2]
    if man != hx(bytes.fromhex(ires["manifest"])):
        return "manifest bytes differ between model and implementation"
    if sha != ires["id"]:
        return "id differs from the model's SHA-1 of the manifest"
    if (len(w) > 3) != ("raw_id" in ires) or (len(w) > 3 and w[3] != ires["raw_id"]):
        return "id (raw manifest first) differs from the model's rel_compute_hash"
    return None


def shrink(c):
    for k in ("id_mode", "raw", "evolve", "md0", "dl"):
        if c.get(k) is not None:
            yield {x: y for x, y in c.items() if x != k}
    if c.get("md_immutable"):
        yield dict(c, md_immutable=False)
    for k in ("message", "author", "date"):
        if c[k] is not None and not (k == "author" and c["date"] is not None):
            yield dict(c, **{k: None})
    for k in ("name", "message", "author"):
        if c[k]:
            b = bytes.fromhex(c[k])
            yield dict(c, **{k: b[:len(b) // 2].hex()})
            yield dict(c, **{k: b[len(b) // 2:].hex()})
            yield dict(c, **{k: b[1:].hex()})
    if c["date"] is not None:
        yield dict(c, date=[0, c["date"][1], c["date"][2]])
        yield dict(c, date=[c["date"][0], 0, c["date"][2]])
        yield dict(c, date=[c["date"][0], c["date"][1], b"+0000".hex()])
    if c["target"] and len(c["target"]) != 40:
        yield dict(c, target="11" * 20)


# functions of /repo whose executed-line coverage by this run is reported in the evidence
ANCHORS = [('swh/model/git_objects.py', 'release_git_object'),
           ('swh/model/git_objects.py', 'target_type_to_git'),
           ('swh/model/git_objects.py', 'format_author_data'),
           ('swh/model/git_objects.py', 'format_git_object_from_headers'),
           ('swh/model/model.py', 'Release.check_author'),
           ('swh/model/git_objects.py', 'escape_newlines'),
           ('swh/model/model.py', 'Release.from_dict'),
           ('swh/model/model.py', 'Release.to_dict'),
           ('swh/model/model.py', 'Person.from_dict'),
           ('swh/model/model.py', 'HashableObjectWithManifest.compute_hash'),
           ('swh/model/model.py', 'HashableObjectWithManifest.check'),
           ('swh/model/model.py', 'BaseHashableModel.check'),
           ('swh/model/model.py', 'BaseHashableModel.evolve'),
           ('swh/model/model.py', 'BaseHashableModel.__attrs_post_init__')]


def pre_checks(ctx):
    """validation of the spec-level definition against independent implementations of git's tag format (not a
    theorem): dulwich parses the library's payload into the same fields and re-serialises it byte for byte;
    thorough tier: `git hash-object -t tag` / `git cat-file` agree on id and payload"""
    import random
    import subprocess
    import tempfile
    from swh.model import git_objects
    out = []
    try:
        from dulwich.objects import Tag
    except Exception:
        return out
    rng = random.Random(ctx.seed + 404)
    n = 60 if ctx.tier == "quick" else 3000
    gitdir = None
    if ctx.tier == "thorough":
        gitdir = tempfile.mkdtemp(prefix="c04git")
        subprocess.run(["git", "init", "-q", "--bare", gitdir], check=True)
    try:
        for _ in range(n):
            h, m = rng.randrange(0, 14), rng.choice([0, 30])
            c = {"name": rng.choice([b"v1.0", b"release-2", b"x"]).hex(), "message": rng.choice([b"", b"msg\n", b"a\n\nb"]).hex(),
                 "target": bytes(rng.randrange(256) for _ in range(20)).hex(), "ttype": rng.choice(["content", "directory", "revision", "release"]),
                 "author": b"T Agger <t@example.org>".hex(),
                 "date": [rng.randrange(0, 2 ** 33), 0, (rng.choice(["+", "-"]) + "%02d%02d" % (h, m)).encode().hex()], "synthetic": False}
            r = _build(c)
            man = git_objects.release_git_object(r)
            payload = man[man.index(b"\x00") + 1:]
            dt = Tag.from_string(payload)
            got = (dt.object[1], dt.object[0].type_name, dt.name, dt.tagger, dt.tag_time, dt.message)
            want = (c["target"].encode(), GITWORD[c["ttype"]], bytes.fromhex(c["name"]), bytes.fromhex(c["author"]), c["date"][0],
                    bytes.fromhex(c["message"]))
            if got != want or dt.as_raw_string() != payload or dt.id.decode() != r.id.hex():
                out.append(("spec-validation:dulwich-tag", "dulwich parses/re-serialises the payload differently: %r vs %r" % (got, want)))
                break
            if gitdir:
                p = subprocess.run(["git", "--git-dir", gitdir, "hash-object", "-t", "tag", "-w", "--stdin", "--literally"],
                                   input=payload, stdout=subprocess.PIPE, stderr=subprocess.PIPE)
                if p.returncode == 0:
                    gid = p.stdout.decode().strip()
                    back = subprocess.run(["git", "--git-dir", gitdir, "cat-file", "tag", gid], stdout=subprocess.PIPE).stdout
                    if gid != r.id.hex() or back != payload:
                        out.append(("spec-validation:git-tag", "git hash-object/cat-file disagree for %r" % c))
                        break
    finally:
        if gitdir:
            subprocess.run(["rm", "-rf", gitdir])
    return out


def coq_cases(cases):
    """release_valid / release_git_object / rel_compute_hash (+ Sha1.sha1 of the manifest) evaluated by vm_compute inside Coq
    vs the extracted driver (extraction cross-check)"""
    from . import core
    def size(c):
        return sum(len(c[k]) // 2 for k in ("name", "message", "author") if c[k] is not None) + len(c.get("raw") or "") // 2
    cases[:] = [c for c in cases if size(c) <= 200]      # in place: the evidence's `n` is the number evaluated
    tt = {"content": "RContent", "directory": "RDirectory", "revision": "RRevision", "release": "RRelease", "snapshot": "RSnapshot"}
    def nl(h):
        return "[" + "; ".join("%d" % b for b in bytes.fromhex(h)) + "]%N"
    def opt(h, f=nl):
        return "None" if h is None else "(Some %s)" % f(h)
    def person(h):
        return "{| fullname := %s; p_name := None; p_email := None |}" % nl(h)
    def date(d):
        return "{| ts := {| seconds := (%d)%%Z; microseconds := (%d)%%Z |}; offset_bytes := %s |}" % (d[0], d[1], nl(d[2]))
    def rel(c):
        return ("{| r_name := %s; r_message := %s; r_target := %s; r_ttype := %s; r_synthetic := false; r_author := %s; "
                "r_date := %s; r_metadata := None; r_raw_manifest := %s |}"
                % (nl(c["name"]), opt(c["message"]), opt(c["target"]), tt[c["ttype"]], opt(c["author"], person), opt(c["date"], date),
                   opt(_raw_hex(c, {}))))
    src = ("From Coq Require Import List NArith ZArith.\nFrom SWH.lib Require Import Bytes Sha1.\nFrom SWH.model Require Import Time Rel.\n"
           "Import ListNotations.\n" + core.COQ_CHECKSUM +
           "\nDefinition cases : list release := [" + ";\n ".join(rel(c) for c in cases) + "].\n"
           "Eval vm_compute in map (fun r => if release_valid r then match release_git_object r with MOk m => cksum (m ++ sha1 m ++ "
           "match r_raw_manifest r, rel_compute_hash sha1 r with Some _, Some h => 256%N :: h | _, _ => [] end) "
           "| MTypeError => 2%N | MValueError => 1%N end else 1%N) cases.\n")
    resp = core.run_driver(ID, [_rel_request(c, {}) for c in cases])
    exp = []
    for r in resp:
        w = r.split(" ")
        exp.append(core.py_cksum(list(unhx(w[1])) + list(unhx(w[2])) + ([256] + list(unhx(w[3])) if len(w) > 3 else []))
                   if w[0] == "ok" else {"err ValueError": 1, "err TypeError": 2}.get(r, 3))
    return src, exp
