"""C15 - ExtID and RawExtrinsicMetadata ids come from unambiguous header-list manifests
(git_objects.extid_git_object / raw_extrinsic_metadata_git_object, model.ExtID,
model.RawExtrinsicMetadata, normalize_discovery_date).

Tie: every case is built with /repo's classes and with the extracted model
(coq/model/Meta.v).  Compared: accepted / exception class, manifest bytes, id
(implementation id vs the model's own lib/Sha1.v digest), the normalised
discovery date.  The property is evaluated on the implementation directly:
id == sha1(manifest) (hashlib), manifest == the documented format written down
independently here, the extracted *proved* parser applied to the
implementation's manifest recovers every field, same-second datetimes (other
zone, other sub-second part) give equal objects and ids, other seconds give
different manifests.

Environment: nothing in the property may depend on the machine's local timezone
(TZ / localtime), and the sandbox runs in UTC where e.g. time.mktime and
calendar.timegm coincide.  Every case therefore records a local zone ("tz": an
IANA name or a POSIX TZ string) under which the implementation is evaluated
(os.environ["TZ"] + time.tzset(), restored afterwards); a share is evaluated
under a second zone as well and the two ids must agree.  The expected manifest
and the model have no such input.
"""
import datetime as _dt
import hashlib
import itertools
import os
import time as _time
import unicodedata
import warnings

from .core import exc_class, hx, unhx
from .gitobj_common import NFC_UNSTABLE, gen_bytes as _gen_bytes_plain, gen_bytes_wide, nfc_unstable_bytes, splice_token


def gen_bytes(rng):
    """half the byte strings come from the wide generator: CR / CRLF / other line boundaries, NUL, TAB continuation lines,
    header look-alikes, runs of newlines, ~1 kB"""
    return gen_bytes_wide(rng) if rng.random() < 0.5 else _gen_bytes_plain(rng)

ID = "C15"
PROPS = "Props/C15.v"
EXTRACT = "extract/ExC15.v"
OBLIGATION = "extid_git_object+raw_extrinsic_metadata_git_object"
REQUESTS_NEED_IMPL = True
THEOREMS = ["C15_id_is_manifest_hash", "C15_extid_parse", "C15_swhid_text_roundtrip", "C15_extid_optional_lines_exact",
            "C15_extid_presence", "C15_extid_injective", "C15_emd_parse", "C15_context_lookup", "C15_fetcher_space_needed",
            "C15_optional_lines_exact", "C15_lines_per_field", "C15_emd_injective", "C15_constructor_normalises",
            "C15_date_second_only", "C15_context_admissible", "C15_keys_wf", "C15_authority_types_table", "C15_extid_satisfiable", "C15_emd_satisfiable",
            "C15_swhid_printer_is_C08s", "C15_naive_rejected", "C15_offsetless_refuted_old", "C15_bool_version_refuted_old"]
RULE = ("ExtID: type strings (plain, empty, with space / newline, non-ASCII = rejected) x versions {0, 1, -1, +-2^70, random} x "
        "extid bytes (empty, newlines, leading space, binary) x 5 target types x payload pair {absent, both, half = rejected}. "
        "Metadata: 7 target kinds x every admissible subset of the context fields (167 combinations, enumerated from a table "
        "written from the validators) + one injected inadmissible field / nonpositive visit / visit without origin / 'swh:' origin / "
        "wrong SWHID type (rejected) x urls, names, origins with newlines and non-ASCII x dates over 34 fixed-offset zones "
        "(whole hours -12..+14, +05:30, -09:30, +05:45, +12:45, sub-minute and sub-second offsets), +-2 s around the epoch, "
        "microseconds {0, 1, 999999, random}, year 2, year 9998; each metadata case is also built at the same instant in another "
        "zone, in the same second with another sub-second part, and in a neighbouring second. "
        "ENVIRONMENT: every case (metadata and ExtID) is evaluated with the process' LOCAL timezone set to a zone cycling through a "
        "pool (UTC; IANA zones with whole-hour, 30- and 45-minute offsets, +14, -12, northern/southern/30-minute/negative DST, a "
        "skipped calendar day; POSIX TZ strings with and without DST rules) via TZ + time.tzset(); every 4th metadata case is built "
        "under a second local zone too and the ids must be equal; about a quarter of the metadata dates lie within seconds / one "
        "hour / one local offset of a DST transition of the local zone (instants whose UTC wall-clock fields are a non-existent or "
        "ambiguous local time); naive datetimes must be rejected with ValueError under every zone - naive = no tzinfo, OR a "
        "tzinfo carrier whose utcoffset() returns None (always / only for the dates with an even day of the month: then rejected "
        "exactly for those dates and otherwise the same object and id as with a fixed-offset zone) ; a carrier whose utcoffset() "
        "raises yields no object (its exception propagates) ; an accepted naive date is additionally built under a second local "
        "zone to exhibit the two ids. "
        "INT FIELDS GIVEN AS bool / int SUBCLASS (routes int_as_bool, int_subclass): extid_version in {True, False, IntSub(v)} "
        "(IntSub prints itself as 'two'), visit in {True, IntSub(v)}: either refused as a wrong-typed argument or the same manifest, "
        "id and an equal object as with the plain int (False as version omits the line like 0; visit=False must be refused like 0). "
        "Added by the dimension audit: text and byte values with CR, CRLF, VT/FF/FS/GS/RS/NEL/U+2028/U+2029 (the other line "
        "boundaries of splitlines), TAB, NUL, header look-alikes, ~1 kB; origins that nearly start with 'swh:'; discovery dates in "
        "the first and the last day of the datetime range (0001-01-01, 9999-12-31: first/last microsecond and second, zone chosen "
        "so that the written fields exist); and OTHER ROUTES to the same object, three per metadata case / all per ExtID (field "
        "routes), each of which must give the same id, the same manifest and an equal object: RawExtrinsicMetadata.from_dict on a "
        "hand-written dictionary (unset context keys absent or None), the deprecated dictionary argument of "
        "raw_extrinsic_metadata_git_object, the old schema with a 'type' key (for origin targets: the URL as target, expected id "
        "sha1(url) computed with hashlib), to_dict -> from_dict without the id, evolve() from an object of another second / another "
        "version, compute_hash() / check() / the id passed explicitly, the same instant carried by a zoneinfo.ZoneInfo tzinfo "
        "(DST zones, fold) and by a datetime subclass, str / bytes subclasses as field values. "
        "SOURCE TOKENS: about 10 % of the text / byte values (authority url, fetcher name / version, format, origin, path, "
        "metadata, extid_type, extid, payload_type, payload) get a string / bytes literal harvested with ast from swh/model/*.py of "
        "the tree under test, or a well-known neighbour ('swh:', 'https://', 'refs/tags/' ...), as prefix / suffix / infix / whole "
        "value; an origin that thereby starts with 'swh:' is either kept as the one legitimate refusal or turned into a near miss "
        "(' swh:', 'Swh:', 'swh;', 'swswh:' ...) that must stay accepted. "
        "UNICODE NORMALISATION: about 4 % of every text value (authority url, fetcher name / version, format, origin; 2 % of "
        "extid_type / payload_type, where non-ASCII is refused) and of every byte value (path, metadata, extid, payload: as UTF-8) "
        "get text that is not stable under NFC / NFD / NFKC / NFKD (decomposed accents, ANGSTROM / OHM SIGN, CJK compatibility "
        "ideographs, Hangul jamo, ligatures, EN QUAD, Greek question mark), every 12th case has one for sure; the manifest must carry "
        "it unchanged, and for such cases the TWIN object - the same object with that one field rewritten in another normalisation "
        "form - must have the documented manifest of ITS value, another manifest, another id, and compare unequal. "
        "STATE BETWEEN CALLS: every case builds its object a second time after unrelated objects (memo probe: same id, manifest, "
        "equal); every 10th metadata case additionally builds, one after the other in the same process, two objects from two "
        "datetimes that are EQUAL AS PYTHON OBJECTS (== and hash) BUT DIFFERENT INSTANTS - the same wall-clock fields on one "
        "zoneinfo / dateutil tzinfo object with fold=0 then fold=1 (and the reverse order) inside repeated hours (fixed table: "
        "Europe/Paris 2020-10-25 02:30, America/New_York 2021-11-07 01:30, Australia/Lord_Howe 2021-04-04 01:45 ..., and the "
        "fall-back transitions 1900-2100 of the DST zones found by the localtime scanner), a tzinfo whose offset depends on fold "
        "only, a datetime subclass whose __eq__/__hash__ are coarser than the instant - each must be the object of ITS instant "
        "(documented manifest, id, normalised second, equal to the same instant written in UTC) and two different seconds must "
        "have different manifests and ids. "
        "non-trivial = at least one optional / context line; distinct = distinct case")
TRUSTED = ["Python datetime arithmetic (aware datetime -> exact integer microseconds since the epoch, utcoffset) used to abstract a "
           "datetime as (epoch_us, offset_us)",
           "str.encode() = UTF-8 (text fields are passed to the model as the bytes they encode to)",
           "bytes join/split/str(int) as modelled in lib/Headers.v, lib/Dec.v; hash_to_hex as lib/Hex.v hexlify",
           "lib/Sha1.v as an instance of the hash oracle (compared with hashlib on every case)",
           "MetadataAuthorityType values are literals of the model (no generated table); cross-checked against the enum on every run (pre_checks)",
           "zoneinfo / dateutil utcoffset() with fold (PEP 495) give the two instants of a repeated wall-clock time; the harness derives "
           "the instant as wall clock - utcoffset()",
           "os.environ['TZ'] + time.tzset() (glibc, /usr/share/zoneinfo) switch the local timezone of the process as a differently "
           "configured machine would; the harness' own date arithmetic uses only aware/naive datetime subtraction, never local time"]
ASSUMPTIONS = ["text fields are surrogate-free (otherwise .encode() raises: outside the domain)",
               "the UTC equivalent of the discovery date is representable (years 1..9999), otherwise astimezone raises OverflowError: outside the domain",
               "fetcher.version is space-free (hypothesis of C15_emd_parse / C15_emd_injective, as the manifest format requires; "
               "C15_fetcher_space_needed shows it is necessary); format and authority url are arbitrary",
               "authority.metadata / fetcher.metadata are not part of the manifest (checked: they do not influence the id) and are not modelled",
               "arguments of the wrong Python type (AttributeTypeError) are outside the model: Coq typing plays that role",
               "the machine's local timezone is NOT an input of the model nor of the documented manifest: the expected manifest / id / "
               "normalised date of a case are the same under every local zone, and the implementation is required to agree under each "
               "zone of the pool (checked per case; zones absent from /usr/share/zoneinfo are dropped from the pool at import)",
               "naive datetimes (tzinfo None, or a tzinfo giving no offset for that date) are the inputs DNaive / DOffsetless of the "
               "model's mk_emd_in and are rejected there (C15_naive_rejected); on the implementation they must be rejected with "
               "ValueError under every local zone (accepting one makes the id depend on the machine's zone: fixed finding "
               "offsetless-tzinfo-accepted, C15_offsetless_refuted_old); a tzinfo whose utcoffset() raises is not a model input: "
               "its exception must propagate (no object)",
               "extid_version / visit have at most 4300 decimal digits: beyond, str(int) / '%d' raise ValueError (CPython's "
               "int_max_str_digits); a bool or int subclass given for them is the same integer for the model (Z): fixed finding "
               "bool-printed-as-True",
               "an id passed explicitly to a constructor / from_dict is taken as it is (only check() compares it with the recomputed "
               "hash): the routes exercised pass either no id or the correct one"]

CORE = ["snp", "rel", "rev", "dir", "cnt"]
EXT = CORE + ["ori", "emd"]
CTX_ORDER = ["origin", "visit", "snapshot", "release", "revision", "path", "directory"]     # documented manifest order
SWHID_CTX = {"snapshot": "snp", "release": "rel", "revision": "rev", "directory": "dir"}
# which context field which validator admits for which target kind (written from model.py check_* validators)
ADMISSIBLE = {"ori": [], "emd": [], "snp": ["origin", "visit"], "rel": ["origin", "visit", "snapshot"],
              "rev": ["origin", "visit", "snapshot", "release"],
              "dir": ["origin", "visit", "snapshot", "release", "revision", "path"],
              "cnt": ["origin", "visit", "snapshot", "release", "revision", "path", "directory"]}
AUTH = {"d": "deposit_client", "f": "forge", "r": "registry"}


def admissible_subsets():
    res = []
    for t in EXT:
        adm = ADMISSIBLE[t]
        for r in range(len(adm) + 1):
            for sub in itertools.combinations(adm, r):
                if "visit" in sub and "origin" not in sub:
                    continue
                res.append((t, list(sub)))
    return res


COMBOS = admissible_subsets()       # 167

ZONES_US = sorted(set([h * 3600 * 10**6 for h in range(-12, 15)] +
                      [(5 * 60 + 30) * 60 * 10**6, -(9 * 60 + 30) * 60 * 10**6, (5 * 60 + 45) * 60 * 10**6,
                       (12 * 60 + 45) * 60 * 10**6, 10**6, -(19 * 60 + 32) * 10**6, 1500000, -1,
                       (23 * 3600 + 59 * 60 + 59) * 10**6 + 999999, -((23 * 3600 + 59 * 60 + 59) * 10**6 + 999999)]))

EPOCH_NAIVE = _dt.datetime(1970, 1, 1)
EPOCH_UTC = _dt.datetime(1970, 1, 1, tzinfo=_dt.timezone.utc)
US = _dt.timedelta(microseconds=1)
YEAR2_US = (_dt.datetime(2, 1, 1) - EPOCH_NAIVE) // US
YEAR9998_US = (_dt.datetime(9998, 12, 31, 23, 59, 59, 999999) - EPOCH_NAIVE) // US
MIN_US = (_dt.datetime.min - EPOCH_NAIVE) // US          # 0001-01-01T00:00:00 UTC
MAX_US = (_dt.datetime.max - EPOCH_NAIVE) // US          # 9999-12-31T23:59:59.999999 UTC


# ------------------------------------------------------------------ local timezone of the process
_ZONEINFO = "/usr/share/zoneinfo"
_TZ_IANA = ["UTC", "America/New_York", "Asia/Kolkata", "Pacific/Chatham", "Pacific/Kiritimati", "America/St_Johns",
            "Europe/London", "Australia/Lord_Howe", "Etc/GMT+12", "Asia/Kathmandu", "Europe/Dublin", "Pacific/Apia",
            "America/Sao_Paulo", "Africa/Monrovia", "Australia/Adelaide", "Asia/Tehran"]
_TZ_POSIX = ["XXX-7:30", "YYY5", "AAA-3", "EST5EDT,M3.2.0,M11.1.0", "CET-1CEST,M3.5.0,M10.5.0/3", "NZST-12NZDT,M9.5.0,M4.1.0/3",
             "QQQ11:59:59", "RRR-13:45"]
TZ_POOL = [z for z in _TZ_IANA if os.path.exists(os.path.join(_ZONEINFO, z))] + _TZ_POSIX


class local_tz:
    """with local_tz(zone): the process' local timezone is `zone` (None = leave it alone); restored on exit"""

    def __init__(self, zone):
        self.zone = zone

    def __enter__(self):
        self.old = os.environ.get("TZ")
        if self.zone is not None:
            os.environ["TZ"] = self.zone
            _time.tzset()

    def __exit__(self, *a):
        if self.zone is not None:
            if self.old is None:
                os.environ.pop("TZ", None)
            else:
                os.environ["TZ"] = self.old
            _time.tzset()


_TZ_IANA_DST = [z for z in ["America/New_York", "Europe/London", "Australia/Lord_Howe", "Pacific/Chatham", "America/St_Johns",
                            "Europe/Dublin", "Pacific/Apia", "America/Sao_Paulo", "Asia/Tehran", "Asia/Kolkata", "UTC"]
                if os.path.exists(os.path.join(_ZONEINFO, z))]
EMD_ROUTES = ["from_dict", "git_object_dict", "old_schema", "roundtrip", "evolve", "recompute", "zoneinfo", "datetime_subclass",
              "str_bytes_subclass", "from_dict_none_keys", "int_as_bool", "int_subclass"]
EXTID_ROUTES = ["roundtrip", "evolve", "recompute", "str_bytes_subclass", "int_as_bool", "int_subclass"]
NAIVE_KINDS = ["tzinfo_none", "offset_none", "offset_sometimes", "offset_raises", "offset_sometimes"]
_TRANSITIONS = {}


def tz_transitions(zone):
    """[(t, offset_before, offset_after)] : the instants (epoch seconds, 1900..2100) at which the UTC offset of the local zone
    `zone` changes, found by sampling time.localtime under that zone (works for IANA names and POSIX strings alike)"""
    if zone not in _TRANSITIONS:
        res = []
        with local_tz(zone):
            step = 7 * 86400
            t = -2208988800
            prev = _time.localtime(t).tm_gmtoff
            while t < 4102444800:
                n = t + step
                off = _time.localtime(n).tm_gmtoff
                if off != prev:
                    lo, hi = t, n
                    while hi - lo > 1:
                        mid = (lo + hi) // 2
                        if _time.localtime(mid).tm_gmtoff == prev:
                            lo = mid
                        else:
                            hi = mid
                    res.append((hi, prev, off))
                    prev = off
                t = n
        _TRANSITIONS[zone] = res
    return _TRANSITIONS[zone]


def gen_instant_near_transition(rng, zone):
    """an instant close to a change of the local zone's UTC offset: at the transition itself, and where the UTC wall-clock
    fields, read as local time, fall into the skipped / repeated hour"""
    tr = tz_transitions(zone)
    if not tr:
        return None
    t, before, after = rng.choice(tr)
    base = rng.choice([t, t + before, t + after, t - before, t - after])
    delta = rng.choice([-7200, -3601, -3600, -3599, -1800, -2, -1, 0, 1, 2, 1799, 1800, 3599, 3600, 3601, 7200])
    return (base + delta) * 10**6 + rng.choice([0, 1, 999999, rng.randrange(10**6)])


def mk_datetime(us, off_us):
    """aware datetime for the instant `us` (microseconds since the epoch) written in the zone `off_us`; built from the local
    wall-clock fields, without astimezone"""
    local = EPOCH_NAIVE + _dt.timedelta(microseconds=us + off_us)
    return local.replace(tzinfo=_dt.timezone(_dt.timedelta(microseconds=off_us)))


def abstract_datetime(d):
    return [(d - EPOCH_UTC) // US, d.utcoffset() // US]


# ------------------------------------------------------------------ generators
def gen_text(rng, kind=None):
    kind = kind or rng.choice(["url", "empty", "nl", "nonascii", "space", "nlsp", "mixed", "trail_nl"] + TEXT_WIDE)
    if kind == "url":
        return rng.choice(["https://example.org/repo.git", "http://forge/a", "x"])
    if kind == "empty":
        return ""
    if kind == "nl":
        return "https://a/\nb"
    if kind == "nonascii":
        return rng.choice(["https://exämple.org/é", "日本語", "\U0001f600 smile", "\x7f\x80\xff"])
    if kind == "space":
        return rng.choice(["a b", " lead", "trail ", "a  b c"])
    if kind == "nlsp":
        return "\n \n\n  x"
    if kind == "trail_nl":
        return "line\n"
    if kind == "near_swh":   # only the exact prefix "swh:" is refused
        return rng.choice(["swh", "swh;1:cnt:" + "0" * 40, "SWH:1:cnt:" + "0" * 40, " swh:1:rev:" + "1" * 40, "sw:h:", "swhid:x", "\nswh:"])
    if kind == "cr":
        return rng.choice(["a\rb", "\r", "x\r", "https://a/\rb"])
    if kind == "crlf":
        return rng.choice(["https://a/\r\nb", "l1\r\nl2\r\n", "\r\n", "a\n\rb"])
    if kind == "seps":       # what str.splitlines() also splits on
        return rng.choice(["a\x0bb\x0cc\x1cd\x1de\x1ef\x85g", "a\u2028b\u2029c", "x\x0c", "\x85"])
    if kind == "tab":
        return rng.choice(["a\tb", "a\n\tb", "\tlead"])
    if kind == "nul":
        return rng.choice(["a\x00b", "\x00"])
    return "".join(rng.choice("ab \né中") for _ in range(rng.randrange(1, 20)))


TEXT_WIDE = ["cr", "crlf", "seps", "tab", "nul"]


def gen_word(rng):
    """space-free text"""
    return rng.choice(["1.0", "json", "sword-v2-atom-codemeta", "", "v\n2", "0.0.1-β", "x\ny\n", "pkg-info", "\n",
                       "a\rb", "\r\n", "x\x0by", "\u2028", "\t", "v\x00"])


SPLICE_P = 0.1


def splice_txt(rng, v):
    """about one text value in ten gets a literal harvested from the source under test (or a well-known neighbour:
    'swh:', 'https://', 'refs/tags/' ...) as prefix / suffix / infix / whole"""
    return splice_token(rng, v, "str") if rng.random() < SPLICE_P else v


def splice_hex(rng, h):
    return splice_token(rng, bytes.fromhex(h), "bytes").hex() if rng.random() < SPLICE_P else h


UNSTABLE_P = 0.04
FORMS = ["NFC", "NFD", "NFKC", "NFKD"]
TWIN_TEXT = ["url", "name", "version", "format", "origin"]
TWIN_BYTES = ["metadata", "path"]


def _insert(rng, v, t):
    r = rng.random()
    if r < 0.35:
        return t + v
    if r < 0.7:
        return v + t
    k = rng.randrange(len(v) + 1)
    return v[:k] + t + v[k:]


def unstable_txt(rng, v, p=UNSTABLE_P):
    """a few % of the text values hold text that is not stable under Unicode normalisation (decomposed accents, ANGSTROM / OHM
    SIGN, CJK compatibility ideographs, Hangul jamo, ligatures, EN QUAD ...): the manifest must carry it code point by code point"""
    return _insert(rng, v, rng.choice(NFC_UNSTABLE)) if rng.random() < p else v


def unstable_hex(rng, h, p=UNSTABLE_P):
    return _insert(rng, bytes.fromhex(h), nfc_unstable_bytes(rng)).hex() if rng.random() < p else h


def twin_candidates(c, text_fields, byte_fields):
    """[field, form, twin value]: the value of a field rewritten in another Unicode normalisation form, when that differs (byte
    fields: when they are valid UTF-8).  The twin is ANOTHER object: another manifest, another id."""
    res = []
    for f in text_fields:
        v = c.get(f)
        if not isinstance(v, str):
            continue
        for form in FORMS:
            w = unicodedata.normalize(form, v)
            if w != v and not (f == "origin" and w.startswith("swh:")):
                res.append([f, form, w])
    for f in byte_fields:
        if c.get(f) is None:
            continue
        try:
            v = bytes.fromhex(c[f]).decode("utf-8")
        except UnicodeDecodeError:
            continue
        for form in FORMS:
            w = unicodedata.normalize(form, v)
            if w != v:
                res.append([f, form, w.encode("utf-8").hex()])
    return res


def gen_id(rng):
    return bytes(rng.randrange(256) for _ in range(20)).hex()


def gen_instant(rng):
    k = rng.randrange(10)
    if k < 4:
        sec = rng.choice([-2, -1, 0, 1])
        return sec * 10**6 + rng.choice([0, 1, 999999, rng.randrange(10**6)])
    if k == 4:
        return YEAR2_US + rng.randrange(0, 360 * 86400 * 10**6)
    if k == 5:
        return YEAR9998_US - rng.randrange(0, 360 * 86400 * 10**6)
    if k == 6:
        return rng.randrange(YEAR2_US, YEAR9998_US)
    if k == 7:
        return rng.randrange(-10**13, 10**13)
    return rng.randrange(1420070400, 1900000000) * 10**6 + rng.choice([0, 1, 999999, rng.randrange(10**6)])


def gen_alts(rng, us):
    sec = us // 10**6
    same_sec = sec * 10**6 + rng.choice([0, 1, 999999, rng.randrange(10**6)])
    other = rng.choice([us + 10**6, us - 10**6, (sec + 1) * 10**6, sec * 10**6 - 1, us + 86400 * 10**6])
    return [[us, rng.choice(ZONES_US)], [same_sec, rng.choice(ZONES_US)], [other, rng.choice(ZONES_US)]]


EQDIFF_CARRIERS = ["zoneinfo", "dateutil", "foldtz", "eqsubclass", "zoneinfo"]
# repeated hours that must be in the stream whatever the scanner finds: (zone, naive wall clock inside the repeated interval)
REPEATED_HOURS = [("Europe/Paris", _dt.datetime(2020, 10, 25, 2, 30)), ("America/New_York", _dt.datetime(2021, 11, 7, 1, 30)),
                  ("Australia/Lord_Howe", _dt.datetime(2021, 4, 4, 1, 45)), ("Europe/London", _dt.datetime(2021, 10, 31, 1, 30)),
                  ("America/St_Johns", _dt.datetime(2021, 11, 7, 1, 15, 0, 999999))]


def gen_eqdiff(rng, j):
    """two datetimes that are EQUAL AS PYTHON OBJECTS (== and hash) but different instants, to be used one after the other in
    one process: the same wall-clock fields on one tzinfo object with fold=0 / fold=1 inside a repeated hour (PEP 495:
    intra-zone comparison ignores fold), a tzinfo whose offset depends on fold only, a datetime subclass whose __eq__ / __hash__
    are coarser than the instant"""
    carrier = EQDIFF_CARRIERS[j % len(EQDIFF_CARRIERS)]
    e = {"carrier": carrier, "order": [0, 1] if (j // len(EQDIFF_CARRIERS)) % 2 == 0 else [1, 0]}
    if carrier in ("zoneinfo", "dateutil"):
        if j % 3 == 0:
            zone, w = REPEATED_HOURS[(j // 3) % len(REPEATED_HOURS)]
            e["zone"], e["wall_us"] = zone, (w - EPOCH_NAIVE) // US
        else:
            zones = [z for z in _TZ_IANA_DST if z != "UTC"] or ["UTC"]
            zone = zones[j % len(zones)]
            back = [t for t in tz_transitions(zone) if t[2] < t[1] and (carrier == "zoneinfo" or 0 <= t[0] < 2114380800)]
            if not back:
                zone, w = REPEATED_HOURS[j % len(REPEATED_HOURS)]
                e["zone"], e["wall_us"] = zone, (w - EPOCH_NAIVE) // US
            else:
                t, before, after = rng.choice(back)
                delta = rng.choice([0, 1, (before - after) // 2, before - after - 1])
                e["zone"] = zone
                e["wall_us"] = (t + after + delta) * 10**6 + rng.choice([0, 1, 999999, rng.randrange(10**6)])
    elif carrier == "foldtz":
        e["wall_us"] = gen_instant(rng)
        e["base_off_us"] = rng.choice([0, 3600 * 10**6, -5 * 3600 * 10**6, 19800 * 10**6])
        e["fold_shift_us"] = rng.choice([3600 * 10**6, 1800 * 10**6, 10**6, 12 * 3600 * 10**6])      # |offset| stays below 24 h
    else:
        e["wall_us"] = gen_instant(rng)
        e["base_off_us"] = rng.choice([0, 3600 * 10**6, -7 * 3600 * 10**6])
        e["delta_us"] = rng.choice([10**6, 3600 * 10**6, 86400 * 10**6, -10**6, 61 * 10**6])
    return e


def gen_emd(rng, k):
    t, sub = COMBOS[k % len(COMBOS)]
    if k % 5 == 4:       # the enumeration is dominated by cnt/dir targets: every fifth case picks the target kind uniformly
        t = EXT[(k // 5) % 7]
        sub = rng.choice([s for (t2, s) in COMBOS if t2 == t])
    c = {"kind": "emd", "ttype": t, "tid": gen_id(rng), "authority": rng.choice("dfr"), "url": gen_text(rng),
         "name": gen_text(rng), "version": gen_word(rng), "format": gen_word(rng),
         "metadata": gen_bytes(rng).hex(), "origin": None, "visit": None, "snapshot": None, "release": None,
         "revision": None, "path": None, "directory": None}
    if rng.random() < 0.04:
        c["version"] = rng.choice(["1 0", " ", "a b c"])       # outside the decoding theorem's hypothesis: correspondence only
    if rng.random() < 0.1:
        c["format"] = rng.choice(["with space", " x"])          # harmless for decoding (C15_emd_parse needs no hypothesis on format)

    def setf(f):
        if f == "origin":
            c[f] = gen_text(rng, rng.choice(["url", "nl", "nonascii", "space", "mixed", "empty", "nlsp", "near_swh"] + TEXT_WIDE))
            if c[f].startswith("swh:"):
                c[f] = "x" + c[f]
        elif f == "visit":
            c[f] = rng.choice([1, 2, 42, 2**40, 10**30])
        elif f == "path":
            c[f] = gen_bytes(rng).hex()
        else:
            c[f] = [SWHID_CTX[f], gen_id(rng)]
    for f in sub:
        setf(f)
    mode = rng.random()
    c["bad"] = None
    if mode < 0.25:      # one rejected variation
        bad = rng.choice(["inadmissible", "visit0", "visit_no_origin", "swh_origin", "wrong_type"])
        if bad == "inadmissible":
            rest = [f for f in CTX_ORDER if f not in ADMISSIBLE[t]]
            if rest:
                f = rng.choice(rest)
                setf(f)
                c["bad"] = bad
        elif bad == "visit0" and "origin" in sub:
            c["visit"] = rng.choice([0, -1, -2**40])
            c["bad"] = bad
        elif bad == "visit_no_origin" and "origin" in ADMISSIBLE[t] and "origin" not in sub:
            c["visit"] = 3
            c["bad"] = bad
        elif bad == "swh_origin" and "origin" in sub:
            c["origin"] = rng.choice(["swh:1:cnt:" + "0" * 40, "swh:", "swh:x\ny"])
            c["bad"] = bad
        elif bad == "wrong_type":
            fs = [f for f in sub if f in SWHID_CTX]
            if fs:
                f = rng.choice(fs)
                c[f] = [rng.choice([x for x in CORE if x != SWHID_CTX[f]]), gen_id(rng)]
                c["bad"] = bad
    # literals of the source under test spliced into the values (expectations unchanged)
    before = [c[f] for f in ("url", "name", "version", "format", "metadata", "origin", "path")]
    for f in ("url", "name", "version", "format"):
        c[f] = splice_txt(rng, c[f])
    c["metadata"] = splice_hex(rng, c["metadata"])
    if c["path"] is not None:
        c["path"] = splice_hex(rng, c["path"])
    if c["origin"] is not None and c["bad"] != "swh_origin":
        o = splice_txt(rng, c["origin"])
        if o.startswith("swh:"):
            if c["bad"] is None and rng.random() < 0.5:
                c["bad"] = "swh_origin"         # the one legitimate refusal: an origin that starts with 'swh:'
            else:                               # near misses stay accepted
                o = rng.choice([" " + o, "S" + o[1:], "swh" + o[4:], "sw" + o, o[:3] + ";" + o[4:]])
                if o.startswith("swh:"):
                    o = "x" + o
        c["origin"] = o
    if before != [c[f] for f in ("url", "name", "version", "format", "metadata", "origin", "path")]:
        c["spliced"] = True
    # text that is not stable under Unicode normalisation, in every text field (and as UTF-8 in the byte fields)
    forced = k % 12 == 7
    for f in TWIN_TEXT:
        if c[f] is not None and not (f == "origin" and c["bad"] == "swh_origin"):
            c[f] = unstable_txt(rng, c[f])
    for f in TWIN_BYTES:
        if c[f] is not None:
            c[f] = unstable_hex(rng, c[f])
    if forced:
        f = rng.choice([x for x in TWIN_TEXT + TWIN_TEXT + TWIN_BYTES if c[x] is not None and not (x == "origin" and c["bad"] == "swh_origin")])
        if f in TWIN_TEXT:
            c[f] = unstable_txt(rng, c[f] if rng.random() < 0.8 else "", 1.0)
            cands = twin_candidates(c, [f], [])
        else:
            c[f] = unstable_hex(rng, c[f] if rng.random() < 0.5 else "", 1.0)
            cands = twin_candidates(c, [], [f])
    else:
        cands = twin_candidates(c, TWIN_TEXT, TWIN_BYTES)
    if cands and (forced or rng.random() < 0.5):
        c["twin"] = rng.choice(cands)
    c["tz"] = TZ_POOL[k % len(TZ_POOL)]
    c["tz2"] = TZ_POOL[(k // 4 * 7 + 3) % len(TZ_POOL)] if k % 4 == 1 else None
    us = gen_instant(rng)
    if k % 4 == 2 or k % 8 == 7:
        near = gen_instant_near_transition(rng, c["tz"])
        if near is not None:
            us = near
            c["near_transition"] = True
    c["date"] = [us, ZONES_US[k % len(ZONES_US)]]
    c["alts"] = gen_alts(rng, us)
    if k % 16 == 5:
        # the two ends of the datetime range: the first / last day, second, microsecond (zones in which the fields exist)
        lo = k % 32 == 5
        d = rng.choice([0, 0, 1, 999999, 10**6, 10**6 + 1, rng.randrange(86400 * 10**6)])
        us = MIN_US + d if lo else MAX_US - d
        zs = [z for z in ZONES_US if (z >= 0 if lo else z <= 0)]
        sec = us // 10**6
        same = min(max(sec * 10**6 + rng.choice([0, 1, 999999, rng.randrange(10**6)]), MIN_US), MAX_US)
        other = rng.choice([us + 10**6, (sec + 1) * 10**6, us + 3600 * 10**6] if lo else [us - 10**6, sec * 10**6 - 1, us - 3600 * 10**6])
        c["date"] = [us, rng.choice(zs)]
        c["alts"] = [[us, rng.choice(zs)], [same, rng.choice(zs)], [other, rng.choice(zs)]]
        c["range_end"] = "min" if lo else "max"
        c.pop("near_transition", None)
    c["routes"] = [EMD_ROUTES[(k + j * 4) % len(EMD_ROUTES)] for j in range(3)]
    if c["ttype"] == "ori" and "old_schema" not in c["routes"]:
        c["routes"][0] = "old_schema"       # origin targets: the old rows name the origin by its URL
    c["zi"] = _TZ_IANA_DST[k % len(_TZ_IANA_DST)] if _TZ_IANA_DST else None
    if k % 10 == 3:
        c["eqdiff"] = gen_eqdiff(rng, k // 10)
    if k % 13 == 12:
        # a datetime without a UTC offset: no tzinfo at all / a tzinfo carrier giving no offset (always, for some dates) / raising
        c["naive"] = NAIVE_KINDS[(k // 13) % len(NAIVE_KINDS)]
        if c["tz2"] is None:
            c["tz2"] = TZ_POOL[(k // 13 * 5 + 2) % len(TZ_POOL)]
        if c["naive"] == "offset_sometimes" and "range_end" not in c and (k // 13) % 2:
            # move the written date to the neighbouring day so that both parities of the day are met
            day = 86400 * 10**6
            if MIN_US + 2 * day < c["date"][0] < MAX_US - 2 * day:
                c["date"] = [c["date"][0] + day, c["date"][1]]
                c["alts"] = [[a[0] + day, a[1]] for a in c["alts"]]
    if c["visit"] is not None and c["bad"] is None and k % 3 == 0:
        c["visit"] = 1          # so that the int_as_bool route (visit=True) applies often enough
    return c


def gen_extid(rng, k):
    pm = [0, 1, 1, 0, 2, 3][k % 6]      # payload mode: none, both, half-type, half-payload
    ptype = rng.choice(["disk-manifest", "", "p t", "n\nl", "sha1_git", "é", "c\rr", "l\r\n", "\x0c"]) if pm in (1, 2) else None
    payload = (bytes(rng.randrange(256) for _ in range(20)) if rng.random() < 0.6 else gen_bytes(rng)).hex() if pm in (1, 3) else None
    if ptype is not None:
        ptype = unstable_txt(rng, splice_txt(rng, ptype), 0.02)      # non-ASCII: refused by .encode("ascii")
    if payload is not None:
        payload = unstable_hex(rng, splice_hex(rng, payload))
    c = {"kind": "extid",
            "type": unstable_txt(rng, splice_txt(rng, rng.choice(["hg-nodeid", "", "a b", "with\nnewline", "é", "tyépe", "nar-sha256", "x\n", " t",
                                                "checksum-sha512", "cr\rlf", "a\r\nb", "v\x0bt\x0c", "t\tab", "n\x00ul"])), 0.02),
            "extid": unstable_hex(rng, splice_hex(rng, gen_bytes(rng).hex()), 1.0 if k % 12 == 7 else UNSTABLE_P),
            "ttype": CORE[(k // 6) % 5], "tid": gen_id(rng),
            "version": rng.choice([0, 0, 1, -1, 2**70, -2**70, rng.randrange(-1000, 1000)]),
            "ptype": ptype, "payload": payload, "tz": TZ_POOL[(k * 5 + 1) % len(TZ_POOL)], "routes": list(EXTID_ROUTES)}
    cands = twin_candidates(c, [], ["extid", "payload"])
    if cands:
        c["twin"] = rng.choice(cands)
    return c


def gen(rng, tier):
    n_emd, n_ext = (1336, 700) if tier == "quick" else (36740, 24000)
    cases = [gen_emd(rng, k) for k in range(n_emd)] + [gen_extid(rng, k) for k in range(n_ext)]
    return cases


def nontrivial(c):
    if c["kind"] == "extid":
        return c["version"] != 0 or c["ptype"] is not None or c["payload"] is not None
    return any(c[f] is not None for f in CTX_ORDER)


def classify(c):
    if c["kind"] == "extid":
        return ["extid", "local-tz=" + str(c.get("tz")),
                "extid:version=" + ("0" if c["version"] == 0 else "neg" if c["version"] < 0 else "pos"),
                "extid:payload=" + {(False, False): "none", (True, True): "both"}.get(
                    (c["ptype"] is not None, c["payload"] is not None), "half"),
                "extid:nl-in-extid" if b"\n" in bytes.fromhex(c["extid"]) else "extid:no-nl"] + \
            (["extid:cr-in-extid"] if b"\r" in bytes.fromhex(c["extid"]) else []) + \
            (["extid:cr-in-type"] if "\r" in c["type"] else []) + ["extid:route=" + r for r in c.get("routes", [])] + \
            (["extid:normalisation-twin:%s:%s" % (c["twin"][0], c["twin"][1])] if c.get("twin") else [])
    us, off = c["date"]
    ks = ["emd", "emd:target=" + c["ttype"], "emd:ctx=%d" % sum(c[f] is not None for f in CTX_ORDER),
          "emd:" + ("before-epoch" if us < 0 else "after-epoch"),
          "emd:micro=" + ("0" if us % 10**6 == 0 else "1" if us % 10**6 == 1 else "999999" if us % 10**6 == 999999 else "other"),
          "emd:zone=" + ("utc" if off == 0 else "whole-hour" if off % (3600 * 10**6) == 0 else "minutes" if off % (60 * 10**6) == 0 else "sub-minute")]
    if c.get("bad"):
        ks.append("emd:rejected:" + c["bad"])
    if " " in c["version"]:
        ks.append("emd:version-with-space")
    ks.append("local-tz=" + str(c.get("tz")))
    if c.get("tz2"):
        ks.append("emd:second-local-tz")
    if c.get("near_transition"):
        ks.append("emd:near-local-dst-transition")
    if c.get("naive"):
        ks.append("emd:no-offset-datetime:" + naive_kind(c) + (":rejected-expected" if naive_flow(c) else ":offset-given"))
    if c.get("range_end"):
        ks.append("emd:date-range-" + c["range_end"])
    if c.get("spliced"):
        ks.append("emd:source-token-spliced")
    if c.get("eqdiff"):
        ks.append("emd:equal-but-different-datetimes:%s:%s" % (c["eqdiff"]["carrier"], "".join(map(str, c["eqdiff"]["order"]))))
    if any(unicodedata.normalize("NFC", t) != t for t in [c["url"], c["name"], c["version"], c["format"], c["origin"] or ""]):
        ks.append("emd:text-not-NFC")
    if c.get("twin"):
        ks.append("emd:normalisation-twin:%s:%s" % (c["twin"][0], c["twin"][1]))
    texts = [c["url"], c["name"], c["version"], c["format"], c["origin"] or ""]
    if any("\r" in t for t in texts):
        ks.append("emd:text-with-cr")
    if any(ch in t for t in texts for ch in "\x0b\x0c\x1c\x1d\x1e\x85\u2028\u2029"):
        ks.append("emd:text-with-other-line-boundary")
    if b"\r" in bytes.fromhex(c["metadata"]) or c["path"] and b"\r" in bytes.fromhex(c["path"]):
        ks.append("emd:bytes-with-cr")
    if not naive_flow(c) and not c.get("bad"):
        ks += ["emd:route=" + r for r in c.get("routes", [])]
    return ks


# ------------------------------------------------------------------ expected validity (spec side, from the validators)
def emd_expected_valid(c):
    t = c["ttype"]
    for f in CTX_ORDER:
        if c[f] is not None and f not in ADMISSIBLE[t]:
            return False
    if c["origin"] is not None and c["origin"].startswith("swh:"):
        return False
    if c["visit"] is not None and (c["origin"] is None or c["visit"] <= 0):
        return False
    for f, want in SWHID_CTX.items():
        if c[f] is not None and c[f][0] != want:
            return False
    return True


def is_ascii(s):
    return all(ord(ch) < 128 for ch in s)


def extid_expected_valid(c):
    return (c["ptype"] is None) == (c["payload"] is None)


def escape(v):
    return b"\n ".join(v.split(b"\n"))


def spec_manifest(git_type, headers, message):
    """the documented header-list format, written independently of git_objects.py"""
    body = b"".join(k + b" " + escape(v) + b"\n" for k, v in headers)
    if message is not None:
        body += b"\n" + message
    return git_type + b" " + str(len(body)).encode() + b"\x00" + body


def emd_ctx_spec(c):
    res = []
    for f in CTX_ORDER:
        v = c[f]
        if v is None:
            continue
        if f == "origin":
            b = v.encode()
        elif f == "visit":
            b = str(v).encode()
        elif f == "path":
            b = bytes.fromhex(v)
        else:
            b = ("swh:1:%s:%s" % (v[0], v[1])).encode()
        res.append((f.encode(), b))
    return res


def emd_spec_manifest(c, us):
    hs = [(b"target", ("swh:1:%s:%s" % (c["ttype"], c["tid"])).encode()),
          (b"discovery_date", str(us // 10**6).encode()),
          (b"authority", (AUTH[c["authority"]] + " " + c["url"]).encode()),
          (b"fetcher", (c["name"] + " " + c["version"]).encode()),
          (b"format", c["format"].encode())] + emd_ctx_spec(c)
    return spec_manifest(b"raw_extrinsic_metadata", hs, bytes.fromhex(c["metadata"]))


def extid_spec_manifest(c):
    hs = [(b"extid_type", c["type"].encode())]
    if c["version"] != 0:
        hs.append((b"extid_version", str(c["version"]).encode()))
    hs += [(b"extid", bytes.fromhex(c["extid"])), (b"target", ("swh:1:%s:%s" % (c["ttype"], c["tid"])).encode())]
    if c["ptype"] is not None:
        hs.append((b"payload_type", c["ptype"].encode()))
    if c["payload"] is not None:
        hs.append((b"payload", bytes.fromhex(c["payload"])))
    return spec_manifest(b"extid", hs, None)


# ------------------------------------------------------------------ datetimes without a UTC offset
def _sometimes_none(d):
    """the dates for which the 'offset_sometimes' carrier gives no offset: even day of the month (of the written date)"""
    return d.day % 2 == 0


class _TzNone(_dt.tzinfo):
    """a tzinfo that never gives an offset: the datetime is naive although tzinfo is set"""

    def utcoffset(self, d):
        return None

    def dst(self, d):
        return None

    def tzname(self, d):
        return "no-offset"


class _TzSometimes(_dt.tzinfo):
    """a fixed offset, but none at all for some dates"""

    def __init__(self, off_us=0):
        self.off = _dt.timedelta(microseconds=off_us)

    def utcoffset(self, d):
        return None if _sometimes_none(d) else self.off

    def dst(self, d):
        return None

    def tzname(self, d):
        return "sometimes"


class _TzRaises(_dt.tzinfo):
    def utcoffset(self, d):
        raise ArithmeticError("this zone cannot tell its offset")

    def dst(self, d):
        return None

    def tzname(self, d):
        return "raises"


RAISES_CLASS = "Other(ArithmeticError)"


def naive_kind(c):
    n = c.get("naive")
    return None if not n else "tzinfo_none" if n is True else n


def wall_clock(date):
    return EPOCH_NAIVE + _dt.timedelta(microseconds=date[0] + date[1])


def naive_flow(c):
    """True iff the discovery date of the case has no UTC offset (or its carrier raises): no object may come out"""
    n = naive_kind(c)
    if n is None:
        return False
    if n == "offset_sometimes":
        return _sometimes_none(wall_clock(c["date"]))
    return True


def carrier_datetime(c, date):
    """the written date of the case, carried by the tzinfo (or absence of one) the case names"""
    n = naive_kind(c)
    w = wall_clock(date)
    if n == "tzinfo_none":
        return w
    if n == "offset_none":
        return w.replace(tzinfo=_TzNone())
    if n == "offset_sometimes":
        return w.replace(tzinfo=_TzSometimes(date[1]))
    return w.replace(tzinfo=_TzRaises())


class _TzFold(_dt.tzinfo):
    """a zone whose offset depends on `fold` only: every wall-clock time exists twice"""

    def __init__(self, base_us=0, shift_us=3600 * 10**6):
        self.base, self.shift = _dt.timedelta(microseconds=base_us), _dt.timedelta(microseconds=shift_us)

    def utcoffset(self, d):
        return self.base + (self.shift if d.fold == 0 else _dt.timedelta(0))

    def dst(self, d):
        return self.shift if d.fold == 0 else _dt.timedelta(0)

    def tzname(self, d):
        return "fold-zone"


class _CoarseDT(_dt.datetime):
    """a datetime subclass whose == and hash are coarser than the instant (all instances are equal and hash alike)"""

    def __eq__(self, other):
        return isinstance(other, _CoarseDT) or _dt.datetime.__eq__(self, other)

    def __ne__(self, other):
        return not self.__eq__(other)

    def __hash__(self):
        return 7


def eqdiff_datetimes(e):
    """[(datetime, instant in epoch microseconds)] x 2 in the order of the case, or None when the carrier does not tell the two
    apart (then there is nothing to check).  The instants are wall clock - utcoffset(), computed here with timedelta arithmetic."""
    w = EPOCH_NAIVE + _dt.timedelta(microseconds=e["wall_us"])
    car = e["carrier"]
    if car == "eqsubclass":
        tz = _dt.timezone(_dt.timedelta(microseconds=e["base_off_us"]))
        ws = [w, w + _dt.timedelta(microseconds=e["delta_us"])]
        ds = [_CoarseDT(x.year, x.month, x.day, x.hour, x.minute, x.second, x.microsecond, tzinfo=tz) for x in ws]
        if not (ds[0] == ds[1] and hash(ds[0]) == hash(ds[1])):
            return None
        both = [(d, (x - EPOCH_NAIVE) // US - e["base_off_us"]) for d, x in zip(ds, ws)]
        return [both[i] for i in e["order"]]
    if car == "zoneinfo":
        import zoneinfo
        tz = zoneinfo.ZoneInfo(e["zone"])
    elif car == "dateutil":
        from dateutil import tz as _dtz
        tz = _dtz.gettz(e["zone"])
        if tz is None:
            return None
    else:
        tz = _TzFold(e["base_off_us"], e["fold_shift_us"])
    ds = [w.replace(tzinfo=tz, fold=f) for f in (0, 1)]
    offs = [d.utcoffset() for d in ds]
    if None in offs or offs[0] == offs[1] or not (ds[0] == ds[1] and hash(ds[0]) == hash(ds[1])):
        return None
    both = [(d, e["wall_us"] - off // US) for d, off in zip(ds, offs)]
    return [both[i] for i in e["order"]]


def _eqdiff_run(c):
    """build the object with the first datetime, then with the second (equal to the first as a Python object, another instant),
    then each instant written in UTC"""
    from swh.model import git_objects
    try:
        pair = eqdiff_datetimes(c["eqdiff"])
    except Exception as e:
        return {"skip": "carrier unavailable: " + exc_class(e)}
    if pair is None:
        return {"skip": "the carrier does not distinguish the two datetimes"}
    out = {"us": [us for _, us in pair], "objs": [], "refs": []}
    objs = []
    for d, us in pair:
        if not MIN_US <= us <= MAX_US:
            return {"skip": "instant out of range"}
        try:
            o = _build_emd(c, c["date"], dt=d)
            objs.append(o)
            out["objs"].append({"id": o.id.hex(), "manifest": git_objects.raw_extrinsic_metadata_git_object(o).hex(),
                                "norm_date": abstract_datetime(o.discovery_date)})
        except Exception as e:
            objs.append(None)
            out["objs"].append({"error": exc_class(e)})
    for (d, us), o in zip(pair, objs):
        try:
            r = _build_emd(c, [us, 0])
            out["refs"].append({"id": r.id.hex(), "eq": None if o is None or c["eqdiff"]["carrier"] == "eqsubclass" else (o == r and hash(o) == hash(r))})
        except Exception as e:
            out["refs"].append({"error": exc_class(e)})
    return out


class _IntSub(int):
    """an int subclass that prints itself in words: only '%d' / int() show the number"""

    def __str__(self):
        return "two"

    __repr__ = __str__


# ------------------------------------------------------------------ implementation
def _core_swhid(t, i):
    from swh.model.swhids import CoreSWHID, ObjectType
    return CoreSWHID(object_type=ObjectType(t), object_id=bytes.fromhex(i))


class _Str(str):
    """a str subclass (accepted by the isinstance-based type validators)"""


class _Bytes(bytes):
    """a bytes subclass"""


class _DateTime(_dt.datetime):
    """a datetime subclass"""


LONG_TYPE = {"snp": "snapshot", "rel": "release", "rev": "revision", "dir": "directory", "cnt": "content", "ori": "origin",
             "emd": "raw_extrinsic_metadata"}


def _emd_dict(c, date, none_keys=False):
    """the object as a hand-written dictionary in the schema of RawExtrinsicMetadata.from_dict"""
    d = {"target": "swh:1:%s:%s" % (c["ttype"], c["tid"]), "discovery_date": mk_datetime(*date),
         "authority": {"type": AUTH[c["authority"]], "url": c["url"]},
         "fetcher": {"name": c["name"], "version": c["version"]},
         "format": c["format"], "metadata": bytes.fromhex(c["metadata"])}
    for f in CTX_ORDER:
        v = c[f]
        if v is None:
            if none_keys:
                d[f] = None
            continue
        d[f] = "swh:1:%s:%s" % (v[0], v[1]) if f in SWHID_CTX else bytes.fromhex(v) if f == "path" else v
    return d


def _emd_routes(c, o):
    """other ways to the object o of case c: {route: {"id", "manifest", "eq"} | {"error"} | {"skip"}}"""
    from swh.model import git_objects
    from swh.model.model import RawExtrinsicMetadata
    res = {}
    us, off = c["date"]

    def rec(name, f):
        try:
            r = f()
            if r is not None:
                res[name] = r
        except Exception as e:
            res[name] = {"error": exc_class(e)}

    def obj(o2):
        return {"id": o2.id.hex(), "manifest": git_objects.raw_extrinsic_metadata_git_object(o2).hex(), "eq": o2 == o and hash(o2) == hash(o)}

    for name in c.get("routes", []):
        if name == "from_dict":
            rec(name, lambda: obj(RawExtrinsicMetadata.from_dict(_emd_dict(c, c["date"]))))
        elif name == "from_dict_none_keys":
            rec(name, lambda: obj(RawExtrinsicMetadata.from_dict(_emd_dict(c, c["date"], True))))
        elif name == "git_object_dict":
            def f():
                with warnings.catch_warnings():
                    warnings.simplefilter("ignore")
                    return {"id": o.id.hex(), "manifest": git_objects.raw_extrinsic_metadata_git_object(_emd_dict(c, c["date"])).hex(), "eq": True}
            rec(name, f)
        elif name == "old_schema":
            def f():
                d = _emd_dict(c, c["date"])
                d["type"] = LONG_TYPE[c["ttype"]]
                if c["ttype"] == "ori":
                    if len(c["url"].encode()) >= 2048:
                        return {"skip": "url too long for an Origin"}
                    d["target"] = c["url"]      # old rows name an origin by its URL; its id is the sha1 of the URL
                    o2 = RawExtrinsicMetadata.from_dict(d)
                    return {"id": o2.id.hex(), "manifest": git_objects.raw_extrinsic_metadata_git_object(o2).hex(), "eq": True,
                            "expect_tid": hashlib.sha1(c["url"].encode()).hexdigest()}
                return obj(RawExtrinsicMetadata.from_dict(d))
            rec(name, f)
        elif name == "roundtrip":
            def f():
                d = o.to_dict()
                d.pop("id")
                return obj(RawExtrinsicMetadata.from_dict(d))
            rec(name, f)
        elif name == "evolve":
            def f():
                other = _build_emd(c, c["alts"][2])                  # the object of another second ...
                return obj(other.evolve(discovery_date=mk_datetime(*c["date"])))   # ... moved to this one: the id is recomputed
            rec(name, f)
        elif name == "recompute":
            def f():
                o.check()
                o2 = _build_emd(c, c["date"], explicit_id=o.id)
                o2.check()
                return {"id": o.compute_hash().hex(), "manifest": git_objects.raw_extrinsic_metadata_git_object(o2).hex(),
                        "eq": o2 == o and o2.id == o.id}
            rec(name, f)
        elif name == "zoneinfo":
            def f():
                import zoneinfo
                if not c.get("zi"):
                    return {"skip": "no zone"}
                try:
                    d = (EPOCH_UTC + _dt.timedelta(microseconds=us)).astimezone(zoneinfo.ZoneInfo(c["zi"]))
                    if (d - EPOCH_UTC) // US != us or d.utcoffset() is None:
                        return {"skip": "zoneinfo does not carry this instant"}
                except (OverflowError, ValueError):
                    return {"skip": "instant not representable in " + c["zi"]}
                return obj(_build_emd(c, c["date"], dt=d))
            rec(name, f)
        elif name == "datetime_subclass":
            def f():
                b = mk_datetime(*c["date"])
                d = _DateTime(b.year, b.month, b.day, b.hour, b.minute, b.second, b.microsecond, tzinfo=b.tzinfo)
                return obj(_build_emd(c, c["date"], dt=d))
            rec(name, f)
        elif name == "str_bytes_subclass":
            rec(name, lambda: obj(_build_emd(c, c["date"], wrap=True)))
        elif name in ("int_as_bool", "int_subclass"):
            def f(name=name):
                if c["visit"] is None or name == "int_as_bool" and c["visit"] != 1:
                    return {"skip": "no visit / not 0 or 1"}
                v = True if name == "int_as_bool" else _IntSub(c["visit"])
                try:
                    return obj(_build_emd(c, c["date"], visit=v))
                except (TypeError, ValueError) as e:
                    return {"refused": exc_class(e)}        # a wrong-typed argument may be refused
            rec(name, f)
    if naive_kind(c) == "offset_sometimes":
        rec("partial_tzinfo", lambda: obj(_build_emd(c, c["date"], dt=carrier_datetime(c, c["date"]))))
    return res


def _build_emd(c, date, variant=0, naive=False, dt=None, wrap=False, explicit_id=None, visit=None):
    from swh.model.model import MetadataAuthority, MetadataAuthorityType, MetadataFetcher, RawExtrinsicMetadata
    from swh.model.swhids import ExtendedObjectType, ExtendedSWHID
    md = None if variant == 0 else {"some": "metadata", "n": 1}
    S, B = (_Str, _Bytes) if wrap else (str, bytes)
    if explicit_id is not None:
        md_kw = {"id": explicit_id}
    else:
        md_kw = {}
    kw = {}
    for f in CTX_ORDER:
        v = c[f]
        if v is None:
            continue
        kw[f] = _core_swhid(*v) if f in SWHID_CTX else bytes.fromhex(v) if f == "path" else v
    if visit is not None:
        kw["visit"] = visit
    kw.update(md_kw)
    return RawExtrinsicMetadata(
        target=ExtendedSWHID(object_type=ExtendedObjectType(c["ttype"]), object_id=bytes.fromhex(c["tid"])),
        discovery_date=dt if dt is not None else (EPOCH_NAIVE + _dt.timedelta(microseconds=date[0] + date[1])) if naive else mk_datetime(*date),
        authority=MetadataAuthority(type=MetadataAuthorityType(AUTH[c["authority"]]), url=S(c["url"]), metadata=md),
        fetcher=MetadataFetcher(name=S(c["name"]), version=S(c["version"]), metadata=md),
        format=S(c["format"]), metadata=B(bytes.fromhex(c["metadata"])), **kw)


def impl_emd(c):
    with local_tz(c.get("tz")):
        res = _impl_emd(c)
    if c.get("tz2") and "id" in res:
        # the same object on a machine configured for another zone
        with local_tz(c["tz2"]):
            try:
                from swh.model import git_objects
                o2 = _build_emd(c, c["date"], dt=carrier_datetime(c, c["date"]) if res.get("naive_accepted") else None)
                res["tz2"] = {"id": o2.id.hex(), "manifest": git_objects.raw_extrinsic_metadata_git_object(o2).hex()}
            except Exception as e:
                res["tz2"] = {"error": exc_class(e)}
    return res


def _impl_emd(c):
    from swh.model import git_objects
    d = mk_datetime(*c["date"])
    if abstract_datetime(d) != list(c["date"]):
        return {"error": "Other(harness: datetime abstraction is not exact)"}
    if naive_flow(c):
        try:
            o = _build_emd(c, c["date"], dt=carrier_datetime(c, c["date"]))
        except Exception as e:
            return {"error": exc_class(e), "naive": True}
        return {"naive_accepted": True, "id": o.id.hex(), "manifest": git_objects.raw_extrinsic_metadata_git_object(o).hex()}
    try:
        o = _build_emd(c, c["date"])
    except Exception as e:
        res = {"error": exc_class(e)}
        if c["visit"] == 0:      # False is 0: must be refused as well
            try:
                _build_emd(c, c["date"], visit=False)
                res["visit_false"] = "accepted"
            except Exception as e2:
                res["visit_false"] = exc_class(e2)
        return res
    res = {"id": o.id.hex(), "manifest": git_objects.raw_extrinsic_metadata_git_object(o).hex(),
           "norm_date": abstract_datetime(o.discovery_date), "swhid": str(o.swhid())}
    try:
        res["id_variant"] = _build_emd(c, c["date"], 1).id.hex()
    except Exception as e:
        res["id_variant"] = "error:" + exc_class(e)
    alts = []
    for a in c["alts"]:
        try:
            oa = _build_emd(c, a)
            alts.append({"id": oa.id.hex(), "manifest": git_objects.raw_extrinsic_metadata_git_object(oa).hex(),
                         "eq": oa == o, "hash_eq": hash(oa) == hash(o), "norm_date": abstract_datetime(oa.discovery_date)})
        except Exception as e:
            alts.append({"error": exc_class(e)})
    res["alts"] = alts
    # memo probe: the same object built again after unrelated ones (the alts above) is the same object
    try:
        again = _build_emd(c, c["date"])
        res["again"] = {"id": again.id.hex(), "manifest": git_objects.raw_extrinsic_metadata_git_object(again).hex(),
                        "eq": again == o and hash(again) == hash(o)}
    except Exception as e:
        res["again"] = {"error": exc_class(e)}
    if c.get("eqdiff"):
        res["eqdiff"] = _eqdiff_run(c)
    res["routes"] = _emd_routes(c, o)
    if c.get("twin") and c["twin"][2] != c[c["twin"][0]]:
        try:
            o2 = _build_emd(dict(c, **{c["twin"][0]: c["twin"][2]}), c["date"])
            res["twin"] = {"id": o2.id.hex(), "manifest": git_objects.raw_extrinsic_metadata_git_object(o2).hex(), "eq": o2 == o}
        except Exception as e:
            res["twin"] = {"error": exc_class(e)}
    return res


def _mk_extid(c, version=None, wrap=False, explicit_id=None):
    from swh.model.model import ExtID
    S, B = (_Str, _Bytes) if wrap else (str, bytes)
    kw = {} if explicit_id is None else {"id": explicit_id}
    return ExtID(extid_type=S(c["type"]), extid=B(bytes.fromhex(c["extid"])), target=_core_swhid(c["ttype"], c["tid"]),
                 extid_version=c["version"] if version is None else version,
                 payload_type=None if c["ptype"] is None else S(c["ptype"]),
                 payload=None if c["payload"] is None else B(bytes.fromhex(c["payload"])), **kw)


def _extid_routes(c, e):
    from swh.model import git_objects
    from swh.model.model import ExtID
    res = {}

    def obj(e2):
        return {"id": e2.id.hex(), "manifest": git_objects.extid_git_object(e2).hex(), "eq": e2 == e and hash(e2) == hash(e)}
    for name in c.get("routes", []):
        try:
            if name == "roundtrip":
                d = e.to_dict()
                d.pop("id")
                res[name] = obj(ExtID.from_dict(d))
            elif name == "evolve":
                res[name] = obj(_mk_extid(c, version=c["version"] + 1).evolve(extid_version=c["version"]))
            elif name == "recompute":
                e.check()
                e2 = _mk_extid(c, explicit_id=e.id)
                e2.check()
                res[name] = {"id": e.compute_hash().hex(), "manifest": git_objects.extid_git_object(e2).hex(), "eq": e2 == e and e2.id == e.id}
            elif name == "str_bytes_subclass":
                res[name] = obj(_mk_extid(c, wrap=True))
            elif name in ("int_as_bool", "int_subclass"):
                if name == "int_as_bool" and c["version"] not in (0, 1):
                    res[name] = {"skip": "not 0 or 1"}
                    continue
                v = bool(c["version"]) if name == "int_as_bool" else _IntSub(c["version"])
                try:
                    e2 = ExtID(extid_type=c["type"], extid=bytes.fromhex(c["extid"]), target=_core_swhid(c["ttype"], c["tid"]),
                               extid_version=v, payload_type=c["ptype"],
                               payload=None if c["payload"] is None else bytes.fromhex(c["payload"]))
                except (TypeError, ValueError) as ex:
                    res[name] = {"refused": exc_class(ex)}
                    continue
                res[name] = obj(e2)
        except Exception as ex:
            res[name] = {"error": exc_class(ex)}
    return res


def impl_extid(c):
    from swh.model import git_objects
    from swh.model.model import ExtID
    try:
        e = ExtID(extid_type=c["type"], extid=bytes.fromhex(c["extid"]), target=_core_swhid(c["ttype"], c["tid"]),
                  extid_version=c["version"], payload_type=c["ptype"],
                  payload=None if c["payload"] is None else bytes.fromhex(c["payload"]))
    except Exception as ex:
        return {"error": exc_class(ex)}
    res = {"id": e.id.hex(), "manifest": git_objects.extid_git_object(e).hex()}
    res["routes"] = _extid_routes(c, e)
    try:
        # memo probe: an unrelated ExtID in between, then the same one again
        _mk_extid(dict(c, extid=(bytes.fromhex(c["extid"]) + b"x").hex(), version=c["version"] + 1))
        again = _mk_extid(c)
        res["again"] = {"id": again.id.hex(), "manifest": git_objects.extid_git_object(again).hex(), "eq": again == e and hash(again) == hash(e)}
    except Exception as ex:
        res["again"] = {"error": exc_class(ex)}
    if c.get("twin") and c["twin"][2] != c[c["twin"][0]]:
        try:
            e2 = _mk_extid(dict(c, **{c["twin"][0]: c["twin"][2]}))
            res["twin"] = {"id": e2.id.hex(), "manifest": git_objects.extid_git_object(e2).hex(), "eq": e2 == e}
        except Exception as ex:
            res["twin"] = {"error": exc_class(ex)}
    try:
        d = {"extid_type": c["type"], "extid": bytes.fromhex(c["extid"]), "target": "swh:1:%s:%s" % (c["ttype"], c["tid"]),
             "payload_type": c["ptype"], "payload": None if c["payload"] is None else bytes.fromhex(c["payload"])}
        if c["version"] != 0:
            d["extid_version"] = c["version"]
        res["id_from_dict"] = ExtID.from_dict(d).id.hex()
    except Exception as ex:
        res["id_from_dict"] = "error:" + exc_class(ex)
    return res


def impl(c):
    if c["kind"] == "extid":
        with local_tz(c.get("tz")):
            return impl_extid(c)
    return impl_emd(c)


# ------------------------------------------------------------------ model requests
def _opt_txt(s):
    return "-" if s is None else hx(s.encode())


def _opt_hex(h):
    return "-" if h is None else hx(bytes.fromhex(h))


def _opt_sw(v):
    return "-" if v is None else "%s:%s" % (v[0], v[1])


def emd_request(c, date):
    return " ".join(["emd", "%s:%s" % (c["ttype"], c["tid"]), str(date[0]), str(date[1]), c["authority"],
                     hx(c["url"].encode()), hx(c["name"].encode()), hx(c["version"].encode()), hx(c["format"].encode()),
                     hx(bytes.fromhex(c["metadata"])), _opt_txt(c["origin"]), "-" if c["visit"] is None else str(c["visit"]),
                     _opt_sw(c["snapshot"]), _opt_sw(c["release"]), _opt_sw(c["revision"]), _opt_hex(c["path"]),
                     _opt_sw(c["directory"])])


def requests(c, ires):
    if c["kind"] == "extid":
        r = [" ".join(["extid", hx(c["type"].encode()), hx(bytes.fromhex(c["extid"])), "%s:%s" % (c["ttype"], c["tid"]),
                       str(c["version"]), _opt_txt(c["ptype"]), _opt_hex(c["payload"])])]
        if "manifest" in ires:
            r.append("pextid " + hx(bytes.fromhex(ires["manifest"])))
        return r
    if naive_flow(c):
        if naive_kind(c) == "offset_raises":
            return []       # a carrier that raises is not an input of the model: its exception propagates
        w = emd_request(c, c["date"]).split(" ")
        # mk_emd_in m (DNaive wall) / (DOffsetless wall)
        return [" ".join(["emdin", "n" if naive_kind(c) == "tzinfo_none" else "o", str(c["date"][0] + c["date"][1]), w[1]] + w[4:])]
    r = [emd_request(c, c["date"])] + [emd_request(c, a) for a in c["alts"]]
    if "manifest" in ires:
        r.append("pemd " + hx(bytes.fromhex(ires["manifest"])))
    return r


def model(c, resp):
    if c["kind"] == "extid":
        res = {"main": resp[0]}
        if len(resp) > 1:
            res["parsed_impl_manifest"] = resp[1]
        return res
    if naive_flow(c):
        return {"main": resp[0] if resp else "err " + RAISES_CLASS}
    res = {"main": resp[0], "alts": resp[1:4]}
    if len(resp) > 4:
        res["parsed_impl_manifest"] = resp[4]
    return res


# ------------------------------------------------------------------ property oracle (on the implementation)
ROUTE_TEXT = {"int_as_bool": "the int field (extid_version / visit) given as a bool",
              "int_subclass": "the int field (extid_version / visit) given as an int subclass whose str() is not decimal",
              "partial_tzinfo": "the same written date carried by a tzinfo that gives this offset (and none for other dates)",
              "from_dict": "from_dict() on the equivalent dictionary", "from_dict_none_keys": "from_dict() with the unset context keys present as None",
              "git_object_dict": "the (deprecated) dictionary argument of raw_extrinsic_metadata_git_object",
              "old_schema": "from_dict() on the old schema (with a 'type' key)", "roundtrip": "to_dict() -> from_dict() without the id",
              "evolve": "evolve() from the object of another second / version", "recompute": "compute_hash() / check() / the id passed explicitly",
              "zoneinfo": "the same instant carried by a zoneinfo.ZoneInfo tzinfo", "datetime_subclass": "the same datetime as a datetime subclass",
              "str_bytes_subclass": "str / bytes subclasses as field values"}


def _routes_verdict(what, ires, c=None, us=None):
    """every other route to the same object gives the same id (= SHA-1 of the same documented manifest) and an equal object"""
    for name, r in sorted(ires.get("routes", {}).items()):
        how = ROUTE_TEXT.get(name, name)
        if "skip" in r or "refused" in r:
            continue
        if "error" in r:
            return "%s: %s raised %s" % (what, how, r["error"])
        if "expect_tid" in r:       # old schema, origin named by its URL: another target, its own documented manifest
            want = emd_spec_manifest(dict(c, ttype="ori", tid=r["expect_tid"]), us)
            if bytes.fromhex(r["manifest"]) != want or r["id"] != hashlib.sha1(want).hexdigest():
                return "%s: %s does not give the documented manifest / id for the origin swh:1:ori:sha1(url)" % (what, how)
            continue
        if r["manifest"] != ires["manifest"]:
            return "%s: %s gives another manifest than the constructor" % (what, how)
        if r["id"] != ires["id"]:
            return "%s: %s gives the id %s, the constructor %s (one manifest)" % (what, how, r["id"], ires["id"])
        if not r["eq"]:
            return "%s: %s gives an object that is not equal to the constructor's" % (what, how)
    return None


def _again_verdict(what, ires):
    a = ires.get("again")
    if a is None:
        return None
    if "error" in a:
        return "%s: building the same object a second time raised %s" % (what, a["error"])
    if a["id"] != ires["id"] or a["manifest"] != ires["manifest"] or not a["eq"]:
        return "%s: the same object built a second time (unrelated objects in between) has another id / manifest / is not equal" % what
    return None


def _eqdiff_verdict(c, ires):
    """two datetimes equal as Python objects but different instants: each object is the object of ITS instant"""
    r = ires.get("eqdiff")
    if r is None or "skip" in r:
        return None
    e = c["eqdiff"]
    what = "two datetimes that compare equal (%s%s, order %s)" % (e["carrier"], " " + e["zone"] if "zone" in e else "", e["order"])
    for i, (us, o, ref) in enumerate(zip(r["us"], r["objs"], r["refs"])):
        if "error" in o or "error" in ref:
            return "%s: datetime #%d was rejected with %s" % (what, i, o.get("error", ref.get("error")))
        want = emd_spec_manifest(c, us)
        if bytes.fromhex(o["manifest"]) != want or o["id"] != hashlib.sha1(want).hexdigest():
            return ("%s: the object built from datetime #%d (instant %d us) has not the documented manifest / id of its instant"
                    % (what, i, us))
        if o["norm_date"] != [us - us % 10**6, 0]:
            return "%s: datetime #%d is not normalised to its own UTC second" % (what, i)
        if o["id"] != ref["id"] or ref["eq"] is False:
            return "%s: the object built from datetime #%d differs from the same instant written in UTC" % (what, i)
    if r["us"][0] // 10**6 != r["us"][1] // 10**6 and \
            (r["objs"][0]["manifest"] == r["objs"][1]["manifest"] or r["objs"][0]["id"] == r["objs"][1]["id"]):
        return "%s: two different UTC seconds share a manifest / an id" % what
    return None


def _twin_verdict(what, c, ires, spec):
    """the value of one field rewritten in another Unicode normalisation form is another value: another (documented) manifest,
    another id, an unequal object - nothing normalises text on the way to the manifest"""
    t = ires.get("twin")
    if t is None:
        return None
    f, form, val = c["twin"]
    if "error" in t:
        return "%s: the same object with %s in %s was rejected with %s" % (what, f, form, t["error"])
    want = spec(dict(c, **{f: val}))
    if bytes.fromhex(t["manifest"]) != want or t["id"] != hashlib.sha1(want).hexdigest():
        return "%s with %s rewritten in %s: manifest / id are not the documented ones for that value" % (what, f, form)
    if t["eq"]:
        return "%s: an object and its %s twin (field %s) compare equal" % (what, form, f)
    if t["manifest"] == ires["manifest"] or t["id"] == ires["id"]:
        return "%s: an object and its %s twin (field %s: two different values) share a manifest / an id" % (what, form, f)
    return None


def oracle_extid(c, ires, mres):
    valid = extid_expected_valid(c)
    encodable = is_ascii(c["type"]) and (c["ptype"] is None or is_ascii(c["ptype"]))
    if "error" in ires:
        if not valid:
            return None if ires["error"] == "ValueError" else "half a payload pair rejected with " + ires["error"]
        if not encodable:
            return None     # .encode('ascii') raises: no such ExtID exists
        return "a valid ExtID was rejected with " + ires["error"]
    if not valid:
        return "an ExtID with only one of payload_type / payload was accepted"
    man = bytes.fromhex(ires["manifest"])
    if ires["id"] != hashlib.sha1(man).hexdigest():
        return "ExtID id is not the SHA-1 of its manifest"
    if encodable and man != extid_spec_manifest(c):
        return "ExtID manifest is not the documented header list"
    if ires["id_from_dict"] != ires["id"]:
        return "ExtID id differs between constructor and from_dict"
    why = _again_verdict("ExtID", ires) or _routes_verdict("ExtID", ires) or _twin_verdict("ExtID", c, ires, extid_spec_manifest)
    if why:
        return why
    # optional lines exactly when set: the keys at the start of the (non-continuation) lines
    body = man.split(b"\x00", 1)[1]
    keys = [ln.split(b" ", 1)[0] for ln in body.split(b"\n")[:-1] if not ln.startswith(b" ")]
    want = [b"extid_type"] + ([b"extid_version"] if c["version"] != 0 else []) + [b"extid", b"target"] + \
        ([b"payload_type"] if c["ptype"] is not None else []) + ([b"payload"] if c["payload"] is not None else [])
    if keys != want:
        return "ExtID header keys are %s, expected %s (optional lines exactly when set)" % (keys, want)
    got = mres.get("parsed_impl_manifest", "none")
    if not got.startswith("ok "):
        return "the independent parser cannot parse the ExtID manifest"
    _, t, ver, x, tg, pt, p, sw = got.split(" ")
    if unhx(t) != c["type"].encode() or int(ver) != c["version"] or unhx(x) != bytes.fromhex(c["extid"]) \
            or unhx(tg) != ("swh:1:%s:%s" % (c["ttype"], c["tid"])).encode() \
            or unhx(pt) != (None if c["ptype"] is None else c["ptype"].encode()) \
            or unhx(p) != (None if c["payload"] is None else bytes.fromhex(c["payload"])) \
            or sw != "%s:%s" % (c["ttype"], c["tid"]):
        return "the independent parser does not recover type/version/extid/target/payload_type/payload from the ExtID manifest"
    return None


def oracle_emd(c, ires, mres):
    valid = emd_expected_valid(c)
    if naive_flow(c):
        if ires.get("naive_accepted"):
            other = ires.get("tz2", {})
            return ("a discovery_date without UTC offset (%s) was accepted: the id depends on the machine's timezone (%s under "
                    "local zone %s, %s under %s)" % (naive_kind(c), ires["id"], c.get("tz"), other.get("id", other.get("error")), c.get("tz2")))
        return None       # the exception class is compared in compare()
    if "error" in ires:
        if ires["error"].startswith("Other(harness"):
            return None
        if ires.get("visit_false") == "accepted":
            return "visit=0 is refused but visit=False (the same integer) is accepted"
        if not valid:
            return None if ires["error"] == "ValueError" else "inadmissible context rejected with " + ires["error"]
        return "a valid RawExtrinsicMetadata was rejected with " + ires["error"]
    if not valid:
        return "a RawExtrinsicMetadata with an inadmissible context (%s) was accepted" % c.get("bad")
    us, off = c["date"]
    man = bytes.fromhex(ires["manifest"])
    if ires["id"] != hashlib.sha1(man).hexdigest():
        return "metadata id is not the SHA-1 of its manifest"
    if ires["swhid"] != "swh:1:emd:" + ires["id"]:
        return "swhid() is not swh:1:emd:<id>"
    if man != emd_spec_manifest(c, us):
        return "metadata manifest is not the documented header list (floor UTC second, fixed context order) [local zone %s]" % c.get("tz")
    if "tz2" in ires and (ires["tz2"].get("id") != ires["id"] or ires["tz2"].get("manifest") != ires["manifest"]):
        return "the same object gets another id / manifest when the machine's local zone is %s instead of %s" % (c["tz2"], c.get("tz"))
    if ires["id_variant"] != ires["id"]:
        return "authority.metadata / fetcher.metadata influence the id"
    why = _again_verdict("metadata object", ires) or _eqdiff_verdict(c, ires) or _routes_verdict("metadata object", ires, c, us) or _twin_verdict("metadata object", c, ires, lambda d: emd_spec_manifest(d, us))
    if why:
        return why
    if ires["norm_date"] != [us - us % 10**6, 0]:
        return "discovery_date is not normalised to the UTC second"
    for a, ra in zip(c["alts"], ires["alts"]):
        if "error" in ra:
            return "the same object at another date was rejected with " + ra["error"]
        if a[0] // 10**6 == us // 10**6:
            if not ra["eq"] or not ra["hash_eq"] or ra["id"] != ires["id"] or ra["manifest"] != ires["manifest"]:
                return "same UTC second (zone %d us, instant %d us vs %d us) but objects / ids differ" % (a[1], a[0], us)
        else:
            if ra["manifest"] == ires["manifest"] or ra["eq"]:
                return "different UTC seconds (%d vs %d us) but equal manifests / objects" % (a[0], us)
    got = mres.get("parsed_impl_manifest", "none")
    if not got.startswith("ok "):
        return "the independent parser cannot parse the metadata manifest"
    _, tg, sec, aw, url, name, ver, fmt, ctx, md, sw = got.split(" ")
    ctx_got = [] if ctx == "." else [tuple(unhx(x) for x in kv.split(":")) for kv in ctx.split(",")]
    if unhx(tg) != ("swh:1:%s:%s" % (c["ttype"], c["tid"])).encode() or sw != "%s:%s" % (c["ttype"], c["tid"]):
        return "parser does not recover the target"
    if int(sec) != us // 10**6:
        return "parser does not recover floor(epoch seconds)"
    if unhx(aw) != AUTH[c["authority"]].encode() or unhx(url) != c["url"].encode():
        return "parser does not recover authority type / url"
    if " " not in c["version"] and (unhx(name) != c["name"].encode() or unhx(ver) != c["version"].encode()):
        return "parser does not recover fetcher name / version"
    if unhx(fmt) != c["format"].encode() or unhx(md) != bytes.fromhex(c["metadata"]):
        return "parser does not recover format / metadata bytes"
    if ctx_got != emd_ctx_spec(c):
        return "parser does not recover the context lines (exactly the set fields, in the fixed order)"
    return None


def oracle(c, ires, mres):
    return oracle_extid(c, ires, mres) if c["kind"] == "extid" else oracle_emd(c, ires, mres)


# ------------------------------------------------------------------ model vs implementation
def _cmp_one(tag, line, man_hex, id_hex, norm=None):
    if not line.startswith("ok "):
        return "%s: implementation accepted, model says %s" % (tag, line[:60])
    parts = line.split(" ")
    if parts[1] != hx(bytes.fromhex(man_hex)):
        return "%s: manifest bytes differ between model and implementation" % tag
    if parts[2] != id_hex:
        return "%s: id differs from the model's SHA-1 of the manifest" % tag
    if norm is not None and [int(parts[3]), int(parts[4])] != norm:
        return "%s: normalised discovery date differs (model %s %s, implementation %s)" % (tag, parts[3], parts[4], norm)
    return None


def compare(c, ires, mres):
    if "error" in ires:
        if ires["error"].startswith("Other(harness"):
            return ires["error"]
        return None if mres["main"] == "err " + ires["error"] else \
            "implementation raised %s, model says %s" % (ires["error"], mres["main"][:60])
    if c["kind"] == "extid":
        return _cmp_one("extid", mres["main"], ires["manifest"], ires["id"])
    why = _cmp_one("emd", mres["main"], ires["manifest"], ires["id"], ires["norm_date"])
    if why:
        return why
    for i, (ra, line) in enumerate(zip(ires["alts"], mres["alts"])):
        if "error" in ra:
            if line != "err " + ra["error"]:
                return "alt %d: implementation raised %s, model says %s" % (i, ra["error"], line[:60])
            continue
        why = _cmp_one("alt %d" % i, line, ra["manifest"], ra["id"], ra["norm_date"])
        if why:
            return why
        # the model's verdict on "equal object" is equality of its whole answer line
        if (line == mres["main"]) != bool(ra["eq"]):
            return "alt %d: object equality differs (model %s, implementation %s)" % (i, line == mres["main"], ra["eq"])
    return None


def shrink(c):
    if c["kind"] == "extid":
        if len(c.get("routes", [])) > 1:
            for r in c["routes"]:
                yield dict(c, routes=[r])
        for k in ("ptype", "payload"):
            if c[k] is not None:
                yield dict(c, **{k: None})
        if c["version"] != 0:
            yield dict(c, version=0)
            yield dict(c, version=1)
        for k in ("extid",):
            b = bytes.fromhex(c[k])
            if b:
                yield dict(c, **{k: b[:len(b) // 2].hex()})
                yield dict(c, **{k: b[1:].hex()})
        if c["type"]:
            yield dict(c, type=c["type"][:len(c["type"]) // 2])
            yield dict(c, type=c["type"][1:])
        return
    if c.get("tz2") and not naive_kind(c):      # an accepted offset-less date is shown under both zones: keep the second
        yield dict(c, tz2=None)
    if len(c.get("routes", [])) > 1:
        for r in c["routes"]:
            yield dict(c, routes=[r])
    if c.get("tz") not in (None, "UTC", "AAA-3", "YYY5"):
        yield dict(c, tz="AAA-3")
        yield dict(c, tz="YYY5")
        yield dict(c, tz="UTC")
    for f in reversed(CTX_ORDER):
        if c[f] is not None:
            yield dict(c, **{f: None})
    for k in ("url", "name", "version", "format", "origin"):
        if c[k]:
            yield dict(c, **{k: c[k][:len(c[k]) // 2]})
            yield dict(c, **{k: c[k][1:]})
    for k in ("metadata", "path"):
        if c[k]:
            b = bytes.fromhex(c[k])
            yield dict(c, **{k: b[:len(b) // 2].hex()})
    us, off = c["date"]
    if off:
        yield dict(c, date=[us, 0])
    if us not in (0, -1):
        yield dict(c, date=[0, off], alts=[[0, 0], [1, 0], [10**6, 0]])
        yield dict(c, date=[-1, off], alts=[[-1, 0], [-10**6, 0], [0, 0]])
    if len(c["alts"]) == 3 and any(a != [us, off] for a in c["alts"][:1]):
        yield dict(c, alts=[[us, off]] + c["alts"][1:])


def pre_checks(ctx):
    """the authority type words are literals of the model: compare with the enum of the source now"""
    from . import core
    from swh.model.model import MetadataAuthorityType
    fails = []
    resp = core.run_driver(ID, ["authwords"])
    words = [unhx(w).decode() for w in resp[0][3:].split(",")] if resp and resp[0].startswith("ok ") else None
    src = [m.value for m in MetadataAuthorityType]
    if words != src or sorted(src) != sorted(AUTH.values()):
        fails.append(("table:MetadataAuthorityType", "model %s, harness %s, source %s" % (words, sorted(AUTH.values()), src)))
    if any(" " in w for w in src):
        fails.append(("table:MetadataAuthorityType-space-free", "an authority type value contains a space: %s" % src))
    if len(COMBOS) != 167:
        fails.append(("table:admissible-subsets", "expected 167 admissible context subsets, enumerated %d" % len(COMBOS)))
    return fails


# functions of /repo whose executed-line coverage by this run is reported in the evidence
ANCHORS = [('swh/model/git_objects.py', 'raw_extrinsic_metadata_git_object'),
           ('swh/model/git_objects.py', 'extid_git_object'),
           ('swh/model/model.py', 'normalize_discovery_date'),
           ('swh/model/model.py', 'RawExtrinsicMetadata.check_*'),
           ('swh/model/model.py', 'ExtID.check_*')]


# the case stream has every emd case before the first extid case: coq_cases gets every case and keeps the first few of
# each kind (it shrinks the list it is given IN PLACE, so that the evidence's `n` is the number evaluated)
COQ_SAMPLE = 1 << 30
COQ_PER_KIND = 14


def coq_cases(cases):
    """mk_emd / emd_git_object / parse_emd / parse_ext and mk_extid / extid_git_object / parse_extid / parse_core (+ Sha1.sha1
    of the manifests) evaluated by vm_compute inside Coq vs the extracted driver (extraction cross-check).  The Coq terms
    are built from the very request lines the driver receives; the parsers are run on the model's own manifests."""
    from . import core
    chosen = []
    for kind in ("emd", "extid"):
        n = 0
        for c in cases:
            if c["kind"] != kind or n >= COQ_PER_KIND or naive_flow(c):
                continue
            rq = requests(c, {})[0]
            if len(rq) <= 1200:
                chosen.append((c, rq))
                n += 1
    cases[:] = [c for c, _ in chosen]
    reqs = [rq for _, rq in chosen]
    CT = {"snp": "CSnp", "rel": "CRel", "rev": "CRev", "dir": "CDir", "cnt": "CCnt"}
    TN = {"snp": 0, "rel": 1, "rev": 2, "dir": 3, "cnt": 4, "ori": 5, "emd": 6}

    def z(s):
        return "(%d)%%Z" % int(s)
    def nl(h):
        return "[" + "; ".join("%d" % b for b in core.unhx(h)) + "]%N"
    def opt(s, f):
        return "None" if s == "-" else "(Some %s)" % f(s)
    def csw(s):
        t, i = s.split(":")
        return "{| cs_ty := %s; cs_id := %s |}" % (CT[t], nl(i))
    def esw(s):
        t, i = s.split(":")
        return "{| es_ty := %s; es_id := %s |}" % ("EOri" if t == "ori" else "EEmd" if t == "emd" else "(ECore %s)" % CT[t], nl(i))
    def term(rq):
        w = rq.split(" ")
        if w[0] == "extid":
            return ("extid_case {| x_type := %s; x_extid := %s; x_target := %s; x_version := %s; x_payload_type := %s; x_payload := %s |}"
                    % (nl(w[1]), nl(w[2]), csw(w[3]), z(w[4]), opt(w[5], nl), opt(w[6], nl)))
        (_, tg, us, off, au, url, name, ver, fmt, md, origin, visit, snp, rel, rev, path, dr) = w
        return ("emd_case {| m_target := %s; m_date := {| dt_us := %s; dt_off := %s |}; m_authority := {| au_type := %s; au_url := %s |}; "
                "m_fetcher := {| fe_name := %s; fe_version := %s |}; m_format := %s; m_metadata := %s; m_origin := %s; m_visit := %s; "
                "m_snapshot := %s; m_release := %s; m_revision := %s; m_path := %s; m_directory := %s |}"
                % (esw(tg), z(us), z(off), {"d": "DepositClient", "f": "Forge", "r": "Registry"}[au], nl(url), nl(name), nl(ver),
                   nl(fmt), nl(md), opt(origin, nl), opt(visit, z), opt(snp, csw), opt(rel, csw), opt(rev, csw), opt(path, nl),
                   opt(dr, csw)))
    src = ("From Coq Require Import List NArith ZArith.\nFrom SWH.lib Require Import Bytes Sha1.\nFrom SWH.model Require Import Meta.\n"
           "Import ListNotations.\n" + core.COQ_CHECKSUM + """
Definition zz (x : Z) : list N := [if (x <? 0)%Z then 1%N else 0%N; Z.abs_N x].
Definition ob (o : option (list N)) : list N := match o with Some l => 320%N :: l | None => [321%N] end.
Definition cn (c : cty) : N := match c with CSnp => 0 | CRel => 1 | CRev => 2 | CDir => 3 | CCnt => 4 end%N.
Definition tn (t : ety) : N := match t with ECore c => cn c | EOri => 5%N | EEmd => 6%N end.
Definition show_ext (o : option eswhid) : list N := match o with Some s => tn (es_ty s) :: es_id s | None => [8%N] end.
Definition show_core (o : option cswhid) : list N := match o with Some s => cn (cs_ty s) :: cs_id s | None => [8%N] end.
Definition pemd (m : list N) : list N := match parse_emd m with
  | None => [9%N]
  | Some f => ef_target f ++ [311%N] ++ zz (ef_second f) ++ auth_word (ef_auth_type f) ++ [311%N] ++ ef_auth_url f ++ [311%N]
      ++ ef_fetcher_name f ++ [311%N] ++ ef_fetcher_version f ++ [311%N] ++ ef_format f ++ [311%N]
      ++ concat (map (fun h : list N * list N => fst h ++ [312%N] ++ snd h ++ [313%N]) (ef_context f)) ++ [311%N]
      ++ ef_metadata f ++ [311%N] ++ show_ext (parse_ext (ef_target f)) end.
Definition pextid (m : list N) : list N := match parse_extid m with
  | None => [9%N]
  | Some f => xf_type f ++ [311%N] ++ zz (xf_version f) ++ xf_extid f ++ [311%N] ++ xf_target f ++ [311%N]
      ++ ob (xf_payload_type f) ++ ob (xf_payload f) ++ show_core (parse_core (xf_target f)) end.
Definition emd_case (m : emd) : N := match mk_emd m with
  | Err _ => 1%N
  | Ok a => let man := emd_git_object a in
            cksum (man ++ sha1 man ++ zz (dt_us (m_date a)) ++ zz (dt_off (m_date a)) ++ [310%N] ++ pemd man) end.
Definition extid_case (e : extid) : N := match mk_extid e with
  | Err _ => 1%N
  | Ok e' => match extid_git_object e' with
             | Ok man => cksum (man ++ sha1 man ++ [310%N] ++ pextid man)
             | Err _ => 1%N end end.
""" + "Definition cases : list N := [" + ";\n ".join(term(rq) for rq in reqs) + "].\nEval vm_compute in cases.\n")
    resp = core.run_driver(ID, reqs)
    ok = [i for i, r in enumerate(resp) if r.startswith("ok ")]
    presp = dict(zip(ok, core.run_driver(ID, [("pextid " if reqs[i].startswith("extid") else "pemd ") + resp[i].split(" ")[1]
                                              for i in ok])))
    def zz(n):
        n = int(n)
        return [1 if n < 0 else 0, abs(n)]
    def b(h):
        return list(core.unhx(h))
    def ob(h):
        return [321] if h == "-" else [320] + b(h)
    def sw(s):
        if s == "none":
            return [8]
        t, i = s.split(":")
        return [TN[t]] + b(i)
    exp = []
    for i, (rq, r) in enumerate(zip(reqs, resp)):
        if not r.startswith("ok "):
            exp.append(1 if r == "err ValueError" else 3)
            continue
        w = r.split(" ")
        p = presp[i].split(" ")
        if rq.startswith("extid"):
            l = b(w[1]) + b(w[2]) + [310]
            if p[0] != "ok":
                l += [9]
            else:
                l += b(p[1]) + [311] + zz(p[2]) + b(p[3]) + [311] + b(p[4]) + [311] + ob(p[5]) + ob(p[6]) + sw(p[7])
        else:
            l = b(w[1]) + b(w[2]) + zz(w[3]) + zz(w[4]) + [310]
            if p[0] != "ok":
                l += [9]
            else:
                ctx = []
                if p[8] != ".":
                    for kv in p[8].split(","):
                        k, v = kv.split(":")
                        ctx += b(k) + [312] + b(v) + [313]
                l += b(p[1]) + [311] + zz(p[2]) + b(p[3]) + [311] + b(p[4]) + [311] + b(p[5]) + [311] + b(p[6]) + [311] + b(p[7]) + \
                    [311] + ctx + [311] + b(p[9]) + [311] + sw(p[10])
        exp.append(core.py_cksum(l))
    return src, exp
