"""C11 - model values are immutable and behave as values (equality, hashing).

Anchors: swh/model/model.py (every frozen attrs class), swh/model/collections.py
(ImmutableDict), swh/model/swhids.py (CoreSWHID, ExtendedSWHID, QualifiedSWHID).

Tie.  Every case is a little script run both on /repo's classes and on the
extracted Coq model (coq/model/Frozen.v):

  script  build an object (constructor with every field given, or from_dict)
          with every dict/list argument passed as a FRESH mutable container the
          harness keeps; observe (content, to_dict(), hash or unhashable, id,
          id == compute_hash(), == twin built from equal arguments); then
          - for every attribute: setattr / delattr on the object (must raise),
            item assignment / deletion (ImmutableDict; must raise),
          - mutate each kept container (add key, delete key, change value,
            clear, append, replace element, pop) and observe again.
          The model answers the same script: which steps raise, after which
          steps the observation differs from the initial one (with the current
          collections.py: none), what the constructed content is.
          Already-frozen ImmutableDict arguments (metadata, branches, ImmutableDict(idict)) are
          observed BEFORE the construction and after every step (content, ==, hash, usable
          as dict key): they must never change; copy_pop(present / absent key) steps on
          ImmutableDict objects; the object is also built a second time from the very same
          argument objects and both must be equal.
          Dict arguments are, about 4 times in 10, instances of a dict SUBCLASS
          (collections.defaultdict(list), defaultdict(lambda: None), OrderedDict, a class with an
          inserting __missing__); read-only probes (missing_key in m, m.get, m[missing] in a try,
          list(m), len(m), dict(m.items()), to_dict, hash, ==, for Snapshot the git manifest with
          aliases to missing branches) are followed by re-observation; the twin is built from equal
          PLAIN dicts.
  twins   two objects from equal / permuted / differing arguments: ==, hashable,
          equal hashes, usable as dict key and set member.  The model says
          whether they are equal and whether their hash keys coincide.
  perms   ImmutableDict built from every permutation of <= 5 items.

oracle() is the property itself evaluated on the implementation only.
"""
import datetime
import enum
import itertools

from . import core

ID = "C11"
PROPS = "Props/C11.v"
EXTRACT = "extract/ExC11.v"
OBLIGATION = "frozen-values"
THEOREMS = [
    "C11_no_alias", "C11_no_alias_args", "C11_no_alias_from_dict", "C11_no_write_op",
    "C11_eq_hash", "C11_eq_hash_fields_table", "C11_eq_hash_needs_table", "C11_arg_kinds_table",
    "C11_same_args_equal", "C11_same_args_equal_example",
    "C11_idict_order_free", "C11_idict_order_free_satisfiable",
    "C11_no_alias_refuted_old", "C11_no_alias_refuted_old_release",
    "C11_no_alias_refuted_unchecked_field", "C11_nested_shared_example",
    "C11_no_alias_satisfiable", "C11_eq_hash_satisfiable",
    "C11_frozen_mapping_never_changes", "C11_frozen_cell_never_written", "C11_frozen_mapping_satisfiable",
    "C11_copy_pop_refuted_inplace",
    "C11_reads_are_pure", "C11_reads_are_pure_from_dict", "C11_reads_are_pure_copy_pop", "C11_read_pure_step",
    "C11_reads_are_pure_satisfiable", "C11_reads_pure_refuted_subclass_copy",
    "C11_transport_hash", "C11_accessors_pure", "C11_accessor_value_function_of_content",
]
RULE = ("for each attrs class of swh.model.model, each SWHID class and ImmutableDict: generated valid field values; "
        "every dict/list-typed argument is a fresh container kept by the harness; script = setattr+delattr on every "
        "attribute, item assignment/deletion, then 1..6 caller mutations on every kept container (constructor and "
        "from_dict routes); ~1/3 of the mapping arguments are ALREADY FROZEN ImmutableDicts observed before the construction and "
        "after every step; copy_pop(present/absent key) steps on ImmutableDict objects; Revision with legacy metadata "
        "(fresh dict or frozen) holding extra_headers; every object built twice from the very same argument objects; "
        "twins 'equal-but-differently-spelled' (== but not identical: True/1/1.0, 0.0/-0.0, nested dicts in another key "
        "order, inside ImmutableDict and every metadata/branches argument): a == b must imply equal hashes or TypeError on "
        "both, one set member, one dict key; twins = equal / same-objects / eq=False-field-differs / one-field-differs / permuted-insertion-order "
        "arguments; transport (batches of objects of every class, the SWHID classes and ImmutableDict, full of str/bytes): "
        "an object HASHED before and one NEVER hashed go through pickle protocols 0-5, copy.copy, copy.deepcopy, and - pickled - "
        "to one long-lived worker process running the same repo under another PYTHONHASHSEED (and back: built and hashed "
        "there, unpickled here); afterwards the copy must equal the original and a fresh local twin, hash like them, be the "
        "same set member / dict key, have the same to_dict()/id/content and still refuse setattr/delattr/item assignment.  "
        "LATER MUTATION reaches the containers NESTED (depth 2-3: list in dict, dict in list in dict) in every container "
        "argument on both routes - Revision in the legacy encoding (extra_headers inside metadata; constructor and from_dict), "
        "metadata of Release/Revision/OriginVisitStatus/authorities, Snapshot branches and Directory entries given as nested "
        "dicts to from_dict, extra_headers as list of lists: the object must not move, except for containers nested in a "
        "mapping argument frozen by a shallow copy (recorded reading, C11_nested_shared_example) where model and "
        "implementation must agree that it does; dict arguments are also instances of subclasses overriding copy() (returning "
        "self / a defaultdict) or items()/keys()/values()/__iter__; a construction that raises for a dict-subclass argument "
        "while the equal plain dict builds is a violation; channel RETURNED-CONTAINER: for every public accessor found by "
        "inspection (attrs fields, properties, zero-argument public methods: to_dict, qualifiers, hashes, unique_key, items/keys/"
        "values materialised, ...) the result is mutated deeply (pop, clear, append, nested edits), then the object, a twin and a "
        "fresh call are observed again; two successive calls (or two equal objects) must not hand out the same mutable container.  "
        "REACH: setattr / delattr of every field, an undeclared attribute, the instance __dict__ (must not exist on the slotted "
        "model classes), item assignment and every mutator method name of dict / list / set (update, pop, clear, append, "
        "__ior__, ...) are attempted on the object AND on every value object, frozen mapping and tuple reached through its "
        "containers (Person / Timestamp / TimestampWithTimezone inside Release / Revision, DirectoryEntry inside Directory.entries, "
        "SnapshotBranch inside Snapshot.branches, SWHIDs inside RawExtrinsicMetadata / ExtID / QualifiedSWHID); EVOLVE: "
        "attr.evolve(obj) / obj.evolve() results are equal, immutable and share nothing mutable; a dict / list given to "
        "attr.evolve or obj.evolve for a mapping field / extra_headers is copied; value objects handed out by accessors "
        "(swhid(), anonymize(), ...) are immutable; the object is also built from the same arguments given POSITIONALLY; "
        "repr() is part of every observation; argument SHAPES: ImmutableDict() without argument, a one-shot generator, a zip, "
        "a dict.items() view of a kept dict, pairs as 2-element lists, int keys; extra_headers as generator / zip; Revision "
        "with extra_headers BOTH inside metadata and explicit, and an EMPTY legacy list; ILL-TYPED mutable containers (a list "
        "for every tuple-typed field, a bytearray for a bytes field) which /repo refuses - if one is accepted the caller "
        "mutates it afterwards; twins: numeric keys 1/True/1.0, SWHID argument spellings (enum member / its value, CoreSWHID "
        "/ its string, bytes path / percent-encoded str, (a, b) / 'a-b'), the same fields in two SWHID classes (equal => "
        "equal hash), thorough: mappings of 200-3000 keys in two orders.  "
        "twins 'unusual-eq': mapping values whose == is unusual - float nan, Decimal NaN, objects whose __eq__ is always "
        "False / always True / raises, also nested in a list / tuple / dict inside the mapping - once with the SAME argument "
        "objects used for two constructions (must be equal, hash alike, be one set member) and once separately built (model "
        "and implementation must agree; equal => equal hash); 10 % of the str / bytes values and mapping keys carry a string / "
        "bytes constant harvested from the source of the repository under test (harness/gitobj_common.source_tokens).  "
        "twins 'unorderable-keys' (implementation only): equal frozen mappings - bare and as a value inside metadata - whose "
        "keys cannot be compared with `<` and have EQUAL hashes under the run's hash seed ('' / b'' / 0, a str and the bytes of "
        "the same text, tuples of those, -1 / -2 with a str, frozenset() / () / str, pairs found by search), alone or mixed with "
        "orderable keys, values of different hashes, in two insertion orders: both hashable with equal hashes, or TypeError on "
        "both; FOREIGN containers (implementation only: refuse, or be immune and equal to the plain twin): MappingProxyType / UserDict "
        "/ ChainMap / custom Mapping / Mapping over items() / ImmutableDict built from one of these, as ImmutableDict argument, "
        "as metadata / branches, as the dictionary of from_dict; custom Sequence for tuple-typed fields and extra_headers; "
        "array.array / memoryview for bytes fields - all views of a container the caller mutates afterwards.  "
        "non-trivial = at least one kept container argument is mutated after construction, or twins "
        "differing only in insertion order / eq=False fields, or a transport batch, or a returned-container probe; distinct = distinct case")
TRUSTED = [
    "the transport worker (harness/c11.py worker_main, started by the harness with another PYTHONHASHSEED; length-prefixed "
    "pickle frames); the model treats transport as the identity on values and its hash as a function of the content "
    "(C11_transport_hash): a hash memo that survives transport is a deviation from the model",
    "attrs/CPython contract, modelled not verified: frozen=True generates __setattr__/__delattr__ that raise "
    "FrozenInstanceError, slots=True leaves no __dict__ on model classes, the generated __eq__/__hash__ compare/hash "
    "exactly the eq=True / hash fields of the same class; collections.abc.Mapping.__eq__ compares as dicts; "
    "dict() copies shallowly; copy.deepcopy / nested from_dict results share nothing with their input (modelled as "
    "handle-free values).  Exercised by the correspondence for every class x attribute, not proved.",
    "model table ARG_KINDS (which field accepts a dict/list and what its converter does), cross-checked at run time "
    "by pre_checks against the real classes (identity / mutation probes) and against Generated.v by C11_arg_kinds_table",
]
ASSUMPTIONS = [
    "read-only views and other Mapping / Sequence / buffer implementations (MappingProxyType, UserDict, ChainMap, a custom "
    "Mapping, a Mapping over an items() view, an ImmutableDict built from one of these; a custom Sequence, array.array, "
    "memoryview) given where a mapping / tuple / bytes is accepted: the library may REFUSE them (observed on /repo: ValueError "
    "from unpacking the keys in ImmutableDict(...), attrs_strict AttributeTypeError - a ValueError - for typed fields, "
    "AttributeError in from_dict of a Mapping without .copy()); if it accepts them (on /repo: an empty Mapping, from_dict of a "
    "proxy / UserDict / ChainMap, extra_headers as a custom Sequence) the object must be immune to later mutation of the "
    "underlying container and equal to the twin built from the equal plain dict / tuple / bytes.  The generated keys of such "
    "mappings never have 2 characters: on /repo ImmutableDict(<non-dict Mapping>) iterates the KEYS and unpacks each as a pair, "
    "so UserDict({'ab': 1}) becomes {'a': 'b'} (reported, not counted)",
    "values whose == is unusual (float nan, Decimal NaN, objects whose __eq__ is always False / raises) are atoms whose "
    "equality is IDENTITY: that is what dict == and tuple == compute on /repo (`x is y or x == y`), hence what the inherited "
    "Mapping.__eq__ and the attrs __eq__ compute; two objects built from the SAME argument objects are equal even when a "
    "metadata value is not equal to itself; two objects built from two separately created NaNs are legitimately unequal; an "
    "object whose __eq__ is always True is one atom; the model encodes one atom per such object (harness Enc.opaque)",
    "recorded behaviours of /repo that the probes do not count (reported to the coordinator): the SWHID classes and "
    "ImmutableDict are not slotted, so `vars(x)[name] = v` and `idict._data = ...` / `idict.anything = ...` succeed; "
    "re-calling `obj.__init__(...)` / `obj.__setstate__(...)` re-initialises a frozen attrs instance (attrs internals use "
    "object.__setattr__); DirectoryEntry.DIR_ENTRY_TYPE_TO_SWHID_OBJECT_TYPE is a mutable class-level dict reachable from "
    "every instance (mutating it changes swhid() of all entries, not their content / == / hash); QualifiedSWHID.path accepts "
    "and copies any bytes-like; ImmutableDict == an equal plain dict (which is unhashable)",
    "mappings with keys of several types are checked on the implementation only (the model's mapping keys are atoms of one "
    "type, ordered by their encoding); on /repo hash() of such a mapping raises TypeError from sorted(): unhashable on both sides",
    "the SWHID converters' alternative spellings and pairs of different SWHID classes are checked on the implementation "
    "only (the model has one class per twin pair and treats converters of scalar fields as the identity on canonical values)",
    "transport = pickle (protocols 0-5) and copy/deepcopy; the receiving process differs by its string-hash seed only "
    "(same interpreter, same repo); other serialisations (msgpack, to_dict/from_dict) are C12's",
    "a 'container passed to a constructor / from_dict' is the argument object itself (for from_dict also the "
    "containers directly under it); containers nested inside it stay shared and are not mutated (DESIGN section 7)",
    "arguments have the declared type of their field: a dict/list given to a field that has neither validator nor "
    "converter (raw_manifest, Content.get_data) is stored as is (C11_no_alias_refuted_unchecked_field)",
    "returned-container probes run on objects whose mapping arguments hold no nested mutable container (to_dict() hands "
    "those out as they are: same recorded reading)",
    "hash coherence is for hashable objects (a list/dict inside metadata makes hash() raise TypeError); mapping keys "
    "are str or bytes of one type, so sorted() in ImmutableDict.__hash__ is defined",
    "private-name / low-level channels are out of scope: object.__setattr__, ImmutableDict._data, __dict__ of the "
    "SWHID classes (they are not slotted)",
]
CASE_TIMEOUT = 60
FUEL = 12


# ------------------------------------------------------------------ value specs (JSON-able)
# None | ["b",hex] | ["s",str] | ["i",int] | ["f",repr(float)] | ["B",bool] | ["e",EnumClass,NAME] | ["dt",iso]
# ["t",[..]] tuple | ["l",[..]] list (kept) | ["d",[[k,v],..]] dict (kept) | ["I",[[k,v],..]] ImmutableDict
# ["o",Class,[[field,spec],..]] frozen instance built with the constructor

_CLASSES = []


def _classes():
    if _CLASSES:
        return _CLASSES[0]
    _CLASSES.append(_classes_scan())
    return _CLASSES[0]


def _classes_scan():
    import attr
    from swh.model import model as M
    from swh.model import swhids as S
    from swh.model.collections import ImmutableDict
    res = {}
    for name in sorted(dir(M)):
        obj = getattr(M, name)
        if isinstance(obj, type) and attr.has(obj) and obj.__module__ == "swh.model.model":
            res[name] = obj
    for c in (S.CoreSWHID, S.ExtendedSWHID, S.QualifiedSWHID):
        res[c.__name__] = c
    return res, ImmutableDict


def _enum(cls_name, name):
    from swh.model import model as M
    from swh.model import swhids as S
    for mod in (S, M):
        if hasattr(mod, cls_name):
            return getattr(mod, cls_name)[name]
    raise KeyError(cls_name)


class MissingDict(dict):
    """a small dict subclass whose __missing__ inserts"""
    def __missing__(self, k):
        self[k] = None
        return None


class CopySelfDict(dict):
    """copy() hands out the very same object"""
    def copy(self):
        return self


class CopyDefaultDict(dict):
    """copy() hands out a defaultdict"""
    def copy(self):
        import collections
        return collections.defaultdict(list, self)


class ListViewsDict(dict):
    """items() / keys() / values() / __iter__ overridden (lists and a list iterator instead of views), same content, same order"""
    def items(self):
        return list(dict.items(self))

    def keys(self):
        return list(dict.keys(self))

    def values(self):
        return list(dict.values(self))

    def __iter__(self):
        return iter(list(dict.keys(self)))


# subclasses that may stand for ANY dict argument ...
SUBCLASSES = ("defaultdict_list", "defaultdict_none", "ordered", "missing", "list_views")
# ... and those whose copy() is overridden: not for the top-level dictionary of from_dict (from_dict calls d.copy() to
# protect its argument: a copy() returning self makes the CALLER's class defeat that, which is not the library's doing)
COPY_SUBCLASSES = ("copy_self", "copy_default")
FACTORY_SUBCLASSES = ("defaultdict_list", "defaultdict_none", "missing")     # a failed d[k] inserts k


def new_dict(sub):
    import collections
    if sub == "defaultdict_list":
        return collections.defaultdict(list)
    if sub == "defaultdict_none":
        return collections.defaultdict(lambda: None)
    if sub == "ordered":
        return collections.OrderedDict()
    if sub == "missing":
        return MissingDict()
    if sub == "copy_self":
        return CopySelfDict()
    if sub == "copy_default":
        return CopyDefaultDict()
    if sub == "list_views":
        return ListViewsDict()
    return {}


import collections.abc as _abc


class ReadOnlyMapping(_abc.Mapping):
    """a custom read-only Mapping that is only a VIEW of a dict its owner keeps"""
    def __init__(self, d):
        self._d = d

    def __getitem__(self, k):
        return self._d[k]

    def __iter__(self):
        return iter(self._d)

    def __len__(self):
        return len(self._d)


class ItemsViewMapping(_abc.Mapping):
    """a Mapping made from a dict's items() view"""
    def __init__(self, d):
        self._items = d.items()

    def __getitem__(self, k):
        for kk, v in self._items:
            if kk == k:
                return v
        raise KeyError(k)

    def __iter__(self):
        return (k for k, _ in self._items)

    def __len__(self):
        return len(self._items)


class ListView(_abc.Sequence):
    """a custom read-only Sequence that is only a VIEW of a list its owner keeps"""
    def __init__(self, lst):
        self._l = lst

    def __getitem__(self, i):
        return self._l[i]

    def __len__(self):
        return len(self._l)


MAPPING_VIEWS = ("proxy", "userdict", "chainmap", "romap", "viewmap", "idict_proxy", "idict_romap", "idict_userdict")


def mapping_view(kind, d):
    import collections
    import types
    _, ImmutableDict = _classes()
    base = kind[6:] if kind.startswith("idict_") else kind
    v = {"proxy": types.MappingProxyType, "userdict": collections.UserDict, "chainmap": collections.ChainMap,
         "romap": ReadOnlyMapping, "viewmap": ItemsViewMapping}[base](d)
    if base == "userdict":
        v.data = d              # UserDict(d) copies: make it a view of the caller's dict, like the others
    return ImmutableDict(v) if kind.startswith("idict_") else v


class EqFalse:
    """== is always False (even with itself); containers still find it equal to itself by identity"""
    def __eq__(self, other):
        return False
    __hash__ = object.__hash__


class EqTrue:
    """== is always True"""
    def __eq__(self, other):
        return True

    def __hash__(self):
        return 0


class EqRaises:
    """== raises; containers never call it on the very same object (identity shortcut)"""
    def __eq__(self, other):
        raise RuntimeError("c11: __eq__ called")
    __hash__ = object.__hash__


# values whose == is unusual.  Rule (ASSUMPTIONS): such a value is an ATOM WHOSE EQUALITY IS IDENTITY - what dict == and
# tuple == do on /repo (they compare `x is y or x == y`) - except EqTrue, equal to everything of its kind.
OPAQUE_IDENTITY = ("nan", "dnan", "eqf", "eqr")
OPAQUE = OPAQUE_IDENTITY + ("eqt",)

NOARG = object()         # ImmutableDict() with no argument: the default-argument object of __init__


def no_oneshot(spec):
    if isinstance(spec, list):
        if spec and spec[0] in ("g", "z"):
            return ["t"] + [no_oneshot(x) for x in spec[1:]]
        return [no_oneshot(x) for x in spec]
    return spec


def has_oneshot(spec):
    """does the value contain a one-shot iterator (generator / zip)?  Such an argument cannot be used twice"""
    if isinstance(spec, list):
        if spec and spec[0] in ("g", "z"):
            return True
        return any(has_oneshot(x) for x in spec)
    return False


def build(spec, kept, frozen=None, plain=False):
    """spec -> Python value; every dict/list created is appended to kept (creation order, pre-order);
    every ImmutableDict created for an ["I", ...] node is appended to frozen (same order).
    ["d", items, sub] is an instance of the dict subclass `sub` (a plain dict when plain=True)"""
    if spec is None:
        return None
    t = spec[0]
    if t == "b":
        return bytes.fromhex(spec[1])
    if t == "s":
        return spec[1]
    if t == "i":
        return int(spec[1])
    if t == "f":
        return float(spec[1])
    if t == "B":
        return bool(spec[1])
    if t == "e":
        return _enum(spec[1], spec[2])
    if t == "dt":
        return datetime.datetime.fromisoformat(spec[1])
    if t == "t":
        return tuple(build(x, kept, frozen, plain) for x in spec[1])
    if t == "l":
        lst = []
        kept.append(lst)
        for x in spec[1]:
            lst.append(build(x, kept, frozen, plain))
        return lst
    if t in ("d", "v"):
        d = new_dict(spec[2] if len(spec) > 2 and not plain else None)
        kept.append(d)
        for k, v in spec[1]:
            d[build(k, kept, frozen, plain)] = build(v, kept, frozen, plain)
        return d if t == "d" else d.items()          # "v": the caller passes the items VIEW of a dict it keeps
    if t == "g":                                        # a one-shot generator of pairs
        pairs = [build(x, kept, frozen, plain) for x in spec[1]]
        return (x for x in pairs)
    if t == "z":                                        # a zip object of pairs
        pairs = [build(x, kept, frozen, plain) for x in spec[1]]
        return zip([a for a, _ in pairs], [b for _, b in pairs])
    if t == "ba":                                       # a bytearray where bytes are expected (kept: it is mutable)
        ba = bytearray(bytes.fromhex(spec[1]))
        kept.append(ba)
        return ba
    if t == "noarg":
        return NOARG
    if t == "fs":
        return frozenset(build(x, kept, frozen, plain) for x in spec[1])
    if t == "mp":                                       # a read-only VIEW / another Mapping over a dict the caller keeps
        d = {}
        kept.append(d)
        for k, v in spec[1]:
            d[build(k, kept, frozen, plain)] = build(v, kept, frozen, plain)
        return d if plain else mapping_view(spec[2], d)
    if t == "sq":                                       # a custom Sequence over a list the caller keeps
        lst = []
        kept.append(lst)
        for x in spec[1]:
            lst.append(build(x, kept, frozen, plain))
        return tuple(lst) if plain else ListView(lst)
    if t == "ar":                                       # array.array('B') where bytes are declared
        import array
        a = array.array("B", bytes.fromhex(spec[1]))
        kept.append(a)
        return bytes(a) if plain else a
    if t == "mv":                                       # a memoryview of a bytearray the caller keeps
        ba = bytearray(bytes.fromhex(spec[1]))
        kept.append(ba)
        return bytes(ba) if plain else memoryview(ba)
    if t == "nan":
        return float("nan")                 # a NEW nan object each time it is built
    if t == "dnan":
        import decimal
        return decimal.Decimal("NaN")
    if t == "eqf":
        return EqFalse()
    if t == "eqt":
        return EqTrue()
    if t == "eqr":
        return EqRaises()
    if t == "I":
        _, ImmutableDict = _classes()
        slot = None
        if frozen is not None:
            slot = len(frozen)
            frozen.append(None)
        x = ImmutableDict([(build(k, kept, frozen, plain), build(v, kept, frozen, plain)) for k, v in spec[1]])
        if slot is not None:
            frozen[slot] = x
        return x
    if t == "o":
        classes, _ = _classes()
        return classes[spec[1]](**{f: build(v, kept, frozen, plain) for f, v in spec[2]})
    raise ValueError(spec)


def atom_hex(v):
    if isinstance(v, bytes):
        return "01" + v.hex()
    if isinstance(v, str):
        return "02" + v.encode("utf-8", "surrogatepass").hex()
    if isinstance(v, (bool, int, float)):
        # numbers are ONE kind of atom, spelled canonically: Python's == (and hash) does not
        # distinguish True / 1 / 1.0, nor 0.0 / -0.0 ("same atom iff ==" is the model's contract)
        if isinstance(v, float) and (v != v or v in (float("inf"), float("-inf"))):
            return "08" + repr(v).encode().hex()
        if v == int(v):
            return "03" + str(int(v)).encode().hex()
        return "03" + repr(float(v)).encode().hex()
    if isinstance(v, enum.Enum):
        return "05" + (type(v).__name__ + "." + v.name).encode().hex()
    if isinstance(v, datetime.datetime):
        return "06" + v.isoformat().encode().hex()
    return "07" + repr(v).encode("utf-8", "replace").hex()


def spec_atom_hex(spec):
    return atom_hex(build(spec, []))


class Enc:
    """spec -> wire value + store cells for the model.  Handles are given in
    pre-order; kept_handles[i] is the handle of the i-th kept container."""

    def __init__(self):
        self.cells = []
        self.kept_handles = []
        self.frozen_vals = []       # "I<h>" of every already-frozen mapping, in build() order
        self.opaque = 0             # one atom per OBJECT for the values whose equality is identity

    def val(self, spec):
        if spec is None:
            return "N"
        t = spec[0]
        if t in OPAQUE_IDENTITY:
            self.opaque += 1
            return "A09" + ("%s-%d" % (t, self.opaque)).encode().hex()
        if t == "eqt":
            return "A0a"
        if t in ("b", "s", "i", "f", "B", "e", "dt"):
            return "A" + spec_atom_hex(spec)
        if t in ("t", "g", "z"):        # generators / zips of pairs: iterated once, like a tuple
            return "T(" + ";".join(self.val(x) for x in spec[1]) + ")"
        if t == "noarg":
            return "T()"
        if t == "ba":                   # a mutable byte container: for the model, a list of ints
            h = len(self.cells)
            self.cells.append("L(" + ";".join("A03" + str(b).encode().hex() for b in bytes.fromhex(spec[1])) + ")")
            self.kept_handles.append(h)
            return "R%d" % h
        if t == "l":
            h = len(self.cells)
            self.cells.append(None)
            self.kept_handles.append(h)
            self.cells[h] = "L(" + ";".join(self.val(x) for x in spec[1]) + ")"
            return "R%d" % h
        if t in ("d", "I", "v"):
            h = len(self.cells)
            self.cells.append(None)
            if t in ("d", "v"):
                self.kept_handles.append(h)
            else:
                self.frozen_vals.append("I%d" % h)
            items = []
            for k, v in spec[1]:
                items.append(spec_atom_hex(k) + "=" + self.val(v))
            fac = t in ("d", "v") and len(spec) > 2 and spec[2] in FACTORY_SUBCLASSES
            self.cells[h] = ("F(" if fac else "D(") + ";".join(items) + ")"
            return ("I%d" if t == "I" else "R%d") % h
        if t == "o":
            import attr
            classes, _ = _classes()
            cls = classes[spec[1]]
            given = dict((f, v) for f, v in spec[2])
            return "O" + spec[1].encode().hex() + "(" + ";".join(self.val(given[a.name]) for a in attr.fields(cls)) + ")"
        raise ValueError(spec)

    def store(self):
        return "|".join(self.cells) if self.cells else "."


def render(v):
    """Python value -> the model's resolved-value syntax"""
    import attr
    _, ImmutableDict = _classes()
    if v is None:
        return "N"
    if isinstance(v, ImmutableDict):
        return "M{" + ";".join(atom_hex(k) + "=" + render(x) for k, x in v.data) + "}"
    if isinstance(v, dict):
        return "D{" + ";".join(atom_hex(k) + "=" + render(x) for k, x in v.items()) + "}"
    if isinstance(v, list):
        return "L(" + ";".join(render(x) for x in v) + ")"
    if isinstance(v, tuple):
        return "T(" + ";".join(render(x) for x in v) + ")"
    if attr.has(type(v)):
        return "O" + type(v).__name__.encode().hex() + "(" + ";".join(render(getattr(v, a.name)) for a in attr.fields(type(v))) + ")"
    return "A" + atom_hex(v)


def split_top(s, sep=";"):
    out, depth, st = [], 0, 0
    for i, ch in enumerate(s):
        if ch in "({":
            depth += 1
        elif ch in ")}":
            depth -= 1
        elif ch == sep and depth == 0:
            out.append(s[st:i])
            st = i + 1
    out.append(s[st:])
    return out


def mask_field(rendered, idx):
    """replace the idx-th field of a rendered top-level object by '?'"""
    i = rendered.index("(")
    parts = split_top(rendered[i + 1:-1])
    if idx < len(parts):
        parts[idx] = "?"
    return rendered[:i + 1] + ";".join(parts) + ")"


# ------------------------------------------------------------------ generators
def rb(rng, n):
    return ["b", bytes(rng.randrange(256) for _ in range(n)).hex()]


_SPLICE = [True]


def spliced(rng, spec):
    """10 % of the str / bytes values carry a string / bytes constant harvested from the source of the repository under test"""
    if not _SPLICE[0] or rng.random() >= 0.10:
        return spec
    try:
        from . import gitobj_common
        if spec[0] == "b":
            return ["b", gitobj_common.splice_token(rng, bytes.fromhex(spec[1]), "bytes").hex()]
        return ["s", gitobj_common.splice_token(rng, spec[1], "str")]
    except Exception:
        return spec


def rbytes(rng):
    return spliced(rng, rbytes0(rng))


def rstr(rng):
    return spliced(rng, rstr0(rng))


def rbytes0(rng):
    return rb(rng, rng.choice([0, 1, 3, 8])) if rng.random() < 0.8 else ["b", rng.choice([b"a\nb", b"\xff\x00", b" "]).hex()]


def rstr0(rng):
    return ["s", rng.choice(["", "a", "key", "https://example.org/x", "été", "k%d" % rng.randrange(100), "a b"])]


def rdt(rng, micro=True):
    return ["dt", datetime.datetime(2000 + rng.randrange(30), 1 + rng.randrange(12), 1 + rng.randrange(28), rng.randrange(24),
                                    rng.randrange(60), rng.randrange(60), rng.choice([0, 0, 123456]) if micro else 0,
                                    tzinfo=datetime.timezone.utc).isoformat()]


def opt(rng, f, p=0.3):
    return None if rng.random() < p else f(rng)


def rmeta_value(rng, depth=0):
    r = rng.random()
    if r < 0.3:
        return rstr(rng)
    if r < 0.5:
        return ["i", rng.randrange(-5, 1000)]
    if r < 0.6:
        return rbytes(rng)
    if r < 0.7:
        return None
    if r < 0.8:
        return ["t", [["i", rng.randrange(9)] for _ in range(rng.randrange(3))]]
    if depth < 2 and r < 0.9:       # nested mutable containers (list in dict, dict in list in dict, ...)
        return ["l", [rmeta_value(rng, depth + 1) for _ in range(rng.randrange(3))]]
    if depth < 2:
        return ["d", [[["s", "n%d" % i], rmeta_value(rng, depth + 1)] for i in range(rng.randrange(3))]]
    return ["B", rng.random() < 0.5]


def rmeta_items(rng, hashable=False):
    n = rng.choice([0, 1, 2, 3, 5])
    keys = rng.sample(["a", "b", "key", "z", "é", "A", "aa", "extra", "k1", "k2"], n)
    items = []
    for k in keys:
        v = rmeta_value(rng)
        while hashable and v is not None and v[0] in ("l", "d"):
            v = rmeta_value(rng)
        ks = spliced(rng, ["s", k])
        if any(ks == k0 for k0, _ in items):
            ks = ["s", k]
        items.append([ks, v])
    return items


def subify(rng, dspec, p=0.45, copy_ok=True):
    """a dict argument is, with probability p, an instance of a dict subclass"""
    if rng.random() < p:
        return [dspec[0], dspec[1], rng.choice(SUBCLASSES + (COPY_SUBCLASSES if copy_ok else ()))]
    return dspec


def rmeta(rng, hashable=False):
    """an Optional[dict] metadata argument: None, a fresh dict, or an ImmutableDict"""
    r = rng.random()
    if r < 0.15:
        return None
    items = rmeta_items(rng, hashable)
    return ["I", items] if r < 0.45 else subify(rng, ["d", items])      # ~1/3 already frozen


def g_person(rng):
    return ["o", "Person", [["fullname", rbytes(rng)], ["name", opt(rng, rbytes)], ["email", opt(rng, rbytes)]]]


def g_timestamp(rng):
    return ["o", "Timestamp", [["seconds", ["i", rng.randrange(-10**9, 10**10)]], ["microseconds", ["i", rng.choice([0, 1, 999999, rng.randrange(10**6)])]]]]


def g_tstz(rng):
    return ["o", "TimestampWithTimezone", [["timestamp", g_timestamp(rng)],
                                           ["offset_bytes", ["b", rng.choice([b"+0000", b"-0000", b"+0130", b"-1200", b"+1400"]).hex()]]]]


def g_origin(rng):
    return ["o", "Origin", [["url", rstr(rng)], ["id", rid(rng)]]]


def rid(rng):
    """id argument: b"" (computed by the class) or an explicit 20-byte id"""
    return ["b", ""] if rng.random() < 0.7 else rb(rng, 20)


def g_origin_visit(rng):
    return ["o", "OriginVisit", [["origin", rstr(rng)], ["date", rdt(rng)], ["type", rstr(rng)],
                                 ["visit", opt(rng, lambda r: ["i", r.randrange(1, 1000)])]]]


def g_ovs(rng, hashable=False):
    return ["o", "OriginVisitStatus", [["origin", rstr(rng)], ["visit", ["i", rng.randrange(1, 1000)]], ["date", rdt(rng)],
                                       ["status", ["s", rng.choice(["created", "ongoing", "full", "partial", "not_found", "failed"])]],
                                       ["snapshot", opt(rng, lambda r: rb(r, 20))], ["type", opt(rng, rstr)],
                                       ["metadata", rmeta(rng, hashable)]]]


def g_branch(rng):
    if rng.random() < 0.25:
        return ["o", "SnapshotBranch", [["target", rbytes(rng)], ["target_type", ["e", "SnapshotTargetType", "ALIAS"]]]]
    return ["o", "SnapshotBranch", [["target", rb(rng, 20)],
                                    ["target_type", ["e", "SnapshotTargetType", rng.choice(["CONTENT", "DIRECTORY", "REVISION", "RELEASE", "SNAPSHOT"])]]]]


def g_snapshot(rng, hashable=False):
    n = rng.choice([0, 1, 2, 3, 5])
    names = rng.sample([b"HEAD", b"refs/heads/main", b"refs/tags/v1", b"a", b"b", b"\xff", b"", b"zz"], n)
    items = [[["b", k.hex()], (None if rng.random() < 0.2 else g_branch(rng))] for k in names]
    kind = "I" if rng.random() < 0.35 else "d"
    br = [kind, items] if kind == "I" else subify(rng, [kind, items])
    return ["o", "Snapshot", [["branches", br], ["id", rid(rng)]]]


def g_release(rng, hashable=False):
    author = opt(rng, g_person)
    return ["o", "Release", [["name", rbytes(rng)], ["message", opt(rng, rbytes)], ["target", rb(rng, 20)],
                             ["target_type", ["e", "ReleaseTargetType", rng.choice(["CONTENT", "DIRECTORY", "REVISION", "RELEASE", "SNAPSHOT"])]],
                             ["synthetic", ["B", rng.random() < 0.5]], ["author", author],
                             ["date", None if author is None else opt(rng, g_tstz)],
                             ["metadata", rmeta(rng, hashable)], ["id", rid(rng)], ["raw_manifest", None]]]


def g_revision(rng, hashable=False):
    author, committer = opt(rng, g_person, 0.1), opt(rng, g_person, 0.1)
    xh = [["t", [rb(rng, 3), rbytes(rng)]] for _ in range(rng.choice([0, 0, 1, 2, 3]))]
    r = rng.random()
    xh = (["l", xh] if r < 0.5 else ["t", xh] if r < 0.65 else ["g", xh] if r < 0.75 else ["z", xh] if r < 0.85
          else ["l", [["l", p[1]] for p in xh]])
    meta = rmeta(rng, hashable)
    if meta is not None and rng.random() < 0.3 and not any(k == ["s", "extra_headers"] for k, _ in meta[1]):
        # legacy: extra_headers inside metadata (Revision.__attrs_post_init__ calls copy_pop on it),
        # the metadata being a fresh dict or an ALREADY FROZEN ImmutableDict of the caller
        legacy = [["s", "extra_headers"], ["l" if meta[0] == "d" else "t",
                                           [["l" if meta[0] == "d" else "t", [rb(rng, 2), rb(rng, 2)]]]]]
        items = meta[1] + [legacy]
        if not hashable and rng.random() < 0.7:
            items.append([["s", "nested"], ["d", [[["s", "l"], ["l", [["i", 1], ["d", [[["s", "deep"], ["l", []]]]]]]]]]])
        r2 = rng.random()
        if r2 < 0.15:       # an EMPTY legacy list: popped all the same
            items[len(meta[1])] = [["s", "extra_headers"], ["l" if meta[0] == "d" else "t", []]]
        rng.shuffle(items)
        meta = [meta[0], items]
        if r2 < 0.8 or not xh[1]:
            xh = ["t", []]
        elif hashable:      # the key stays in the metadata: keep the object free of nested mutable containers
            meta = [meta[0], [[k, (["t", [["t", p[1]] for p in v[1]]] if k == ["s", "extra_headers"] else v)] for k, v in meta[1]]]
        # else: the key "extra_headers" in metadata AND explicit extra_headers: nothing is moved (two options interacting)
    return ["o", "Revision", [["message", opt(rng, rbytes)], ["author", author], ["committer", committer],
                              ["date", None if author is None else opt(rng, g_tstz)],
                              ["committer_date", None if committer is None else opt(rng, g_tstz)],
                              ["type", ["e", "RevisionType", rng.choice(["GIT", "TAR", "DSC", "SUBVERSION", "MERCURIAL"])]],
                              ["directory", rb(rng, 20)], ["synthetic", ["B", rng.random() < 0.5]],
                              ["metadata", meta], ["parents", ["t", [rb(rng, 20) for _ in range(rng.choice([0, 1, 2]))]]],
                              ["id", rid(rng)], ["extra_headers", xh], ["raw_manifest", None]]]


def g_direntry(rng, name=None):
    return ["o", "DirectoryEntry", [["name", name or ["b", rng.choice([b"a", b"b.c", b"\xff", b"dir", b"x y"]).hex()]],
                                    ["type", ["s", rng.choice(["file", "dir", "rev"])]], ["target", rb(rng, 20)],
                                    ["perms", ["i", rng.choice([0o100644, 0o100755, 0o120000, 0o040000, 0o160000])]]]]


def g_directory(rng):
    names = rng.sample([b"a", b"b", b"c.d", b"\xfe", b"zz", b"README"], rng.choice([0, 1, 2, 4]))
    return ["o", "Directory", [["entries", ["t", [g_direntry(rng, ["b", n.hex()]) for n in names]]], ["id", rid(rng)], ["raw_manifest", None]]]


def g_content(rng):
    return ["o", "Content", [["sha1", rb(rng, 20)], ["sha1_git", rb(rng, 20)], ["sha256", rb(rng, 32)], ["blake2s256", rb(rng, 32)],
                             ["length", ["i", rng.randrange(0, 10**6)]], ["status", ["s", rng.choice(["visible", "hidden"])]],
                             ["data", opt(rng, rbytes, 0.5)], ["get_data", None], ["ctime", opt(rng, rdt, 0.5)]]]


def g_skipped(rng):
    return ["o", "SkippedContent", [["sha1", opt(rng, lambda r: rb(r, 20))], ["sha1_git", opt(rng, lambda r: rb(r, 20))],
                                    ["sha256", opt(rng, lambda r: rb(r, 32))], ["blake2s256", opt(rng, lambda r: rb(r, 32))],
                                    ["length", ["i", rng.randrange(-1, 10**6)]], ["status", ["s", "absent"]], ["reason", rstr(rng)],
                                    ["origin", opt(rng, rstr)], ["ctime", opt(rng, rdt, 0.5)]]]


def g_authority(rng, hashable=False, nested=False):
    return ["o", "MetadataAuthority", [["type", ["e", "MetadataAuthorityType", rng.choice(["DEPOSIT_CLIENT", "FORGE", "REGISTRY"])]],
                                       ["url", rstr(rng)], ["metadata", None if nested else rmeta(rng, hashable)]]]


def g_fetcher(rng, hashable=False, nested=False):
    return ["o", "MetadataFetcher", [["name", rstr(rng)], ["version", rstr(rng)], ["metadata", None if nested else rmeta(rng, hashable)]]]


def g_core_swhid(rng, types=("CONTENT", "DIRECTORY", "REVISION", "RELEASE", "SNAPSHOT")):
    return ["o", "CoreSWHID", [["namespace", ["s", "swh"]], ["scheme_version", ["i", 1]], ["object_id", rb(rng, 20)],
                               ["object_type", ["e", "ObjectType", rng.choice(list(types))]]]]


def g_ext_swhid(rng, types=("CONTENT", "DIRECTORY", "REVISION", "RELEASE", "SNAPSHOT", "ORIGIN", "RAW_EXTRINSIC_METADATA")):
    return ["o", "ExtendedSWHID", [["namespace", ["s", "swh"]], ["scheme_version", ["i", 1]], ["object_id", rb(rng, 20)],
                                   ["object_type", ["e", "ExtendedObjectType", rng.choice(list(types))]]]]


def g_qualified(rng):
    a, b = rng.randrange(1, 100), rng.randrange(100, 200)
    return ["o", "QualifiedSWHID", [["namespace", ["s", "swh"]], ["scheme_version", ["i", 1]], ["object_id", rb(rng, 20)],
                                    ["object_type", ["e", "ObjectType", rng.choice(["CONTENT", "DIRECTORY", "REVISION", "RELEASE", "SNAPSHOT"])]],
                                    ["origin", opt(rng, lambda r: ["s", "https://example.org/%d" % r.randrange(9)], 0.5)],
                                    ["visit", opt(rng, lambda r: g_core_swhid(r, ("SNAPSHOT",)), 0.5)],
                                    ["anchor", opt(rng, lambda r: g_core_swhid(r, ("DIRECTORY", "REVISION", "RELEASE", "SNAPSHOT")), 0.5)],
                                    ["path", opt(rng, lambda r: ["b", r.choice([b"/a/b", b"/", b"/x%20y"]).hex()], 0.5)],
                                    ["lines", opt(rng, lambda r: ["t", [["i", a], r.choice([None, ["i", b]])]], 0.5)]]]


def g_rem(rng):
    return ["o", "RawExtrinsicMetadata", [["target", g_ext_swhid(rng, ("CONTENT", "DIRECTORY", "REVISION", "RELEASE", "SNAPSHOT"))],
                                          ["discovery_date", rdt(rng, False)], ["authority", g_authority(rng, nested=True)],
                                          ["fetcher", g_fetcher(rng, nested=True)], ["format", rstr(rng)], ["metadata", rbytes(rng)],
                                          ["origin", None], ["visit", None], ["snapshot", None], ["release", None], ["revision", None],
                                          ["path", None], ["directory", None], ["id", rid(rng)]]]


def g_extid(rng):
    return ["o", "ExtID", [["extid_type", ["s", rng.choice(["git", "hg-nodeid", "x", ""])]], ["extid", rbytes(rng)], ["target", g_core_swhid(rng)],
                           ["extid_version", ["i", rng.randrange(3)]], ["payload_type", None], ["payload", None], ["id", rid(rng)]]]


GENS = {
    "Person": g_person, "Timestamp": g_timestamp, "TimestampWithTimezone": g_tstz, "Origin": g_origin,
    "OriginVisit": g_origin_visit, "OriginVisitStatus": g_ovs, "SnapshotBranch": g_branch, "Snapshot": g_snapshot,
    "Release": g_release, "Revision": g_revision, "DirectoryEntry": g_direntry, "Directory": g_directory,
    "Content": g_content, "SkippedContent": g_skipped, "MetadataAuthority": g_authority, "MetadataFetcher": g_fetcher,
    "CoreSWHID": g_core_swhid, "ExtendedSWHID": g_ext_swhid, "QualifiedSWHID": g_qualified,
    "RawExtrinsicMetadata": g_rem, "ExtID": g_extid,
}
HASHABLE_PARAM = {"OriginVisitStatus", "Snapshot", "Release", "Revision", "MetadataAuthority", "MetadataFetcher"}
NOT_INSTANTIABLE = {"BaseContent"}      # abstract (checked in pre_checks)


def gen_obj(rng, cname, hashable=False):
    g = GENS[cname]
    spec = g(rng, True) if hashable and cname in HASHABLE_PARAM else g(rng)
    if _SPLICE[0] and not builds(no_oneshot(spec)[2], cname):
        # a spliced literal made the arguments invalid (a key that means something, a refused value ...): the generators
        # only promise VALID arguments - draw again without the literal dictionary
        _SPLICE[0] = False
        try:
            spec = g(rng, True) if hashable and cname in HASHABLE_PARAM else g(rng)
        finally:
            _SPLICE[0] = True
    return spec


def fresh_value(rng, k):
    return rng.choice([["s", "new%d" % k], ["i", 1000 + k], ["b", bytes([k % 256, 1]).hex()], None, ["t", [["i", k]]]])


def container_steps(rng, spec, index, k0):
    """1..6 mutations of the kept container number `index` whose spec is `spec`"""
    steps = []
    if spec[0] == "ba":
        steps = [["app", index, ["i", 65 + k0 % 20]], ["pop", index], ["clear", index]]
        rng.shuffle(steps)
        return steps
    if spec[0] in ("ar", "mv"):         # element assignment (a bytearray with an exported memoryview cannot be resized)
        steps = [["idx", index, 0, ["i", 66 + k0 % 20]]] if spec[1] else []
        if spec[0] == "ar":
            steps.append(["app", index, ["i", 67]])
        return steps
    if spec[0] in ("d", "v", "mp"):
        keys = [k for k, _ in spec[1]]
        sample_key = keys[0] if keys else ["s", "a"]
        newkey = (["b", b"new-key".hex()] if sample_key[0] == "b" else ["i", 424242] if sample_key[0] == "i"
                  else ["s", "new-key"])
        steps.append(["set", index, newkey, fresh_value(rng, k0)])
        if keys:
            steps.append(["set", index, rng.choice(keys), fresh_value(rng, k0 + 1)])
            steps.append(["del", index, rng.choice(keys)])
        if rng.random() < 0.5:
            steps.append(["clear", index])
    else:
        steps.append(["app", index, ["t", [["b", "6b"], ["b", "76"]]]])
        if spec[1]:
            steps.append(["idx", index, rng.randrange(len(spec[1])), ["t", [["b", "6b32"], ["b", "7632"]]]])
            steps.append(["pop", index])
        if rng.random() < 0.5:
            steps.append(["clear", index])
    rng.shuffle(steps)
    return steps


def kept_specs(spec, out, top=True, path=()):
    """list (pre-order, as build() creates them) of (spec, depth) of the dict/list nodes"""
    if spec is None:
        return
    t = spec[0]
    if t in ("l", "t", "g", "z"):
        if t == "l":
            out.append((spec, path))
        for x in spec[1]:
            kept_specs(x, out, False, path + (t,))
    elif t in ("ba", "ar", "mv"):
        out.append((spec, path))
    elif t == "sq":
        out.append((spec, path))
        for x in spec[1]:
            kept_specs(x, out, False, path + (t,))
    elif t in ("d", "I", "v", "mp"):
        if t in ("d", "v", "mp"):
            out.append((spec, path))
        for k, v in spec[1]:
            kept_specs(v, out, False, path + (t,))
    elif t == "o":
        for f, v in spec[2]:
            kept_specs(v, out, False, path + ("o",))


MAPPING_FIELDS = ("metadata", "branches")


def read_steps(fld, items, cname, k0=0):
    """read-only probes of a frozen mapping (the object itself when fld is None, else its field fld)"""
    keys = [k for k, _ in items]
    as_bytes = fld == "branches" or (keys and keys[0][0] == "b")

    def miss(i):
        if keys and keys[0][0] == "i":
            return ["i", 10 ** 6 + k0 + i]
        return ["b", ("missing-%d" % (k0 + i)).encode().hex()] if as_bytes else ["s", "missing-%d" % (k0 + i)]
    steps = [["read", fld, "contains", miss(0)], ["read", fld, "get", miss(1)], ["read", fld, "getitem", miss(2)],
             ["read", fld, "iter", None], ["read", fld, "len", None], ["read", fld, "items", None]]
    if keys:
        steps += [["read", fld, "getitem", keys[0]], ["read", fld, "contains", keys[-1]], ["read", fld, "get", keys[0]]]
    if cname == "Snapshot":
        # what snapshot_git_object does for every alias: `target in snapshot.branches` (often a missing branch)
        for _, v in items:
            if v is not None and v[0] == "o" and v[2][1][1][2] == "ALIAS":
                steps.append(["read", fld, "contains", v[2][0][1]])
        steps.append(["read", None, "manifest", None])
    steps += [["read", None, "todict", None], ["read", None, "hash", None], ["read", None, "eq", None],
              ["read", fld, "contains", miss(0)]]
    return steps


_ACCESSORS = {}


def accessors_of(cname):
    """every public accessor found by inspection: attrs fields, properties, public methods callable without argument
    (to_dict, qualifiers, hashes, unique_key, swhid, items / keys / values, ...).  [(name, "attr"|"prop"|"call")]"""
    import inspect
    if cname in _ACCESSORS:
        return _ACCESSORS[cname]
    acc = []
    try:
        import attr
        classes, ImmutableDict = _classes()
        cls = ImmutableDict if cname == "ImmutableDict" else classes[cname]
        if attr.has(cls):
            acc += [(a.name, "attr") for a in attr.fields(cls)]
        for n in sorted(dir(cls)):
            if n.startswith("_") or any(n == x for x, _ in acc):
                continue
            a = inspect.getattr_static(cls, n)
            if isinstance(a, property):
                acc.append((n, "prop"))
            elif isinstance(a, (classmethod, staticmethod)) or isinstance(a, type):
                continue
            elif callable(a):
                # plain functions, but also wrapped ones (functools.lru_cache / cached decorators, partials ...)
                try:
                    ps = list(inspect.signature(a).parameters.values())[1:]
                    ok = all(q.default is not q.empty or q.kind in (q.VAR_POSITIONAL, q.VAR_KEYWORD) for q in ps)
                except (TypeError, ValueError):
                    ok = True           # no signature: try it, the call is made under try/except
                if ok:
                    acc.append((n, "call"))
            elif not isinstance(a, (str, bytes, int, float, bool, type(None), enum.Enum)) and hasattr(a, "__get__"):
                acc.append((n, "prop"))     # any other descriptor (cached_property, ...)
    except Exception:
        acc = [("to_dict", "call")]
    _ACCESSORS[cname] = acc
    return acc


def accessor_case(rng, cname, route):
    """channel `returned-container`: take what every public accessor hands out, mutate it deeply, observe again.
    The objects have no mutable container nested in their mapping arguments (those would be handed out by to_dict()
    as they are: the shallow reading recorded in DESIGN section 7)."""
    if cname == "ImmutableDict":
        items = rmeta_items(rng, hashable=True)
        c = {"kind": "script", "cls": cname, "route": "ctor", "args": [["data", [rng.choice(["d", "I"]), items]]],
             "steps": [], "nested_shared": []}
    else:
        spec = gen_obj(rng, cname, hashable=True)
        if route == "fromdict":
            c = fromdict_case(rng, cname, spec, nested_ok=False)
            if c is None or c["route"] != "fromdict":
                return None
            # to_dict() turns tuples into lists for from_dict: keep the metadata values flat (see docstring)
            d0 = c["args"][0]
            popped = legacy_revision(cname, [[k[1], v] for k, v in d0[1]])      # only then is the key moved out
            d0[1][:] = [[k, ([v[0], [[kk, (["s", "flat"] if vv is not None and vv[0] in ("l", "d") and not (popped and kk == ["s", "extra_headers"]) else vv)] for kk, vv in v[1]]] + v[2:]
                             if k[1] == "metadata" and v is not None and v[0] == "d" else v)] for k, v in d0[1]]
            c = dict(c, steps=[], nested_shared=[])
        else:
            c = {"kind": "script", "cls": cname, "route": "ctor", "args": spec[2], "steps": [], "nested_shared": []}
    c["steps"] = [["ret", n, k] for n, k in accessors_of(cname)]
    return c


def legacy_revision(cname, fields):
    """Revision given in the legacy encoding: extra_headers inside a non-empty metadata, none given explicitly
    (__attrs_post_init__ then moves them out through copy_pop: a DEEP copy of the metadata)"""
    if cname != "Revision":
        return False
    d = dict((f, v) for f, v in fields)
    meta, xh = d.get("metadata"), d.get("extra_headers")
    return bool(meta is not None and meta[0] in ("d", "I") and any(k == ["s", "extra_headers"] for k, _ in meta[1])
                and (xh is None or not xh[1]))


def script_case(rng, cname, objspec, route):
    """script over the top-level arguments of objspec = ["o", cname, fields]"""
    fields = objspec[2]
    steps = []
    for f, _ in fields:
        steps.append(["setattr", f])
        steps.append(["delattr", f])
    steps.append(["setattr", "no_such_attribute"])
    steps.append(["setitem", ["s", "a"]])
    steps.append(["delitem", ["s", "a"]])
    steps.append(["reach"])          # the same attempts on every value object reached THROUGH the object's containers
    steps.append(["evolve"])
    reads = []
    for f, v in fields:
        if f in MAPPING_FIELDS and v is not None and v[0] in ("d", "I"):
            reads += read_steps(f, v[1], cname)
    steps += reads
    # kept containers, numbered as build() creates them over the argument list
    kept = []
    owner = {}
    for f, v in fields:
        before = len(kept)
        kept_specs(v, kept)
        for j in range(before, len(kept)):
            owner[j] = f
    # the argument objects themselves, then the containers NESTED in them (depth 2-3).  A container nested in a
    # mapping argument that is frozen by a SHALLOW copy (freeze_optional_dict / ImmutableDict(d)) stays shared with the
    # object - the recorded reading of DESIGN section 7, C11_nested_shared_example: those mutations come last, are
    # compared with the model (which says "changed") and are not required to leave the object alone.  Everything else
    # (Revision in the legacy encoding: deep copy; extra_headers given as list of lists) must not move.
    legacy = legacy_revision(cname, fields)
    shared = [i for i, (sp, path) in enumerate(kept)
              if path != () and (owner[i] in MAPPING_FIELDS or cname == "ImmutableDict") and not legacy]
    k = 0
    late = []
    for i, (sp, path) in enumerate(kept):
        st = container_steps(rng, sp, i, k)
        if path != ():
            st = st[:2]
        if i in shared:
            late += st[:1]
        else:
            steps += st
        k += 7
    steps += reads[:3]
    steps += late
    return {"kind": "script", "cls": cname, "route": route, "args": fields, "steps": steps, "nested_shared": shared}


def to_spec(v, mutable=True):
    """a to_dict() result -> spec with dicts/lists as kept containers (from_dict input)"""
    import attr
    _, ImmutableDict = _classes()
    if v is None:
        return None
    if isinstance(v, bool):
        return ["B", v]
    if isinstance(v, bytes):
        return ["b", v.hex()]
    if isinstance(v, str):
        return ["s", v]
    if isinstance(v, int):
        return ["i", v]
    if isinstance(v, float):
        return ["f", repr(v)]
    if isinstance(v, enum.Enum):
        return ["e", type(v).__name__, v.name]
    if isinstance(v, datetime.datetime):
        return ["dt", v.isoformat()]
    if isinstance(v, (dict, ImmutableDict)):
        return ["d", [[to_spec(k), to_spec(x)] for k, x in v.items()]]
    if isinstance(v, (list, tuple)):
        return ["l", [to_spec(x) for x in v]]
    if attr.has(type(v)):       # a SWHID object left in a dictionary
        return ["s", str(v)]
    raise ValueError(repr(v))


def fromdict_case(rng, cname, objspec, nested_ok=True):
    """from_dict(d) with d = to_dict() of a generated object, every container mutable and kept;
    mutated afterwards: d itself, the containers directly under it, and the containers nested deeper (depth 2-3)"""
    try:
        obj = build(objspec, [], None, True)          # from plain dicts: only to obtain the dictionary form
        if not hasattr(obj, "to_dict") or not hasattr(type(obj), "from_dict"):
            return None
        dspec = to_spec(obj.to_dict())
    except Exception:
        # the library refuses (or crashes on) arguments the generator considers valid: not a generation-time matter -
        # hand the very arguments to impl()/oracle as a constructor case
        return {"kind": "script", "cls": cname, "route": "ctor", "args": objspec[2], "steps": [], "nested_shared": []}
    if cname == "Revision" and rng.random() < 0.4:
        # the legacy encoding: extra_headers inside metadata, none given explicitly
        d = dict((k[1], v) for k, v in dspec[1])
        xh = d.get("extra_headers")
        if xh is not None and xh[1] and (d.get("metadata") is None or d["metadata"][0] == "d"):
            meta_items = list(d["metadata"][1]) if d.get("metadata") is not None else []
            if not any(k == ["s", "extra_headers"] for k, _ in meta_items):
                meta_items.append([["s", "extra_headers"], xh])
                if nested_ok and rng.random() < 0.7:
                    meta_items.append([["s", "nested"], ["l", [["d", [[["s", "deep"], ["l", [["i", 1]]]]]], ["i", 2]]]])
                rng.shuffle(meta_items)
                dspec[1][:] = [[k, (["d", meta_items] if k[1] == "metadata" else ["l", []] if k[1] == "extra_headers" else v)]
                               for k, v in dspec[1]]
                if "metadata" not in d:
                    dspec[1].append([["s", "metadata"], ["d", meta_items]])
    if rng.random() < 0.5:
        dspec[1].reverse()
    dspec = subify(rng, dspec, 0.3, copy_ok=False)
    dspec[1][:] = [[k, (subify(rng, v, 0.4) if v is not None and v[0] == "d" else v)] for k, v in dspec[1]]
    kept = [(dspec, ())]
    root = {0: None}
    for key, v in dspec[1]:
        before = len(kept)
        kept_specs(v, kept, False, ("d",))
        for j in range(before, len(kept)):
            root[j] = key[1]
    steps, k = [], 0
    reads = []
    for key, v in dspec[1]:
        if key[1] in MAPPING_FIELDS and v is not None and v[0] == "d":
            reads += read_steps(key[1], [], None)
            if cname == "Snapshot":
                reads.append(["read", None, "manifest", None])
    steps += reads
    legacy = legacy_revision(cname, [[key[1], v] for key, v in dspec[1]])
    # nested in the metadata dictionary (frozen by a shallow copy): shared, see script_case; nested anywhere else
    # (author / date / entries / branches / parents / extra_headers ..., and metadata in the legacy encoding): converted
    shared = [i for i, (sp, path) in enumerate(kept) if len(path) >= 2 and root[i] == "metadata" and not legacy]
    late = []
    for i, (sp, path) in enumerate(kept):
        st = container_steps(rng, sp, i, k)
        if len(path) >= 2:
            st = st[:2]
        if i in shared:
            late += st[:1]
        else:
            steps += st
        k += 7
    steps += reads[:3]
    steps += late
    return {"kind": "script", "cls": cname, "route": "fromdict", "args": [dspec], "steps": steps, "nested_shared": shared}


def idict_case(rng):
    items = rmeta_items(rng, hashable=rng.random() < 0.7)
    if rng.random() < 0.15:         # int keys (1 / True / 1.0 are one key)
        items = [[["i", 3 * i + rng.randrange(3)], v] for i, (_, v) in enumerate(items)]
    r = rng.random()
    if r < 0.4:
        arg = subify(rng, ["d", items], 0.6)
    elif r < 0.5:
        arg = ["l", [["t", [k, v]] for k, v in items]]
    elif r < 0.55:
        arg = ["l", [["l", [k, v]] for k, v in items]]      # pairs given as 2-element lists
    elif r < 0.62:
        arg = ["g", [["t", [k, v]] for k, v in items]]      # a one-shot generator
    elif r < 0.68:
        arg = ["z", [["t", [k, v]] for k, v in items]]      # zip(keys, values)
    elif r < 0.76:
        arg = subify(rng, ["v", items], 0.3)                # d.items() of a dict the caller keeps
    elif r < 0.8:
        arg, items = ["noarg"], []                          # ImmutableDict(): the default-argument object
    elif r < 0.93:
        arg = ["I", items]          # ImmutableDict(idict): shares the cell of an already frozen mapping
    else:
        arg = ["t", [["t", [k, v]] for k, v in items]]
    steps = [["setitem", ["s", "a"]], ["delitem", ["s", "a"]], ["setattr", "data"], ["delattr", "data"]]
    for k, _ in items[:2]:
        steps += [["setitem", k], ["delitem", k]]
    steps += read_steps(None, items, "ImmutableDict")
    # copy_pop with present and absent keys; the receiver (and the mapping it was built from) is observed again
    for k, _ in items[:3]:
        steps.append(["copy_pop", k])
    steps.append(["copy_pop", ["s", "no-such-key"]])
    if items:
        steps.append(["copy_pop", items[-1][0]])
    steps.append(["reach"])
    if arg[0] in ("d", "l", "v"):
        steps += container_steps(rng, arg, 0, 0)
        if items:
            steps.append(["copy_pop", items[0][0]])
    kept = []
    kept_specs(arg, kept)
    # nested in the argument: shallow copy, shared - except the 2-element lists that only carry a (key, value) pair
    shared = [i for i, (sp, path) in enumerate(kept) if path != () and not (arg[0] == "l" and path == ("l",) and sp[0] == "l")]
    for i, (sp, path) in enumerate(kept):
        if arg[0] == "l" and path == ("l",) and sp[0] == "l":
            steps += container_steps(rng, sp, i, 30 + 7 * i)[:1]
    for i in shared:
        steps += container_steps(rng, kept[i][0], i, 50 + 7 * i)[:1]
    return {"kind": "script", "cls": "ImmutableDict", "route": "ctor", "args": [["data", arg]], "steps": steps,
            "nested_shared": shared}


def eq_flags(cname):
    import attr
    classes, _ = _classes()
    return {a.name: bool(a.eq) for a in attr.fields(classes[cname])}


def builds(spec_fields, cname):
    try:
        classes, ImmutableDict = _classes()
        kept = []
        if cname == "ImmutableDict":
            ImmutableDict(build(spec_fields[0][1], kept))
        else:
            classes[cname](**{f: build(v, kept) for f, v in spec_fields})
        return True
    except Exception:
        return False


def permute_dicts(rng, spec):
    if spec is None:
        return spec
    t = spec[0]
    if t in ("d", "I"):
        items = [[k, permute_dicts(rng, v)] for k, v in spec[1]]
        rng.shuffle(items)
        return [t, items]
    if t in ("t", "l"):
        return [t, [permute_dicts(rng, x) for x in spec[1]]]
    return spec


def json_key(k):
    import json
    return json.dumps(k)


def rich_value(rng, depth=0):
    """values with spelling freedom: numbers, nested lists / tuples / dicts of numbers"""
    r = rng.random()
    if depth >= 2 or r < 0.35:
        return rng.choice([["i", 0], ["i", 1], ["B", True], ["B", False], ["f", "0.0"], ["f", "-0.0"], ["f", "1.0"],
                           ["i", 2], ["f", "2.0"], ["f", "2.5"], ["i", -3], ["s", "x"], None])
    if r < 0.55:
        return ["l", [rich_value(rng, depth + 1) for _ in range(rng.choice([1, 2, 3]))]]
    if r < 0.7:
        return ["t", [rich_value(rng, depth + 1) for _ in range(rng.choice([1, 2]))]]
    return ["d", [[["s", "n%d" % i], rich_value(rng, depth + 1)] for i in range(rng.choice([2, 3]))]]


def rich_items(rng):
    fixed = [[["s", "a"], ["l", [["i", 0], ["B", False]]]],
             [["s", "nested"], ["d", [[["s", "x"], ["i", 1]], [["s", "y"], ["l", [["i", 1]]]]]]],
             [["s", "t"], ["t", [["i", 1]]]]]
    items = [it for it in fixed if rng.random() < 0.6]
    items += [[["s", "r%d" % i], rich_value(rng)] for i in range(rng.choice([1, 2, 3]))]
    rng.shuffle(items)
    return items


def respell(rng, spec, top=True):
    """an == value spelled differently: numbers of another type, nested dicts in another key order"""
    if spec is None:
        return None
    t = spec[0]
    if t in ("i", "B", "f"):
        v = build(spec, [])
        alts = [["f", repr(float(v))]]
        if v == int(v):
            alts.append(["i", int(v)])
            if int(v) in (0, 1):
                alts.append(["B", bool(v)])
            if v == 0:
                alts += [["f", "-0.0"], ["f", "0.0"]]
        return rng.choice(alts)
    if t in ("l", "t"):
        return [t, [respell(rng, x, False) for x in spec[1]]]
    if t in ("d", "I"):
        items = [[k, respell(rng, v, False)] for k, v in spec[1]]
        rng.shuffle(items)
        if len(items) > 1 and [k for k, _ in items] == [k for k, _ in spec[1]]:
            items.reverse()
        return [t, items]
    return spec


def spelled_cases(rng, cname):
    """twins 'equal-but-differently-spelled': == in Python, not identical in spelling"""
    out = []
    if cname == "ImmutableDict":
        items = rich_items(rng)
        a1 = [["data", [rng.choice(["d", "I"]), items]]]
        a2 = [["data", respell(rng, [rng.choice(["d", "I"]), items])]]
        if rng.random() < 0.4:      # numeric keys: 1 / True / 1.0 and 0 / False / 0.0 / -0.0 are one key each
            ks = rng.sample([0, 1, 2, 3, 7], rng.choice([1, 2, 3, 4]))
            hashable = rng.random() < 0.7       # hashable values: the hashes themselves are compared
            vals = [(rng.choice([["i", 1], ["s", "x"], ["t", [["i", 0], ["B", True]]], None, ["f", "2.5"]]) if hashable
                     else rich_value(rng)) for _ in ks]
            it1 = [[["i", k], v] for k, v in zip(ks, vals)]
            it2 = [[respell(rng, ["i", k]), respell(rng, v, False)] for k, v in zip(ks, vals)]
            rng.shuffle(it2)
            a1, a2 = [["data", [rng.choice(["d", "I"]), it1]]], [["data", [rng.choice(["d", "I"]), it2]]]
        out.append({"kind": "twins", "cls": cname, "variation": "equal-but-differently-spelled", "args1": a1, "args2": a2})
        return out
    a = gen_obj(rng, cname, hashable=True)
    names = [f for f, _ in a[2]]
    if "metadata" in names and cname != "RawExtrinsicMetadata":
        items = rich_items(rng)
        args1 = [[f, ([rng.choice(["d", "I"]), items] if f == "metadata" else v)] for f, v in a[2]]
        args2 = [[f, (respell(rng, [rng.choice(["d", "I"]), items]) if f == "metadata" else v)] for f, v in a[2]]
    elif "branches" in names:
        args1 = a[2]
        args2 = [[f, (respell(rng, v) if f == "branches" else v)] for f, v in a[2]]
    else:
        return out
    if builds(args1, cname) and builds(args2, cname):
        out.append({"kind": "twins", "cls": cname, "variation": "equal-but-differently-spelled", "args1": args1, "args2": args2})
    return out


UNCHECKED_FIELDS = {("Directory", "raw_manifest"), ("Release", "raw_manifest"), ("Revision", "raw_manifest"),
                    ("Content", "get_data")}       # no validator, no converter: whatever is given is kept (recorded)


def illtyped_cases(rng, cname):
    """a MUTABLE container where the field's type is an immutable one: a list for a tuple-typed field, a bytearray for a
    bytes-typed one.  /repo refuses them (nothing is built); should a validator be loosened, the caller mutates the
    container afterwards and the object must not move."""
    out = []
    spec = gen_obj(rng, cname, hashable=True)
    cands = [(i, f, v) for i, (f, v) in enumerate(spec[2])
             if v is not None and v[0] in ("t", "b") and (cname, f) not in UNCHECKED_FIELDS and f != "extra_headers"
             # QualifiedSWHID.path has a converter that turns any bytes-like that is not `bytes` into fresh bytes
             # (urllib.parse.unquote_to_bytes): a bytearray is accepted and COPIED there
             and (cname, f) != ("QualifiedSWHID", "path")]
    rng.shuffle(cands)
    cands = [x for x in cands if x[2][0] == "t"] + [x for x in cands if x[2][0] == "b"][:1]     # every tuple-typed field, one bytes field
    for i, f, v in cands:
        bad = ["l", v[1]] if v[0] == "t" else ["ba", v[1]]
        fields = [[g, (bad if j == i else x)] for j, (g, x) in enumerate(spec[2])]
        fields = [[g, (["b", "11" * 20] if g == "id" and x == ["b", ""] else x)] for g, x in fields]   # no compute_hash on it
        steps = container_steps(rng, bad, 0, 3) + [["reach"]]
        kept = []
        for g, x in fields:
            kept_specs(x, kept)
        idx = [k for k, (sp, _) in enumerate(kept) if sp is bad][0]
        steps = [[st[0], idx] + st[2:] if st[0] in CALLER_OPS else st for st in steps]
        out.append({"kind": "script", "cls": cname, "route": "ctor", "args": fields, "steps": steps, "nested_shared": [],
                    "illtyped": f})
    return out


VIEW_KEYS_STR = ["a", "key", "z", "extra", "alpha", "k-one", "é"]       # never 2 characters: see ASSUMPTIONS
VIEW_KEYS_BYTES = [b"HEAD", b"refs/heads/main", b"a", b"zzz", b"\xff"]


def view_items(rng, as_bytes=False, branches=False):
    n = rng.choice([0, 1, 2, 3])
    keys = rng.sample(VIEW_KEYS_BYTES if as_bytes else VIEW_KEYS_STR, n)
    items = []
    for k in keys:
        if branches:
            v = None if rng.random() < 0.2 else g_branch(rng)
        else:
            v = rmeta_value(rng)
            while v is not None and v[0] in ("l", "d"):
                v = rmeta_value(rng)
        items.append([["b", k.hex()] if as_bytes else ["s", k], v])
    return items


def foreign_container_cases(rng, cname):
    """read-only VIEWS and other Mapping / Sequence / buffer implementations where a mapping, a tuple or bytes is accepted:
    types.MappingProxyType, UserDict, ChainMap, a custom Mapping, a Mapping over an items() view, an ImmutableDict built
    from one of these; a custom Sequence, array.array, memoryview.  All of them are views of a container the caller keeps
    and mutates afterwards.  Whatever the library does with them: EITHER it refuses the argument, OR the object built is
    immune to those mutations and equal to the twin built from the equal plain dict / tuple / bytes.  Evaluated on the
    implementation only (the model knows dicts, lists and ImmutableDicts)."""
    out = []

    def case(fields, route="ctor"):
        kept = []
        for _, v in (fields if route == "ctor" else [[None, fields[0]]]):
            kept_specs(v, kept)
        steps = []
        for i, (sp, path) in enumerate(kept):
            if sp[0] in ("mp", "sq", "ar", "mv") or (route == "fromdict" and path in ((), ("mp",))):
                steps += container_steps(rng, sp, i, 5 * i)
        steps.append(["reach"])
        for i, (sp, path) in enumerate(kept):
            if sp[0] in ("mp", "sq", "ar", "mv"):
                steps += container_steps(rng, sp, i, 5 * i + 2)[:1]
        return {"kind": "script", "cls": cname, "route": route, "args": fields, "steps": steps, "nested_shared": [],
                "impl_only": True, "foreign": True}

    if cname == "ImmutableDict":
        for kind in rng.sample(MAPPING_VIEWS, 3):
            out.append(case([["data", ["mp", view_items(rng, as_bytes=rng.random() < 0.3), kind]]]))
        return out
    spec = no_oneshot(gen_obj(rng, cname, hashable=True))
    fields = [[f, (["b", "11" * 20] if f == "id" and v == ["b", ""] else v)] for f, v in spec[2]]
    for i, (f, v) in enumerate(fields):
        if f in MAPPING_FIELDS:
            for kind in rng.sample(MAPPING_VIEWS, 2):
                mp = ["mp", view_items(rng, as_bytes=(f == "branches"), branches=(f == "branches")), kind]
                out.append(case([[g, (mp if j == i else x)] for j, (g, x) in enumerate(fields)]))
        elif f == "extra_headers":
            sq = ["sq", [["t", [rb(rng, 2), rb(rng, 3)]] for _ in range(rng.choice([0, 1, 2]))], "seq"]
            out.append(case([[g, (sq if j == i else x)] for j, (g, x) in enumerate(fields)]))
        elif v is not None and v[0] == "t" and (cname, f) not in UNCHECKED_FIELDS and rng.random() < 0.7:
            out.append(case([[g, (["sq", v[1], "seq"] if j == i else x)] for j, (g, x) in enumerate(fields)]))
    bfields = [(i, f, v) for i, (f, v) in enumerate(fields) if v is not None and v[0] == "b" and v[1]
               and (cname, f) not in UNCHECKED_FIELDS and f != "id"]
    if bfields:
        i, f, v = rng.choice(bfields)
        node = [rng.choice(["ar", "mv"]), v[1]]
        out.append(case([[g, (node if j == i else x)] for j, (g, x) in enumerate(fields)]))
    # from_dict given a Mapping that is not a dict
    if rng.random() < 0.5:
        fd = fromdict_case(rng, cname, spec, nested_ok=False)
        if fd is not None and fd["route"] == "fromdict":
            d0 = fd["args"][0]
            kind = rng.choice(["proxy", "userdict", "romap", "chainmap"])
            out.append(case([["mp", d0[1], kind]], "fromdict"))
    return out


def colliding_key_groups():
    """groups of DISTINCT keys that cannot be ordered with `<` among themselves and (checked here, under this run's hash
    seed) have EQUAL hashes: "" / b"" / 0, a str and the bytes of the same ASCII text, tuples of those; plus -1 / -2 (equal
    hashes, orderable: mixed with a str they make sorted() fail) and a few str / bytes pairs found by search"""
    groups = [[["s", ""], ["b", ""], ["i", 0]],
              [["s", "a"], ["b", b"a".hex()]], [["s", "key"], ["b", b"key".hex()]], [["s", "HEAD"], ["b", b"HEAD".hex()]],
              [["t", [["s", ""]]], ["t", [["b", ""]]], ["t", [["i", 0]]]],
              [["t", [["s", "a"], ["i", 1]]], ["t", [["b", b"a".hex()], ["B", True]]]],
              [["i", -1], ["i", -2], ["s", "z"]],
              [["fs", []], ["s", "f"], ["t", []]]]
    # str / bytes of equal hash found by search over small strings (in CPython the same ASCII text always collides)
    import itertools
    seen = {}
    for n in (1, 2):
        for tup in itertools.product("abcxyz01", repeat=n):
            w = "".join(tup)
            seen.setdefault(hash(w), []).append(["s", w])
            seen.setdefault(hash(w.encode()), []).append(["b", w.encode().hex()])
    for h, ks in sorted(seen.items())[:6]:
        if len(ks) >= 2 and len(set(k[0] for k in ks)) >= 2:
            groups.append(ks[:2])
    ok = []
    for g in groups:
        try:
            vals = [build(k, []) for k in g]
            if len(set(vals)) == len(vals):
                ok.append(g)
        except Exception:
            pass
    return ok


def unorderable_key_cases(rng):
    """equal frozen mappings whose keys cannot be sorted and collide in hash, in two insertion orders: both hashable with
    equal hashes, or TypeError on both (on /repo: TypeError on both)"""
    out = []
    groups = colliding_key_groups()
    g = list(rng.choice(groups))
    if rng.random() < 0.5:
        g += rng.choice(groups)
    keys = []
    for k in g:
        if all(build(k, []) != build(k0, []) for k0 in keys):
            keys.append(k)
    if rng.random() < 0.5:       # mixed with ordinary, orderable keys
        keys += [["s", "ordinary-%d" % i] for i in range(rng.choice([1, 2]))]
    vals = rng.sample([["i", 1], ["i", 2], ["s", "v"], ["b", "00"], None, ["t", [["i", 3]]], ["i", 7], ["s", "w"], ["f", "2.5"]],
                      len(keys))
    items = [[k, v] for k, v in zip(keys, vals)]
    other = items[::-1] if rng.random() < 0.5 else rng.sample(items, len(items))
    if other == items and len(items) > 1:
        other = items[::-1]
    k1, k2 = rng.choice(["d", "I"]), rng.choice(["d", "I"])
    out.append({"kind": "twins", "cls": "ImmutableDict", "variation": "unorderable-keys",
                "args1": [["data", [k1, items]]], "args2": [["data", [k2, other]]]})
    # ... and as a VALUE of a metadata mapping (the classes only accept str keys at the top level)
    cname = rng.choice(["MetadataAuthority", "MetadataFetcher", "Release", "OriginVisitStatus"])
    a = no_oneshot(gen_obj(rng, cname, hashable=True))
    m1 = ["d", [[["s", "inner"], ["I", items]], [["s", "n"], ["i", 1]]]]
    m2 = ["d", [[["s", "n"], ["i", 1]], [["s", "inner"], ["I", other]]]]
    args1 = [[f, (m1 if f == "metadata" else v)] for f, v in a[2]]
    args2 = [[f, (m2 if f == "metadata" else v)] for f, v in a[2]]
    if builds(args1, cname) and builds(args2, cname):
        out.append({"kind": "twins", "cls": cname, "variation": "unorderable-keys", "args1": args1, "args2": args2})
    return out


def swhid_spelling_cases(rng):
    """the SWHID converters accept several spellings of one value: enum member / its string value, CoreSWHID / its
    string, bytes path / percent-encoded str, (a, b) / "a-b".  Equal arguments, differently spelled -> equal objects"""
    out = []
    abbrev = {"CONTENT": "cnt", "DIRECTORY": "dir", "REVISION": "rev", "RELEASE": "rel", "SNAPSHOT": "snp",
              "ORIGIN": "ori", "RAW_EXTRINSIC_METADATA": "emd"}
    oid = rb(rng, 20)
    t = rng.choice(["CONTENT", "DIRECTORY", "REVISION", "RELEASE", "SNAPSHOT"])
    base = [["namespace", ["s", "swh"]], ["scheme_version", ["i", 1]], ["object_id", oid]]
    for cls, en in (("CoreSWHID", "ObjectType"), ("ExtendedSWHID", "ExtendedObjectType")):
        a1 = base + [["object_type", ["e", en, t]]]
        a2 = base + [["object_type", ["s", abbrev[t]]]]
        out.append({"kind": "twins", "cls": cls, "variation": "swhid-spelling", "args1": a1, "args2": a2})
    snp, anchor = rb(rng, 20), rb(rng, 20)
    at = rng.choice(["DIRECTORY", "REVISION", "RELEASE", "SNAPSHOT"])
    lo, hi = rng.randrange(1, 50), rng.randrange(50, 99)
    two = rng.random() < 0.5
    q1 = base + [["object_type", ["e", "ObjectType", t]], ["origin", ["s", "https://example.org/a"]],
                 ["visit", g_core_fixed(snp, "SNAPSHOT")], ["anchor", g_core_fixed(anchor, at)],
                 ["path", ["b", b"/a b/c;d".hex()]], ["lines", ["t", [["i", lo], ["i", hi] if two else None]]]]
    q2 = base + [["object_type", ["s", abbrev[t]]], ["origin", ["s", "https://example.org/a"]],
                 ["visit", ["s", "swh:1:snp:" + snp[1]]], ["anchor", ["s", "swh:1:%s:%s" % (abbrev[at], anchor[1])]],
                 ["path", ["s", "/a%20b/c%3Bd"]], ["lines", ["s", "%d-%d" % (lo, hi) if two else "%d" % lo]]]
    out.append({"kind": "twins", "cls": "QualifiedSWHID", "variation": "swhid-spelling", "args1": q1, "args2": q2})
    # the same fields in another SWHID class: whatever == says, equal objects must hash alike
    core = base + [["object_type", ["e", "ObjectType", t]]]
    ext = base + [["object_type", ["e", "ExtendedObjectType", t]]]
    qual = core + [["origin", None], ["visit", None], ["anchor", None], ["path", None], ["lines", None]]
    for (c1, x1), (c2, x2) in ((("CoreSWHID", core), ("ExtendedSWHID", ext)), (("CoreSWHID", core), ("QualifiedSWHID", qual)),
                               (("QualifiedSWHID", qual), ("ExtendedSWHID", ext))):
        out.append({"kind": "twins", "cls": c1, "cls2": c2, "variation": "cross-class", "args1": x1, "args2": x2})
    return out


def g_core_fixed(oid, t):
    return ["o", "CoreSWHID", [["namespace", ["s", "swh"]], ["scheme_version", ["i", 1]], ["object_id", oid],
                               ["object_type", ["e", "ObjectType", t]]]]


def unusual_value(rng, depth=0):
    r = rng.random()
    if r < 0.55 or depth >= 2:
        return [rng.choice(["nan", "nan", "dnan", "eqf", "eqt", "eqr"])]
    if r < 0.7:
        return ["l", [unusual_value(rng, depth + 1), ["i", 1]]]
    if r < 0.85:
        return ["t", [["s", "x"], unusual_value(rng, depth + 1)]]
    return ["d", [[["s", "in"], unusual_value(rng, depth + 1)]]]


def _has_spec(x, names):
    if isinstance(x, list):
        if x and isinstance(x[0], str) and x[0] in names and len(x) == 1:
            return True
        return any(_has_spec(y, names) for y in x)
    return False


def unusual_eq_cases(rng, cname):
    """values whose == is unusual inside a mapping (NaN, Decimal NaN, == always False / always True / raising), also nested.
    shared: ONE set of argument objects used for two constructions (dict == / tuple == find a value equal to ITSELF by
    identity: the two objects are equal); distinct: two separately built sets (a NaN is not equal to another NaN)."""
    out = []
    items = [[["s", "k%d" % i], unusual_value(rng)] for i in range(rng.choice([1, 2, 3]))]
    items += rmeta_items(rng, hashable=True)[:2]
    items = [it for i, it in enumerate(items) if all(it[0] != jt[0] for jt in items[:i])]
    rng.shuffle(items)
    if cname == "ImmutableDict":
        args = [["data", [rng.choice(["d", "I"]), items]]]
    else:
        a = gen_obj(rng, cname, hashable=True)
        if "metadata" not in [f for f, _ in a[2]]:
            return out
        args = [[f, ([rng.choice(["d", "I"]), items] if f == "metadata" else v)] for f, v in no_oneshot(a)[2]]
    if not builds(args, cname):
        return out
    out.append({"kind": "twins", "cls": cname, "variation": "unusual-eq-shared", "args1": args, "args2": args})
    if not _has_spec(args, ("eqr",)):       # two distinct objects whose == raises: comparing them raises, nothing to check
        out.append({"kind": "twins", "cls": cname, "variation": "unusual-eq-distinct", "args1": args, "args2": args})
    return out


def twins_cases(rng, cname):
    out = []
    a = gen_obj(rng, cname, hashable=rng.random() < 0.8)
    flags = eq_flags(cname)
    out.append({"kind": "twins", "cls": cname, "variation": "same", "args1": a[2], "args2": a[2]})
    # the SAME argument objects (in particular the same already-frozen mappings) used twice
    a2 = no_oneshot(gen_obj(rng, cname, hashable=rng.random() < 0.8))    # a one-shot iterator cannot be given twice
    out.append({"kind": "twins", "cls": cname, "variation": "same-objects", "args1": a2[2], "args2": a2[2]})
    b = gen_obj(rng, cname, hashable=True)
    # differs in the eq=False fields only
    noneq = [f for f, e in flags.items() if not e]
    if noneq:
        bd = dict((f, v) for f, v in b[2])
        args2 = [[f, (bd[f] if f in noneq else v)] for f, v in a[2]]
        if builds(args2, cname):
            out.append({"kind": "twins", "cls": cname, "variation": "noneq-fields", "args1": a[2], "args2": args2})
    # nested instance differing in its eq=False fields (Person.name / email inside Release / Revision)
    nested = [i for i, (f, v) in enumerate(a[2]) if v is not None and v[0] == "o" and v[1] == "Person"]
    if nested:
        i = rng.choice(nested)
        p = a[2][i][1]
        p2 = ["o", "Person", [[f, (v if f == "fullname" else opt(rng, rbytes))] for f, v in p[2]]]
        args2 = [[f, (p2 if j == i else v)] for j, (f, v) in enumerate(a[2])]
        out.append({"kind": "twins", "cls": cname, "variation": "nested-noneq", "args1": a[2], "args2": args2})
    # one eq field taken from another object
    eqf = [f for f, e in flags.items() if e and f != "id"]
    if eqf:
        f0 = rng.choice(eqf)
        bd = dict((f, v) for f, v in b[2])
        args2 = [[f, (bd[f] if f == f0 else v)] for f, v in a[2]]
        if builds(args2, cname):
            out.append({"kind": "twins", "cls": cname, "variation": "one-field", "args1": a[2], "args2": args2})
    # insertion order of every dict argument permuted; dict given as ImmutableDict
    args2 = [[f, permute_dicts(rng, v)] for f, v in a[2]]
    if args2 != a[2]:
        out.append({"kind": "twins", "cls": cname, "variation": "permuted", "args1": a[2], "args2": args2})
    args2 = [[f, (["I", v[1]] if v is not None and v[0] == "d" else v)] for f, v in a[2]]
    if args2 != a[2]:
        out.append({"kind": "twins", "cls": cname, "variation": "dict-vs-idict", "args1": a[2], "args2": args2})
    return out


def gen(rng, tier):
    classes, _ = _classes()
    n_obj = 20 if tier == "quick" else 500
    n_acc = 3 if tier == "quick" else 60
    cases = []
    names = sorted(classes)
    missing = [n for n in names if n not in GENS and n not in NOT_INSTANTIABLE]
    if missing:
        cases.append({"kind": "no-generator", "classes": missing})
    for cname in names:
        if cname not in GENS:
            continue
        for _ in range(n_obj):
            spec = gen_obj(rng, cname)
            cases.append(script_case(rng, cname, spec, "ctor"))
            fd = fromdict_case(rng, cname, gen_obj(rng, cname))
            if fd:
                cases.append(fd)
            cases += twins_cases(rng, cname)
            cases += spelled_cases(rng, cname)
        for _ in range(3 if tier == "quick" else 60):
            cases += unusual_eq_cases(rng, cname)
        for k in range(n_acc):
            ac = accessor_case(rng, cname, "fromdict" if k % 3 == 2 else "ctor")
            if ac:
                cases.append(ac)
        for _ in range(1 if tier == "quick" else 25):
            cases += illtyped_cases(rng, cname)
            cases += foreign_container_cases(rng, cname)
    for _ in range(n_acc * 2):
        cases.append(accessor_case(rng, "ImmutableDict", "ctor"))
    for _ in range(30 if tier == "quick" else 600):
        cases += unorderable_key_cases(rng)
    for _ in range(4 if tier == "quick" else 100):
        cases += swhid_spelling_cases(rng)
        cases += foreign_container_cases(rng, "ImmutableDict")
    if tier != "quick":         # large mappings: order independence of == and hash
        for n in (200, 1000, 3000):
            items = [[["s", "key-%05d-%s" % (i, "x" * (i % 7))], ["i", i]] for i in range(n)]
            perm = items[:]
            rng.shuffle(perm)
            cases.append({"kind": "twins", "cls": "ImmutableDict", "variation": "permuted",
                          "args1": [["data", ["d", items]]], "args2": [["data", ["d", perm]]]})
    for _ in range(n_obj * 3):
        cases.append(idict_case(rng))
        cases += spelled_cases(rng, "ImmutableDict")
        cases += unusual_eq_cases(rng, "ImmutableDict")
        items = rmeta_items(rng, hashable=rng.random() < 0.8)
        cases.append({"kind": "twins", "cls": "ImmutableDict", "variation": "same",
                      "args1": [["data", ["d", items]]], "args2": [["data", ["d", items]]]})
    # transport: every class, objects full of str / bytes (salted hashes); batches = one worker round trip each
    n_tr = 8 if tier == "quick" else 150
    specs = []
    for cname in names:
        if cname in GENS:
            specs += [gen_obj(rng, cname, hashable=rng.random() < 0.85) for _ in range(n_tr)]
    for _ in range(n_tr * 3):
        items = rmeta_items(rng, hashable=rng.random() < 0.85)
        while not items:
            items = rmeta_items(rng, hashable=True)
        specs.append({"cls": "ImmutableDict", "args": [["data", [rng.choice(["d", "I"]), items]]]})
    rng.shuffle(specs)
    batch = 60 if tier == "quick" else 200
    for i in range(0, len(specs), batch):
        cases.append(transport_case(rng, specs[i:i + batch]))
    # every permutation of <= 5 items
    for n in ([0, 1, 2, 3, 4, 5] if tier == "quick" else [0, 1, 2, 3, 4, 5, 5, 5, 5, 4, 4, 3]):
        items = []
        for i in range(n):
            v = rmeta_value(rng)
            while v is not None and v[0] in ("l", "d"):
                v = rmeta_value(rng)
            items.append([["s", "k%d" % i] if n % 2 else ["b", bytes([i, 255 - i]).hex()], v])
        cases.append({"kind": "perms", "items": items})
    return cases


# ------------------------------------------------------------------ classification
def _mutated_containers(c):
    return sum(1 for s in c.get("steps", []) if s[0] in ("set", "del", "clear", "app", "idx", "pop", "copy_pop", "read", "ret", "reach", "evolve"))


def nontrivial(c):
    if c["kind"] == "script":
        return _mutated_containers(c) >= 1
    if c["kind"] == "twins":
        return c["variation"] in ("noneq-fields", "nested-noneq", "permuted", "dict-vs-idict",
                                  "equal-but-differently-spelled", "unusual-eq-shared", "unusual-eq-distinct",
                                  "swhid-spelling", "unorderable-keys") or (
            c["variation"] == "same-objects" and any(v is not None and v[0] in ("I", "d") for _, v in c["args1"]))
    if c["kind"] == "perms":
        return len(c["items"]) >= 2
    if c["kind"] == "transport":
        return len(c["objects"]) >= 1
    return False


def _foreign_kinds(x):
    if isinstance(x, list):
        if x and x[0] == "mp" and len(x) == 3 and isinstance(x[2], str):
            yield "Mapping:" + x[2]
        elif x and x[0] in ("sq", "ar", "mv") and isinstance(x[0], str):
            yield {"sq": "custom Sequence", "ar": "array.array", "mv": "memoryview"}[x[0]]
        for y in x:
            yield from _foreign_kinds(y)


def _shapes(x):
    if isinstance(x, list):
        if x and isinstance(x[0], str) and len(x[0]) <= 5:
            yield x[0]
        for y in x:
            yield from _shapes(y)


def _subclasses(x):
    if isinstance(x, list):
        if len(x) == 3 and x[0] == "d" and isinstance(x[2], str) and x[2] in SUBCLASSES + COPY_SUBCLASSES:
            yield x[2]
        for y in x:
            yield from _subclasses(y)


def classify(c):
    ks = ["kind=" + c["kind"]]
    if c["kind"] == "script":
        ks.append("class=" + c["cls"])
        ks.append("route=" + c["route"])
        n = sum(1 for st in c["steps"] if st[0] in CALLER_OPS)
        ks.append("read-probes=%s" % ("0" if not any(st[0] == "read" for st in c["steps"]) else ">0"))
        ks.append("copy_pop-steps=%s" % ("0" if not any(st[0] == "copy_pop" for st in c["steps"]) else ">0"))
        ks.append("returned-container-probes=%s" % ("0" if not any(st[0] == "ret" for st in c["steps"]) else ">0"))
        ks.append("nested-container-mutations=%s" % ("0" if not c.get("nested_shared") else ">0 (shared by the shallow copy)"))
        subs = sorted(set(_subclasses(c["args"])))
        for sub in subs:
            ks.append("dict-subclass-arg=" + sub)
        ks.append("caller-mutations=" + ("0" if n == 0 else "1-3" if n <= 3 else ">3"))
        ks.append("attempts-on-object=%s" % ("0" if not any(s[0] in ("setattr", "delattr", "setitem", "delitem") for s in c["steps"]) else ">0"))
    elif c["kind"] == "twins":
        ks.append("class=" + c["cls"])
        ks.append("variation=" + c["variation"])
    if c["kind"] == "script":
        if c.get("illtyped"):
            ks.append("ill-typed mutable container argument (list for tuple / bytearray for bytes)")
        if c.get("foreign"):
            for t in sorted(set(_foreign_kinds(c["args"]))):
                ks.append("foreign-container=" + t)
        shapes = sorted(set(t for t in _shapes(c["args"]) if t in ("g", "z", "v", "noarg", "ba")))
        for t in shapes:
            ks.append("argument-shape=" + {"g": "generator", "z": "zip", "v": "dict.items() view", "noarg": "no argument",
                                           "ba": "bytearray"}[t])
    elif c["kind"] == "transport":
        for cname in sorted(set(o["cls"] for o in c["objects"])):
            ks.append("transported-class=" + cname)
        ks.append("transport=pickle0-5,copy,deepcopy,cross-process(other PYTHONHASHSEED)")
    return ks


# ------------------------------------------------------------------ implementation side
def _raises(f):
    try:
        f()
    except BaseException as e:           # noqa: any exception counts as "raises"
        return type(e).__name__
    return None


def _build_args(cname, route, fields, kept, frozen=None, plain=False):
    if cname == "ImmutableDict":
        return ("one", build(fields[0][1], kept, frozen, plain))
    if route == "fromdict":
        return ("one", build(fields[0], kept, frozen, plain))
    return ("kw", {f: build(v, kept, frozen, plain) for f, v in fields})


def _make(cname, route, built):
    classes, ImmutableDict = _classes()
    if cname == "ImmutableDict":
        return ImmutableDict() if built[1] is NOARG else ImmutableDict(built[1])
    if route == "fromdict":
        return classes[cname].from_dict(built[1])
    return classes[cname](**built[1])


def _construct(cname, route, fields, kept):
    return _make(cname, route, _build_args(cname, route, fields, kept))


def fsnap(x, copy):
    """observation of an already-frozen mapping the caller holds"""
    snap = {"content": render(x), "eq_copy": bool(x == copy) and bool(copy == x) and not (x != copy), "len": len(x)}
    try:
        snap["hash"] = hash(x)
        snap["as_key"] = ({copy: 1}.get(x) == 1) and (x in {copy})
    except TypeError:
        snap["hash"] = "U"
    return snap


def snapshot(obj, twin, same=None, frozen=(), copies=()):
    snap = {"content": render(obj)}
    try:
        snap["repr"] = repr(obj)
    except Exception as e:
        snap["repr"] = "raises " + type(e).__name__
    if hasattr(obj, "to_dict"):
        try:
            snap["to_dict"] = render(obj.to_dict())
        except Exception as e:
            snap["to_dict"] = "raises " + type(e).__name__
    try:
        snap["hash"] = hash(obj)
        snap["as_key"] = ({twin: 1}.get(obj) == 1) and (obj in {twin})
    except TypeError:
        snap["hash"] = "U"
    if hasattr(obj, "id"):
        snap["id"] = obj.id.hex() if isinstance(obj.id, bytes) else repr(obj.id)
    if hasattr(obj, "compute_hash"):
        try:
            snap["id_ok"] = obj.id == obj.compute_hash()
        except Exception as e:
            snap["id_ok"] = "raises " + type(e).__name__
    if hasattr(obj, "__str__") and type(obj).__name__.endswith("SWHID"):
        snap["str"] = str(obj)
    snap["eq_twin"] = bool(obj == twin) and bool(twin == obj) and not (obj != twin)
    if same is not None:
        snap["eq_same_args"] = bool(obj == same) and bool(same == obj) and not (obj != same)
    snap["frozen_args"] = [fsnap(x, cp) for x, cp in zip(frozen, copies)]
    return snap


MUTABLE = (dict, list, set, bytearray)


def _attrs_values(x):
    import attr
    if attr.has(type(x)) and not isinstance(x, type):
        out = []
        for a in attr.fields(type(x)):
            try:
                out.append(getattr(x, a.name))
            except Exception:
                pass
        return out
    return None


def _mutable_ids(x, out, depth=0):
    """ids of the mutable containers reachable in a returned value (through tuples, mappings and value objects)"""
    _, ImmutableDict = _classes()
    if depth > 8:
        return out
    av = _attrs_values(x)
    if av is not None:
        for v in av:
            _mutable_ids(v, out, depth + 1)
        return out
    if isinstance(x, MUTABLE):
        out[id(x)] = x
    if isinstance(x, dict) or isinstance(x, ImmutableDict):
        for v in x.values():
            _mutable_ids(v, out, depth + 1)
    elif isinstance(x, (list, tuple, set, frozenset)):
        for v in x:
            _mutable_ids(v, out, depth + 1)
    return out


def deep_mutate(x, depth=0):
    """pop / clear / append / nested edits of everything mutable in a returned value"""
    _, ImmutableDict = _classes()
    if depth > 8:
        return
    if isinstance(x, dict):
        for v in list(x.values()):
            deep_mutate(v, depth + 1)
        if x:
            x.pop(next(iter(x)))
        x["__c11_injected__"] = ["x"]
        for k in list(x):
            x[k] = None
        x.clear()
        x["__c11_left__"] = 1
    elif isinstance(x, list):
        for v in list(x):
            deep_mutate(v, depth + 1)
        x.append("__c11_injected__")
        if len(x) > 1:
            x[0] = None
            x.pop()
        x.clear()
        x.append("__c11_left__")
    elif isinstance(x, set):
        x.clear()
        x.add("__c11_left__")
    elif isinstance(x, bytearray):
        x[:] = b"c11"
    elif isinstance(x, ImmutableDict):
        for v in x.values():
            deep_mutate(v, depth + 1)
    elif isinstance(x, (tuple, frozenset)):
        for v in x:
            deep_mutate(v, depth + 1)
    else:
        av = _attrs_values(x)
        if av is not None:
            for v in av:
                deep_mutate(v, depth + 1)


MUTATOR_CALLS = [("update", ({"__c11__": 1},)), ("pop", ()), ("popitem", ()), ("clear", ()), ("setdefault", ("__c11__", 1)),
                 ("append", (1,)), ("extend", ([1],)), ("insert", (0, 1)), ("remove", (None,)), ("sort", ()), ("reverse", ()),
                 ("add", (1,)), ("discard", (1,)), ("__ior__", ({"__c11__": 1},)), ("__iadd__", ((1,),)), ("__imul__", (2,)),
                 ("__setitem__", (0, None)), ("__delitem__", (0,))]


def _value_nodes(x, path, out, depth=0):
    """every value object / frozen mapping / tuple reachable from x through its public structure"""
    _, ImmutableDict = _classes()
    if depth > 8 or isinstance(x, MUTABLE):          # mutable containers nested in metadata: the recorded shared reading
        return out
    av = _attrs_values(x)
    if av is not None:
        import attr
        out.append((path, x))
        for a, v in zip(attr.fields(type(x)), av):
            _value_nodes(v, path + "." + a.name, out, depth + 1)
    elif isinstance(x, ImmutableDict):
        out.append((path, x))
        for k, v in list(x.items()):
            _value_nodes(v, "%s[%r]" % (path, k), out, depth + 1)
    elif isinstance(x, (tuple, frozenset)):
        out.append((path, x))
        for i, v in enumerate(x):
            _value_nodes(v, "%s[%d]" % (path, i), out, depth + 1)
    return out


def reach_probe(obj):
    """setattr / delattr / undeclared attribute / __dict__ / item assignment / mutator methods on the object and on every
    value object, frozen mapping and tuple reached through its containers.  Returns the attempts that did NOT raise."""
    import attr
    _, ImmutableDict = _classes()
    bad = []
    nodes = _value_nodes(obj, "obj", [])
    for path, x in nodes:
        if attr.has(type(x)):
            for a in attr.fields(type(x)):
                if _raises(lambda: setattr(x, a.name, None)) is None:
                    bad.append("%s: setattr(%s) did not raise" % (path, a.name))
                if _raises(lambda: delattr(x, a.name)) is None:
                    bad.append("%s: delattr(%s) did not raise" % (path, a.name))
            if _raises(lambda: setattr(x, "c11_undeclared", 1)) is None:
                bad.append("%s: assigning an undeclared attribute did not raise" % path)
            if type(x).__module__ == "swh.model.model" and hasattr(x, "__dict__"):
                # the model classes are slotted: no instance __dict__ through which fields could be rebound
                # (the SWHID classes and ImmutableDict do have one on /repo: recorded, not probed)
                d = x.__dict__
                d["c11_via_dict"] = 1
                bad.append("%s: has an instance __dict__ (writable: %s)" % (path, "c11_via_dict" in vars(x)))
        if isinstance(x, ImmutableDict):
            key = next(iter(x), "k")
            if _raises(lambda: _item_set(x, key)) is None:
                bad.append("%s: item assignment did not raise" % path)
            if _raises(lambda: _item_del(x, key)) is None:
                bad.append("%s: item deletion did not raise" % path)
        for name, args in MUTATOR_CALLS:
            m = getattr(x, name, None)
            if m is not None and callable(m):
                if _raises(lambda: m(*args)) is None:
                    bad.append("%s: %s(...) exists and did not raise" % (path, name))
    return {"nodes": len(nodes), "not_raising": bad[:20]}


def evolve_probe(obj):
    """attr.evolve / .evolve() results: equal, immutable, sharing nothing mutable; a container given to evolve is copied"""
    import attr
    _, ImmutableDict = _classes()
    bad = []
    if not attr.has(type(obj)):
        return {"skipped": True}
    try:
        e = attr.evolve(obj)
    except Exception as ex:
        return {"evolve_raises": type(ex).__name__}
    bad += coherence_facts(e, obj, "attr.evolve(obj)")
    bad += immutability_facts(e, "attr.evolve(obj)")
    # lists / dicts nested in a metadata mapping are handed out by to_dict() as they are (recorded shared reading):
    # what the copies hand out is mutated only when the object holds none
    flat = not _mutable_ids(obj, {})
    if hasattr(obj, "evolve"):
        try:
            e2 = obj.evolve()
            bad += immutability_facts(e2, "obj.evolve()")
            if flat and hasattr(e2, "to_dict"):
                deep_mutate(e2.to_dict())
        except Exception:
            pass
    if flat and hasattr(e, "to_dict"):
        deep_mutate(e.to_dict())
    for f in MAPPING_FIELDS:
        m = getattr(obj, f, None)
        if isinstance(m, ImmutableDict):
            d = dict(m.items())
            try:
                e3 = attr.evolve(obj, **{f: d})
            except Exception as ex:
                bad.append("attr.evolve(obj, %s=dict(obj.%s)) raised %s" % (f, f, type(ex).__name__))
                continue
            before = render(e3)
            if not (e3 == obj):
                bad.append("attr.evolve(obj, %s=dict(obj.%s)) != obj" % (f, f))
            d["c11_injected"] = 1
            d.clear()
            if render(e3) != before:
                bad.append("mutating the dict given to attr.evolve(%s=...) changed the result" % f)
            if hasattr(obj, "evolve"):          # the classes' own evolve()
                d2 = dict(m.items())
                try:
                    e5 = obj.evolve(**{f: d2})
                    before5 = render(e5)
                    d2["c11_injected"] = 1
                    d2.clear()
                    if render(e5) != before5:
                        bad.append("mutating the dict given to obj.evolve(%s=...) changed the result" % f)
                    bad += immutability_facts(e5, "obj.evolve(%s=...)" % f)
                except Exception as ex:
                    bad.append("obj.evolve(%s=dict(obj.%s)) raised %s" % (f, f, type(ex).__name__))
    if isinstance(getattr(obj, "extra_headers", None), tuple):
        lst = [list(p) for p in obj.extra_headers]
        try:
            e4 = attr.evolve(obj, extra_headers=lst)
            before = render(e4)
            for p in lst:
                p[0] = b"c11"
            lst.append([b"k", b"v"])
            if render(e4) != before:
                bad.append("mutating the list given to attr.evolve(extra_headers=...) changed the result")
        except Exception as ex:
            bad.append("attr.evolve(obj, extra_headers=[...]) raised %s" % type(ex).__name__)
    return {"bad": bad[:12]}


def _accessor(o, name, kind):
    import collections.abc
    import types
    v = getattr(o, name)
    if kind == "call":
        v = v()
    _, ImmutableDict = _classes()
    # views / generators are materialised by the caller
    if isinstance(v, (types.GeneratorType, collections.abc.KeysView, collections.abc.ValuesView, collections.abc.ItemsView)) \
            or (isinstance(v, collections.abc.Iterator)):
        v = list(v)
    return v


def _render_ret(v):
    if isinstance(v, (set, frozenset)):
        return "S(" + ";".join(sorted(render(x) for x in v)) + ")"
    return render(v)


def returned_container_probe(obj, twin, name, kind):
    """facts about what the accessor hands out; {} when the accessor raises (nothing was handed out)"""
    try:
        r1 = _accessor(obj, name, kind)
        r2 = _accessor(obj, name, kind)
        rt = _accessor(twin, name, kind)
    except Exception as e:
        return {"accessor_raises": type(e).__name__}
    before, before_twin = _render_ret(r1), _render_ret(rt)
    m1, m2, mt = _mutable_ids(r1, {}), _mutable_ids(r2, {}), _mutable_ids(rt, {})
    facts = {"hands_out_mutable": bool(m1),
             "same_mutable_twice": bool(set(m1) & set(m2)),            # two successive calls share a mutable container
             "same_mutable_as_twin": bool(set(m1) & set(mt))}          # ... or share it with another (equal) object
    deep_mutate(r1)
    # value objects / frozen mappings handed out (swhid(), anonymize(), evolve(), fields ...) are immutable too
    handed = [x for _, x in _value_nodes(r1, name, []) if not isinstance(x, (tuple, frozenset))]
    soft = []
    for x in handed[:6]:
        soft += immutability_facts(x, "what %s returned" % name)
    if soft:
        facts["returned_object_mutable"] = soft[:4]
    try:
        facts["fresh_call_differs"] = _render_ret(_accessor(obj, name, kind)) != before
        facts["second_result_differs"] = _render_ret(r2) != before
        facts["twin_call_differs"] = _render_ret(_accessor(twin, name, kind)) != before_twin
    except Exception as e:
        facts["fresh_call_raises"] = type(e).__name__
    return facts


def impl_script(c):
    _, ImmutableDict = _classes()
    kept, kept2, frozen = [], [], []
    try:
        built = _build_args(c["cls"], c["route"], c["args"], kept, frozen)
        copies = [ImmutableDict(dict(x.items())) for x in frozen]
        frozen_before = [fsnap(x, cp) for x, cp in zip(frozen, copies)]
        obj = _make(c["cls"], c["route"], built)
    except Exception as e:
        res = {"error": "raises", "exc": core.exc_class(e), "msg": str(e)[:200]}
        try:        # the same arguments with every dict-subclass instance replaced by an equal plain dict
            _make(c["cls"], c["route"], _build_args(c["cls"], c["route"], c["args"], [], None, True))
            res["plain_twin_builds"] = True
        except Exception:
            res["plain_twin_builds"] = False
        return res
    oneshot = has_oneshot(c["args"])
    # the SAME argument objects, a second time (not when an argument is a one-shot iterator: it is used up)
    same = None if oneshot else _make(c["cls"], c["route"], built)
    positional_eq = None
    if not oneshot and c["route"] == "ctor" and built[0] == "kw":
        try:
            import attr
            cls_ = type(obj)
            if attr.has(cls_) and not any(a.kw_only for a in attr.fields(cls_)) and set(built[1]) == {a.name for a in attr.fields(cls_)}:
                pos = cls_(*[built[1][a.name] for a in attr.fields(cls_)])
                positional_eq = bool(pos == obj) and bool(obj == pos) and _hash_or_U(pos) == _hash_or_U(obj)
        except Exception as e:
            positional_eq = "raises " + type(e).__name__
    twin = _make(c["cls"], c["route"], _build_args(c["cls"], c["route"], c["args"], kept2, None, True))   # from equal PLAIN dicts
    snap0 = snapshot(obj, twin, same, frozen, copies)
    res = {"snap0": snap0, "steps": [], "positional_eq": positional_eq,
           "frozen_changed_by_construction": [i for i, (a, b) in enumerate(zip(frozen_before, snap0["frozen_args"])) if a != b]}
    snap = snap0
    prev = snap0
    for st in c["steps"]:
        op = st[0]
        raised = None
        extra = {}
        if op == "setattr":
            raised = _raises(lambda: setattr(obj, st[1], None))
        elif op == "delattr":
            raised = _raises(lambda: delattr(obj, st[1]))
        elif op == "setitem":
            key = build(st[1], [])
            raised = _raises(lambda: _item_set(obj, key))
        elif op == "delitem":
            key = build(st[1], [])
            raised = _raises(lambda: _item_del(obj, key))
        elif op == "read":
            m = obj if st[1] is None else getattr(obj, st[1])
            kind = st[2]
            key = build(st[3], []) if st[3] is not None else None
            try:
                if kind == "contains":
                    key in m
                elif kind == "get":
                    m.get(key)
                elif kind == "getitem":
                    try:
                        m[key]
                    except KeyError:
                        raised = "KeyError"
                elif kind == "iter":
                    list(m)
                elif kind == "len":
                    len(m)
                elif kind == "items":
                    dict(m.items())
                elif kind == "todict":
                    obj.to_dict() if hasattr(obj, "to_dict") else dict(obj.items())
                elif kind == "hash":
                    try:
                        hash(obj)
                    except TypeError:
                        pass
                elif kind == "eq":
                    obj == twin
                elif kind == "manifest":
                    from swh.model import git_objects
                    git_objects.snapshot_git_object(obj, ignore_unresolved=True)
            except Exception as e:
                raised = "unexpected " + type(e).__name__
        elif op == "ret":
            extra["ret"] = returned_container_probe(obj, twin, st[1], st[2])
        elif op == "reach":
            extra["reach"] = reach_probe(obj)
        elif op == "evolve":
            extra["evolve"] = evolve_probe(obj)
        elif op == "copy_pop":
            key = build(st[1], [])
            before = dict(obj.items())
            try:
                val, new = obj.copy_pop(key)
                extra["ret_ok"] = bool(isinstance(new, ImmutableDict) and val == before.get(key)
                                       and dict(new.items()) == {k: v for k, v in before.items() if k != key})
            except Exception as e:
                raised = type(e).__name__
        else:
            target = kept[st[1]]
            try:
                if op == "set":
                    target[build(st[2], [])] = build(st[3], [])
                elif op == "del":
                    del target[build(st[2], [])]
                elif op == "clear":
                    target.clear()
                elif op == "app":
                    target.append(build(st[2], []))
                elif op == "idx":
                    target[st[2]] = build(st[3], [])
                elif op == "pop":
                    target.pop()
            except (KeyError, IndexError, BufferError, TypeError, ValueError):
                pass
        try:
            snap = snapshot(obj, twin, same, frozen, copies)
        except Exception as e:
            # the step damaged the object so badly that it can no longer be observed (e.g. a deleted attribute):
            # that is a change of every observable; report it and stop the script here
            res["steps"].append(dict({"op": op, "raised": raised,
                                      "changed": ["<object can no longer be observed: %s>" % core.exc_class(e)]}, **extra))
            res["frozen_changed"] = [False] * len(frozen_before)
            res["damaged"] = True
            return res
        changed = sorted(k for k in set(snap) | set(snap0) if snap.get(k) != snap0.get(k))
        changed_prev = sorted(k for k in set(snap) | set(prev) if snap.get(k) != prev.get(k))
        prev = snap
        res["steps"].append(dict({"op": op, "raised": raised, "changed": changed, "changed_prev": changed_prev}, **extra))
    res["frozen_changed"] = [a != b for a, b in zip(frozen_before, snap["frozen_args"])]
    return res


def _item_set(obj, key):
    obj[key] = None


def _item_del(obj, key):
    del obj[key]


def impl_twins(c):
    try:
        if c["variation"] in ("same-objects", "unusual-eq-shared"):
            built = _build_args(c["cls"], "ctor", c["args1"], [], [])
            x = _make(c["cls"], "ctor", built)
            y = _make(c["cls"], "ctor", built)
        else:
            x = _construct(c["cls"], "ctor", c["args1"], [])
            y = _construct(c.get("cls2", c["cls"]), "ctor", c["args2"], [])
    except Exception as e:
        return {"error": "raises", "exc": core.exc_class(e), "msg": str(e)[:120]}
    try:
        res = {"eq12": bool(x == y), "eq21": bool(y == x), "ne12": bool(x != y)}
    except Exception as e:
        return {"compare_raises": "%s: %s" % (type(e).__name__, str(e)[:80])}
    for n, o in (("h1", x), ("h2", y)):
        try:
            res[n] = hash(o)
        except TypeError:
            res[n] = "U"
    if res["h1"] != "U" and res["h2"] != "U":
        res["dict_key"] = ({x: 1}.get(y) == 1)
        res["set_member"] = (y in {x})
        res["set_size"] = len({x, y})
    return res


def impl_perms(c):
    _, ImmutableDict = _classes()
    items = [(build(k, []), build(v, [])) for k, v in c["items"]]
    base = ImmutableDict(dict(items))
    res = {"n": 0, "all_eq": True, "all_hash_eq": True, "unhashable": False}
    try:
        hb = hash(base)
    except TypeError:
        hb = None
        res["unhashable"] = True
    for perm in itertools.permutations(items):
        for mk in (lambda p: ImmutableDict(dict(p)), lambda p: ImmutableDict(list(p))):
            d = mk(perm)
            res["n"] += 1
            if not (d == base and base == d):
                res["all_eq"] = False
            if hb is not None and hash(d) != hb:
                res["all_hash_eq"] = False
            if hb is not None and (d not in {base} or {base: 1}.get(d) != 1):
                res["all_hash_eq"] = False
    return res


def impl(c):
    if c["kind"] == "script":
        return impl_script(c)
    if c["kind"] == "twins":
        return impl_twins(c)
    if c["kind"] == "perms":
        return impl_perms(c)
    if c["kind"] == "transport":
        return impl_transport(c)
    return {"error": "a model class has no generator: " + ",".join(c.get("classes", []))}



# ------------------------------------------------------------------ transport: pickle / copy, in-process and cross-process
# C11 speaks of histories: an object that has been hashed (used as a set member), pickled / copied, and unpickled -
# possibly in ANOTHER process whose str/bytes hashes are salted differently - must still be equal to a twin built
# there from the same arguments, hash like it, be found in sets / dicts holding it, and be immutable.
WORKER_HASHSEED = "4242"
_WORKER = {"proc": None, "log": None, "error": None}


def _hash_or_U(x):
    try:
        return hash(x)
    except TypeError:
        return "U"


def _todict_or_none(x):
    if hasattr(x, "to_dict"):
        try:
            return render(x.to_dict())
        except Exception as e:
            return "raises " + type(e).__name__
    return None


def coherence_facts(x, ref, what, light=False):
    """x must behave as the same value as ref.  Returns the list of facts that fail (empty = fine).
    light: ==, hash, set / dict only (content, to_dict and id are compared against another reference)"""
    bad = []
    try:
        eq = bool(x == ref) and bool(ref == x) and not (x != ref)
    except Exception as e:
        return ["%s: == raised %s" % (what, type(e).__name__)]
    if not eq:
        bad.append(what + ": not equal")
    if not light:
        if render(x) != render(ref):
            bad.append(what + ": content differs")
        if _todict_or_none(x) != _todict_or_none(ref):
            bad.append(what + ": to_dict() differs")
        if getattr(x, "id", None) != getattr(ref, "id", None):
            bad.append(what + ": id differs")
    hx, hr = _hash_or_U(x), _hash_or_U(ref)
    if eq:
        if (hx == "U") != (hr == "U"):
            bad.append(what + ": equal, but one is hashable and the other is not")
        elif hx != "U":
            if hx != hr:
                bad.append(what + ": equal but hash differs")
            if x not in {ref} or ref not in {x} or len({x, ref}) != 1:
                bad.append(what + ": equal but not the same set member")
            if {ref: 1}.get(x) != 1 or {x: 1}.get(ref) != 1:
                bad.append(what + ": equal but not found as dict key")
    return bad


def immutability_facts(x, what):
    import attr
    bad = []
    if attr.has(type(x)):
        for a in attr.fields(type(x)):
            if _raises(lambda: setattr(x, a.name, None)) is None:
                bad.append("%s: setattr(%s) did not raise" % (what, a.name))
            if _raises(lambda: delattr(x, a.name)) is None:
                bad.append("%s: delattr(%s) did not raise" % (what, a.name))
    else:
        key = next(iter(x), "k")
        if _raises(lambda: _item_set(x, key)) is None:
            bad.append(what + ": item assignment did not raise")
        if _raises(lambda: _item_del(x, key)) is None:
            bad.append(what + ": item deletion did not raise")
    return bad


def _transports():
    import copy
    import pickle
    ts = [("pickle%d" % p, (lambda x, p=p: pickle.loads(pickle.dumps(x, protocol=p)))) for p in range(0, pickle.HIGHEST_PROTOCOL + 1)]
    ts += [("copy.copy", copy.copy), ("copy.deepcopy", copy.deepcopy)]
    return ts


def _frames_write(f, obj):
    import pickle
    import struct
    data = pickle.dumps(obj, protocol=4)
    f.write(struct.pack(">Q", len(data)))
    f.write(data)
    f.flush()


def _frames_read(f):
    import pickle
    import struct
    hdr = b""
    while len(hdr) < 8:
        chunk = f.read(8 - len(hdr))
        if not chunk:
            raise EOFError("worker closed the pipe")
        hdr += chunk
    (n,) = struct.unpack(">Q", hdr)
    data = b""
    while len(data) < n:
        chunk = f.read(n - len(data))
        if not chunk:
            raise EOFError("worker closed the pipe in the middle of a frame")
        data += chunk
    return pickle.loads(data)


def worker_main():
    """the other process: another string-hash seed, the same repo under test.  Frames = 8-byte length + pickle."""
    import os
    import pickle
    import sys
    import traceback
    inp, out = sys.stdin.buffer, sys.stdout.buffer
    sys.stdout = sys.stderr              # nothing but frames on the real stdout
    while True:
        try:
            req = _frames_read(inp)
        except EOFError:
            return
        try:
            if req.get("op") == "ping":
                import swh.model
                ans = {"pong": True, "hashseed": os.environ.get("PYTHONHASHSEED"), "probe": hash("c11-probe"),
                       "swh": os.path.dirname(swh.model.__file__), "pid": os.getpid()}
            elif req.get("op") == "check":
                ans = {"items": []}
                for it in req["items"]:
                    bad = []
                    try:
                        local = _construct(it["cls"], "ctor", it["args"], [])
                        a = pickle.loads(it["hashed"])          # was hashed in the sender before pickling
                        b = pickle.loads(it["fresh"])           # never hashed anywhere
                        bad += coherence_facts(a, local, "hashed, pickled, unpickled in another process vs local twin")
                        bad += coherence_facts(b, local, "never hashed, pickled, unpickled in another process vs local twin")
                        bad += coherence_facts(a, b, "the two received objects")
                        bad += immutability_facts(a, "received object")
                        back = pickle.dumps(local, protocol=it.get("protocol", 4))    # local has been hashed here by now
                    except Exception as e:
                        bad.append("worker: %s while handling the object: %s" % (type(e).__name__, str(e)[:200]))
                        back = None
                    ans["items"].append({"bad": bad, "back": back})
            else:
                ans = {"worker_exception": "unknown op"}
        except BaseException as e:        # noqa
            ans = {"worker_exception": repr(e) + traceback.format_exc()[-800:]}
        _frames_write(out, ans)


def _stop_worker():
    p = _WORKER["proc"]
    _WORKER["proc"] = None
    if p is not None:
        try:
            p.stdin.close()
        except Exception:
            pass
        try:
            p.wait(timeout=2)
        except Exception:
            try:
                p.kill()
                p.wait(timeout=2)
            except Exception:
                pass


def _start_worker():
    """one long-lived worker per run; raises RuntimeError('harness: ...') when it cannot be started / does not answer"""
    import atexit
    import os
    import subprocess
    import sys
    import tempfile
    if _WORKER["proc"] is not None and _WORKER["proc"].poll() is None:
        return _WORKER["proc"]
    _stop_worker()
    seed = WORKER_HASHSEED if os.environ.get("PYTHONHASHSEED") != WORKER_HASHSEED else "2424"
    env = dict(os.environ, PYTHONHASHSEED=seed, PYTHONPATH=core.VERIF + os.pathsep + core.REPO)
    env[core.GUARD] = "1"
    if _WORKER["log"] is None:
        _WORKER["log"] = tempfile.NamedTemporaryFile(prefix="c11-worker-", suffix=".log", delete=False)
        atexit.register(_stop_worker)
    try:
        p = subprocess.Popen([sys.executable, "-c", "from harness import c11; c11.worker_main()"], cwd=core.VERIF, env=env,
                             stdin=subprocess.PIPE, stdout=subprocess.PIPE, stderr=_WORKER["log"])
    except Exception as e:
        raise RuntimeError("harness: cannot start the transport worker: " + repr(e))
    _WORKER["proc"] = p
    try:
        _frames_write(p.stdin, {"op": "ping"})
        pong = _frames_read(p.stdout)
    except Exception as e:
        _stop_worker()
        raise RuntimeError("harness: the transport worker does not answer (%r); its stderr is in %s" % (e, _WORKER["log"].name))
    import swh.model
    if not pong.get("pong"):
        _stop_worker()
        raise RuntimeError("harness: transport worker: bad answer to ping: %r" % (pong,))
    if os.path.realpath(pong["swh"]) != os.path.realpath(os.path.dirname(swh.model.__file__)):
        _stop_worker()
        raise RuntimeError("harness: the transport worker imports swh.model from %s, the check from %s"
                           % (pong["swh"], os.path.dirname(swh.model.__file__)))
    if pong["probe"] == hash("c11-probe"):
        _stop_worker()
        raise RuntimeError("harness: the transport worker has the SAME string-hash seed as the check")
    return p


def _worker_roundtrip(req):
    p = _start_worker()
    try:
        _frames_write(p.stdin, req)
        ans = _frames_read(p.stdout)
    except BaseException as e:            # noqa  (also the case alarm: the stream is out of step -> restart next time)
        _stop_worker()
        if isinstance(e, (KeyboardInterrupt, SystemExit)):
            raise
        raise RuntimeError("harness: transport worker protocol broke: %r; its stderr is in %s" % (e, _WORKER["log"].name))
    if "worker_exception" in ans:
        raise RuntimeError("harness: transport worker: " + ans["worker_exception"])
    return ans


def transport_case(rng, specs):
    return {"kind": "transport", "objects": [sp if isinstance(sp, dict) else {"cls": sp[1], "args": sp[2]} for sp in specs]}


def impl_transport(c):
    import pickle
    res = {"n": len(c["objects"]), "bad": [], "in_process_checks": 0, "cross_process_checks": 0}
    items, twins = [], []
    for i, o in enumerate(c["objects"]):
        bad = []
        try:
            src_h = _construct(o["cls"], "ctor", o["args"], [])
            src_n = _construct(o["cls"], "ctor", o["args"], [])
            twin = _construct(o["cls"], "ctor", o["args"], [])
        except Exception as e:
            res["bad"].append({"index": i, "cls": o["cls"], "facts": ["construction raised " + core.exc_class(e)], "harness": True})
            items.append(None)
            twins.append(None)
            continue
        _hash_or_U(src_h)                       # used as a set member / dict key before it travels
        try:
            fresh_pickle = pickle.dumps(src_n, protocol=4)          # never hashed
            hashed_pickle = pickle.dumps(src_h, protocol=i % (pickle.HIGHEST_PROTOCOL + 1))
            # copies of the never-hashed object are all taken before anything hashes it
            copies_n = [(name, t(src_n)) for name, t in _transports()]
            copies_h = [(name, t(src_h)) for name, t in _transports()]
        except Exception as e:
            res["bad"].append({"index": i, "cls": o["cls"], "facts": ["pickle / copy raised %s: %s" % (type(e).__name__, str(e)[:200])]})
            items.append(None)
            twins.append(None)
            continue
        for label, src, copies in (("hashed before", src_h, copies_h), ("never hashed", src_n, copies_n)):
            for name, cp in copies:
                what = "%s of an object %s" % (name, label)
                bad += coherence_facts(cp, twin, what + " vs fresh twin")
                bad += coherence_facts(cp, src, what + " vs the original", light=True)
                bad += immutability_facts(cp, what)
                res["in_process_checks"] += 1
        if bad:
            res["bad"].append({"index": i, "cls": o["cls"], "facts": sorted(set(bad))[:12]})
        items.append({"cls": o["cls"], "args": o["args"], "hashed": hashed_pickle, "fresh": fresh_pickle,
                      "protocol": (i + 1) % (pickle.HIGHEST_PROTOCOL + 1)})
        twins.append(twin)
    live = [(i, it) for i, it in enumerate(items) if it is not None]
    if live:
        try:
            ans = _worker_roundtrip({"op": "check", "items": [it for _, it in live]})
        except RuntimeError as e:
            res["harness_error"] = str(e)
            return res
        if len(ans.get("items", [])) != len(live):
            res["harness_error"] = "harness: transport worker answered %d items for %d" % (len(ans.get("items", [])), len(live))
            return res
        for (i, it), r in zip(live, ans["items"]):
            bad = list(r["bad"])
            res["cross_process_checks"] += 1
            if r["back"] is not None:
                try:
                    back = pickle.loads(r["back"])               # built AND hashed in the other process
                    bad += coherence_facts(back, twins[i], "built and hashed in another process, unpickled here vs local twin")
                    bad += immutability_facts(back, "object received from another process")
                except Exception as e:
                    bad.append("unpickling what the worker sent raised %s" % type(e).__name__)
            if bad:
                res["bad"].append({"index": i, "cls": it["cls"], "facts": sorted(set(bad))[:12]})
    return res


# ------------------------------------------------------------------ model side
def enc_steps(c, enc):
    out = []
    for st in c["steps"]:
        op = st[0]
        if op in ("setattr", "delattr"):
            out.append("%s:%s" % (op, st[1].encode().hex()))
        elif op in ("setitem", "delitem"):
            out.append("%s:%s" % (op, spec_atom_hex(st[1])))
        elif op == "copy_pop":
            out.append("copypop:%s" % spec_atom_hex(st[1]))
        elif op in ("ret", "reach", "evolve"):
            # an accessor / attempts that all raise / building other values: nothing that could write to the object
            out.append("read:-:todict")
        elif op == "read":
            fld = "-" if st[1] is None else st[1].encode().hex()
            kind = "todict" if st[2] == "manifest" else st[2]      # the manifest is a function of the content
            out.append("read:%s:%s" % (fld, kind) + (":" + spec_atom_hex(st[3]) if st[3] is not None else ""))
        else:
            h = enc.kept_handles[st[1]]
            if op == "set":
                out.append("set:%d:%s:%s" % (h, spec_atom_hex(st[2]), Enc().val(st[3])))
            elif op == "del":
                out.append("del:%d:%s" % (h, spec_atom_hex(st[2])))
            elif op == "clear":
                out.append("clear:%d" % h)
            elif op == "app":
                out.append("app:%d:%s" % (h, Enc().val(st[2])))
            elif op == "idx":
                out.append("idx:%d:%d:%s" % (h, st[2], Enc().val(st[3])))
            elif op == "pop":
                out.append("pop:%d" % h)
    return "|".join(out) if out else "."


def enc_args(fields, enc, route="ctor"):
    if route == "fromdict":
        return "(" + enc.val(fields[0]) + ")"
    return "(" + ";".join(enc.val(v) for _, v in fields) + ")"


def requests(c):
    if c["kind"] == "script" and c.get("impl_only"):
        return []       # views / other Mapping and Sequence implementations: "refuse or be immune", decided on the implementation
    if c["kind"] == "script":
        enc = Enc()
        args = enc_args(c["args"], enc, c["route"])
        steps = enc_steps(c, enc)
        watch = "(" + ";".join(enc.frozen_vals) + ")"
        return ["run new %d %s %s %s %s %s %s" % (FUEL, "fromdict" if c["route"] == "fromdict" else "ctor",
                                                   c["cls"].encode().hex(), enc.store(), args, steps, watch)]
    if c["kind"] == "twins" and c["variation"] in IMPL_ONLY_VARIATIONS:
        return []       # the converters' spellings / two different classes: not expressible in the model's one-class twins
    if c["kind"] == "twins":
        enc = Enc()
        a1 = enc_args(c["args1"], enc)
        a2 = a1 if c["variation"] in ("same-objects", "unusual-eq-shared") else enc_args(c["args2"], enc)   # same handles / atoms = same objects
        return ["twins new %d %s %s %s %s" % (FUEL, c["cls"].encode().hex(), enc.store(), a1, a2)]
    if c["kind"] == "perms":
        reqs = []
        for perm in itertools.permutations(c["items"]):
            enc = Enc()
            a1 = enc_args([["data", ["d", c["items"]]]], enc)
            a2 = enc_args([["data", ["d", list(perm)]]], enc)
            reqs.append("twins new %d %s %s %s %s" % (FUEL, b"ImmutableDict".hex(), enc.store(), a1, a2))
        return reqs
    return []


def model(c, resp):
    if c["kind"] == "transport":
        # the model's objects are values and its hash is a function of the abstract content only
        # (C11_transport_hash): every transport is the identity, every coherence fact holds
        return {"transport": "identity", "bad": []}
    if c["kind"] == "script" and c.get("impl_only"):
        return {"impl_only": True}
    if c["kind"] == "script":
        r = resp[0].split(" ")
        if r[0] != "ok":
            return {"error": "raises", "raw": resp[0]}
        obs0 = r[1]
        steps, wb, wa = [], [], []
        for x in r[2:]:
            if x.startswith("wb:"):
                wb.append(x[3:])
            elif x.startswith("wa:"):
                wa.append(x[3:])
            else:
                e, o = x.split("/", 1)
                steps.append({"raised": None if e == "-" else e, "changed": o != obs0})
        content, todict, key, idok = split_top(obs0, ",")
        return {"content": content, "hashkey": key, "id_ok": idok == "1", "steps": steps,
                "watch_changed": [a != b for a, b in zip(wb, wa)]}
    if c["kind"] == "twins" and c["variation"] in IMPL_ONLY_VARIATIONS:
        return {"impl_only": True}
    if c["kind"] == "twins":
        r = resp[0].split(" ")
        if r[0] != "ok":
            return {"error": "raises", "raw": resp[0]}
        return {"eq12": r[1] == "1", "eq21": r[2] == "1", "k1": r[3], "k2": r[4]}
    if c["kind"] == "perms":
        rs = [x.split(" ") for x in resp]
        return {"n": len(rs), "all_eq": all(x[0] == "ok" and x[1] == "1" and x[2] == "1" for x in rs),
                "all_key_eq": all(x[0] == "ok" and x[3] == x[4] for x in rs),
                "unhashable": any(x[0] == "ok" and x[3] == "U" for x in rs)}
    return {}


# ------------------------------------------------------------------ property on the implementation
CALLER_OPS = ("set", "del", "clear", "app", "idx", "pop")
IMPL_ONLY_VARIATIONS = ("swhid-spelling", "cross-class", "unorderable-keys")


def oracle(c, ires, mres):
    if c["kind"] == "no-generator":
        return None
    if c["kind"] == "transport":
        real = [b for b in ires.get("bad", []) if not b.get("harness")]
        if real:
            b = real[0]
            return ("%s (object %d of the batch) after transport: %s" % (b["cls"], b["index"], "; ".join(b["facts"][:4])))
        return None
    if "error" in ires and c["kind"] != "script":
        return None if ires["error"] == "raises" else ires["error"]
    if c["kind"] == "script":
        if "error" in ires:
            if c.get("foreign"):
                return None         # a view / another Mapping or Sequence implementation may be refused (any exception)
            if ires.get("plain_twin_builds") and any(True for _ in _subclasses(c["args"])):
                return ("building %s (%s) from a dict-subclass argument raises %s (%s) while the same arguments with an "
                        "equal plain dict build fine" % (c["cls"], c["route"], ires.get("exc"), ires.get("msg", "")[:80]))
            return None           # construction refused: nothing was built
        if not ires["snap0"]["eq_twin"]:
            return "two %s objects built from the same arguments are not equal" % c["cls"]
        if ires.get("positional_eq") is not None and ires["positional_eq"] is not True:
            return ("%s built from the same arguments given positionally is not equal to / does not hash like the one built "
                    "with keywords (%s)" % (c["cls"], ires["positional_eq"]))
        if not ires["snap0"].get("eq_same_args", True):
            return ("two %s objects built one after the other from the very same argument objects are not equal"
                    % c["cls"])
        if ires["frozen_changed_by_construction"]:
            return ("building a %s (%s) changed an already frozen ImmutableDict that was passed as argument"
                    % (c["cls"], c["route"]))
        for st, r in zip(c["steps"], ires["steps"]):
            chg = r.get("changed_prev", r["changed"])       # what THIS step changed
            if st[0] in CALLER_OPS:
                if st[1] in c.get("nested_shared", []):
                    continue        # nested in a shallow-copied mapping argument: the recorded reading (DESIGN section 7)
                # (a list nested in the caller's own already-frozen mapping is shared with THAT mapping: same reading)
                chg = [k for k in chg if k != "frozen_args"]
                if chg:
                    return ("mutating a container passed to %s (%s) after construction changed the object's %s (step %r)"
                            % (c["cls"], c["route"], ",".join(chg), st))
            elif st[0] == "reach":
                f = r.get("reach", {})
                if f.get("not_raising"):
                    return ("%s: mutation attempt on a value reached through the object did not raise: %s"
                            % (c["cls"], "; ".join(f["not_raising"][:3])))
                if chg:
                    return "mutation attempts on the values reached through a %s changed its %s" % (c["cls"], ",".join(chg))
            elif st[0] == "evolve":
                f = r.get("evolve", {})
                if f.get("bad"):
                    return "%s: %s" % (c["cls"], "; ".join(f["bad"][:3]))
                if chg:
                    return "evolving a %s (and mutating what the copies hand out / were given) changed its %s" % (c["cls"], ",".join(chg))
            elif st[0] == "ret":
                f = r.get("ret", {})
                what = "%s.%s%s" % (c["cls"], st[1], "()" if st[2] == "call" else "")
                if f.get("fresh_call_raises"):
                    return "after mutating what %s returned, calling it again raises %s" % (what, f["fresh_call_raises"])
                if f.get("returned_object_mutable"):
                    return "%s hands out a value object that can be mutated: %s" % (what, "; ".join(f["returned_object_mutable"][:2]))
                if f.get("same_mutable_twice"):
                    return "two successive calls of %s hand out the same mutable container" % what
                if f.get("same_mutable_as_twin"):
                    return "%s hands out a mutable container shared with another (equal) object" % what
                if f.get("fresh_call_differs") or f.get("second_result_differs"):
                    return "mutating the container returned by %s changed what it returns afterwards / returned before" % what
                if f.get("twin_call_differs"):
                    return "mutating the container returned by %s changed what an equal object returns" % what
                if chg:
                    return "mutating the container returned by %s changed the object's %s" % (what, ",".join(chg))
            elif st[0] == "read":
                if r["raised"] is not None and not (st[2] == "getitem" and r["raised"] == "KeyError"):
                    return "read-only access %r raised %s" % (st[1:], r["raised"])
                if chg:
                    return ("a read-only access (%s %s on %s.%s) changed the object's %s"
                            % (st[2], "" if st[3] is None else st[3], c["cls"], st[1] or "", ",".join(chg)))
            elif st[0] == "copy_pop":
                if r["raised"] is not None:
                    return "copy_pop(%r) raised %s" % (st[1], r["raised"])
                if chg:
                    return ("copy_pop(%r) changed a frozen mapping that already existed: %s"
                            % (st[1], ",".join(chg)))
                if not r.get("ret_ok"):
                    return "copy_pop(%r) did not return (value or None, the mapping without the key)" % (st[1],)
            else:
                if st[0] in ("setitem", "delitem") and c["cls"] != "ImmutableDict" and r["raised"] is None:
                    return "%s on a %s object did not raise" % (st[0], c["cls"])
                if st[0] in ("setattr", "delattr") and r["raised"] is None:
                    return "%s(%s) on a %s object did not raise" % (st[0], st[1], c["cls"])
                if st[0] in ("setitem", "delitem") and r["raised"] is None:
                    return "item assignment/deletion on an ImmutableDict did not raise"
                if chg:
                    return "%s(%s) changed the object's %s" % (st[0], st[1], ",".join(chg))
        return None
    if c["kind"] == "twins":
        if "compare_raises" in ires:
            return ("comparing two %s built from %s raised %s" % (
                c["cls"], "the same argument objects" if c["variation"] in ("same-objects", "unusual-eq-shared") else
                "equal arguments (%s)" % c["variation"], ires["compare_raises"]))
        if ires["eq12"] != ires["eq21"] or ires["eq12"] == ires["ne12"]:
            return "== is not symmetric / != is not its negation"
        if c["variation"] in ("same", "same-objects", "noneq-fields", "nested-noneq", "permuted", "dict-vs-idict",
                              "equal-but-differently-spelled", "swhid-spelling", "unusual-eq-shared",
                              "unorderable-keys") and not ires["eq12"]:
            return "objects built from equal arguments (%s) are not equal" % c["variation"]
        if ires["eq12"] and ires["h1"] != "U" and ires["h2"] != "U":
            if ires["h1"] != ires["h2"]:
                return "equal objects have different hashes"
            if not ires.get("dict_key") or not ires.get("set_member") or ires.get("set_size") != 1:
                return "equal objects do not act as the same dict key / set member"
        if ires["eq12"] and c["variation"] in ("same", "same-objects", "equal-but-differently-spelled", "swhid-spelling",
                                               "cross-class", "unusual-eq-shared", "unusual-eq-distinct",
                                               "unorderable-keys") \
                and (ires["h1"] == "U") != (ires["h2"] == "U"):
            return "objects built from the same arguments: one hashable, one not"
        return None
    if c["kind"] == "perms":
        if not ires["all_eq"]:
            return "ImmutableDicts with the same items in a different insertion order are not equal"
        if not ires["all_hash_eq"]:
            return "ImmutableDicts with the same items in a different insertion order hash differently"
        return None
    return None


def compare(c, ires, mres):
    if c["kind"] == "transport":
        if "harness_error" in ires:
            return "HARNESS ERROR, not a property violation: " + ires["harness_error"]
        if "error" in ires:
            return "HARNESS ERROR, not a property violation: the transport case crashed: %s" % ires["error"]
        hb = [b for b in ires.get("bad", []) if b.get("harness")]
        if hb:
            return "HARNESS ERROR, not a property violation: generated object does not build: %r" % (hb[0],)
        return None
    if c["kind"] == "no-generator":
        return "swh.model.model has attrs classes the C11 harness does not generate: " + ",".join(c["classes"])
    if "model_error" in mres:
        return "model answer not understood: " + str(mres)
    if c["kind"] == "script" and mres.get("impl_only"):
        return None
    if c["kind"] == "script":
        if ("error" in ires) != ("error" in mres):
            return "construction: implementation %s, model %s" % (ires.get("exc", "ok"), mres.get("raw", "ok"))
        if "error" in ires:
            return None
        if c["route"] == "ctor":
            mine, theirs = mres["content"], ires["snap0"]["content"]
            if c["cls"] != "ImmutableDict":
                import attr
                classes, _ = _classes()
                names = [a.name for a in attr.fields(classes[c["cls"]])]
                given = dict((f, v) for f, v in c["args"])
                if "id" in names and given.get("id") == ["b", ""]:
                    i = names.index("id")
                    mine, theirs = mask_field(mine, i), mask_field(theirs, i)
            if mine != theirs:
                return "constructed content differs: model %s implementation %s" % (mine[:400], theirs[:400])
        if (mres["hashkey"] == "U") != (ires["snap0"]["hash"] == "U"):
            return "hashability differs: model key %s, implementation hash %s" % (mres["hashkey"][:80], ires["snap0"]["hash"])
        if "id_ok" in ires["snap0"] and c["route"] == "ctor" and isinstance(ires["snap0"]["id_ok"], bool):
            if ires["snap0"]["id_ok"] != mres["id_ok"]:
                return "id == compute_hash(): model %s implementation %s" % (mres["id_ok"], ires["snap0"]["id_ok"])
        if len(mres["steps"]) != len(ires["steps"]):
            return "step count differs"
        if mres["watch_changed"] != ires["frozen_changed"]:
            return ("already frozen arguments after the script: model changed=%s implementation changed=%s"
                    % (mres["watch_changed"], ires["frozen_changed"]))
        for st, m, r in zip(c["steps"], mres["steps"], ires["steps"]):
            if (m["raised"] is not None) != (r["raised"] is not None):
                return "step %r: model raises=%s implementation raises=%s" % (st, m["raised"], r["raised"])
            # the already-frozen ARGUMENTS are observed separately (watch list, compared after the script): the model's
            # per-step observation is of the object only
            r_changed = [k for k in r["changed"] if k != "frozen_args"]
            if m["changed"] != bool(r_changed):
                return "step %r: model changed=%s implementation changed=%s" % (st, m["changed"], r_changed)
        return None
    if c["kind"] == "twins" and mres.get("impl_only"):
        if "error" in ires:
            return "HARNESS ERROR, not a property violation: generated %s arguments do not build: %s %s" % (
                c["variation"], ires.get("exc"), ires.get("msg", ""))
        return None
    if c["kind"] == "twins":
        if "compare_raises" in ires:
            return "the implementation's == raised (%s); the model compares without raising" % ires["compare_raises"]
        if ("error" in ires) != ("error" in mres):
            return "construction: implementation %s, model %s" % (ires.get("exc", "ok"), mres.get("raw", "ok"))
        if "error" in ires:
            return None
        if (mres["eq12"], mres["eq21"]) != (ires["eq12"], ires["eq21"]):
            return "equality differs: model %s/%s implementation %s/%s" % (mres["eq12"], mres["eq21"], ires["eq12"], ires["eq21"])
        if (mres["k1"] == "U") != (ires["h1"] == "U") or (mres["k2"] == "U") != (ires["h2"] == "U"):
            return "hashability differs"
        if mres["k1"] != "U" and mres["k2"] != "U" and mres["k1"] == mres["k2"] and ires["h1"] != ires["h2"]:
            return "model: same hash key; implementation: different hashes"
        return None
    if c["kind"] == "perms":
        if mres["n"] * 2 != ires["n"]:
            return "permutation count differs"
        if mres["all_eq"] != ires["all_eq"]:
            return "order-free equality: model %s implementation %s" % (mres["all_eq"], ires["all_eq"])
        if mres["unhashable"] != ires["unhashable"]:
            return "hashability differs"
        if not mres["unhashable"] and mres["all_key_eq"] != ires["all_hash_eq"]:
            return "order-free hash: model %s implementation %s" % (mres["all_key_eq"], ires["all_hash_eq"])
        return None
    return None


def shrink(c):
    if c["kind"] == "transport" and len(c["objects"]) > 1:
        n = len(c["objects"])
        if n > 4:
            yield dict(c, objects=c["objects"][:n // 2])
            yield dict(c, objects=c["objects"][n // 2:])
        for o in c["objects"]:
            yield dict(c, objects=[o])
    if c["kind"] == "script":
        for i in range(len(c["steps"])):
            yield dict(c, steps=c["steps"][:i] + c["steps"][i + 1:])
    if c["kind"] == "twins":
        # drop one key of a mapping argument from both sides
        for i, (f, v) in enumerate(c["args1"]):
            w = c["args2"][i][1] if i < len(c["args2"]) else None
            if v is not None and w is not None and v[0] in ("d", "I") and w[0] in ("d", "I"):
                for k, _ in v[1]:
                    kv = build(k, [])           # keys may be spelled differently on the two sides (1 / True / 1.0)
                    v2 = [v[0], [it for it in v[1] if build(it[0], []) != kv]] + v[2:]
                    w2 = [w[0], [it for it in w[1] if build(it[0], []) != kv]] + w[2:]
                    if len(v2[1]) != len(w2[1]):
                        continue
                    yield dict(c, args1=[[g, (v2 if j == i else x)] for j, (g, x) in enumerate(c["args1"])],
                               args2=[[g, (w2 if j == i else x)] for j, (g, x) in enumerate(c["args2"])])


# ------------------------------------------------------------------ run-time cross-checks of the model's tables
def pre_checks(ctx):
    """ARG_KINDS of coq/model/Frozen.v against the real classes: for every class x field, pass a dict / a list and
    see what the class does with it (reject / copy into a frozen value / keep the very object)."""
    import attr
    import random
    bad = []
    try:
        _start_worker()          # the cross-process transport worker: a start-up failure is a harness error, reported as such
    except RuntimeError as e:
        bad.append(("harness:transport-worker", str(e)))
    classes, ImmutableDict = _classes()
    try:
        kinds_line = core.run_driver(ID, ["kinds", "tables"])
    except Exception as e:
        return [("table:arg-kinds", "driver unavailable: " + repr(e))]
    if kinds_line[1] != "ok 1 1":
        bad.append(("table:side-conditions", "eq_hash_coherent / arg_kinds_coherent evaluate to " + kinds_line[1]))
    kinds = {}
    for item in kinds_line[0].split(" ", 1)[1].split(","):
        lhs, k = item.split("=")
        ch, fh = lhs.split(".")
        kinds[(bytes.fromhex(ch).decode(), bytes.fromhex(fh).decode())] = k
    rng = random.Random(12345)
    for cname, cls in sorted(classes.items()):
        # the generated table and the live class agree on the field list (gen_tables ran on the same tree)
        for a in attr.fields(cls):
            if (cname, a.name) not in kinds:
                bad.append(("table:arg-kinds", "field %s.%s is not in the model's class table" % (cname, a.name)))
        if cname in NOT_INSTANTIABLE:
            if _raises(lambda: cls(status="visible")) is None:
                bad.append(("table:arg-kinds", "%s became instantiable: the harness has no generator for it" % cname))
            continue
        if cname not in GENS:
            continue
        base = dict((f, v) for f, v in gen_obj(rng, cname, hashable=True)[2])
        if "id" in base:
            base["id"] = ["b", "11" * 20]       # explicit id: compute_hash is not called on ill-typed probes
        for a in attr.fields(cls):
            k = kinds.get((cname, a.name), "?")
            for probe in ({"k": "v"}, [(b"a", b"b")], {}, []):
                kw = {f: build(v, []) for f, v in base.items()}
                kw[a.name] = probe
                try:
                    obj = cls(**kw)
                except Exception:
                    continue            # rejected: consistent with every kind (the model never claims acceptance)
                stored = getattr(obj, a.name)
                if stored is probe or (isinstance(stored, ImmutableDict) and stored._data is probe):
                    behaviour = "alias"
                else:
                    behaviour = "copy"
                if behaviour == "alias" and k.split("+")[0] != "unchecked":
                    bad.append(("table:arg-kinds", "%s.%s keeps the very %s it is given (model kind: %s)"
                                % (cname, a.name, type(probe).__name__, k)))
                if k.split("+")[0] == "checked":
                    bad.append(("table:arg-kinds", "%s.%s accepts a %s (model kind: checked = rejected)"
                                % (cname, a.name, type(probe).__name__)))
                if behaviour == "copy":
                    # really independent: mutate the probe, the stored value must not move
                    before = render(stored)
                    if isinstance(probe, dict):
                        probe["zz"] = 1
                    else:
                        probe.append((b"y", b"z"))
                    if render(getattr(obj, a.name)) != before:
                        bad.append(("table:arg-kinds", "%s.%s changed when its argument was mutated" % (cname, a.name)))
    # converter kinds must accept what the model says they accept
    for (cname, fname), k in sorted(kinds.items()):
        if k.startswith("freezedict") and cname in GENS:
            base = dict((f, v) for f, v in gen_obj(rng, cname, hashable=True)[2])
            kw = {f: build(v, []) for f, v in base.items()}
            kw[fname] = {}
            try:
                obj = classes[cname](**kw)
                if not isinstance(getattr(obj, fname), ImmutableDict):
                    bad.append(("table:arg-kinds", "%s.%s: a dict argument is not frozen into an ImmutableDict" % (cname, fname)))
            except Exception as e:
                bad.append(("table:arg-kinds", "%s.%s rejects a dict (%s) but the model's kind is %s" % (cname, fname, type(e).__name__, k)))
    return bad


# functions of /repo whose executed-line coverage by this run is reported in the evidence
ANCHORS = [('swh/model/collections.py', 'ImmutableDict.*'),
           ('swh/model/model.py', 'freeze_optional_dict'),
           ('swh/model/model.py', 'tuplify_extra_headers'),
           ('swh/model/model.py', 'Revision.__attrs_post_init__'),
           ('swh/model/model.py', 'Snapshot.from_dict')]


# the case stream is ordered by class: coq_cases gets every case and keeps a spread over the whole stream (it shrinks the list
# it is given IN PLACE: the evidence's `n` is the number evaluated)
COQ_SAMPLE = 1 << 30


def coq_cases(cases):
    """run_script / run_twins (with the driver's constant id / hash functions) evaluated by vm_compute inside Coq vs the
    extracted driver.  The Coq terms are built from the very request lines the driver receives, and the Coq side prints
    the answer LINE itself (a transcription of the driver's printer into Gallina): the checksum is over the bytes of the
    answer line; one checksum per case (extraction cross-check)"""
    from . import core
    fam = {"script": [], "twins": [], "perms": []}
    for c in cases:
        if c["kind"] in fam and (c["kind"] != "perms" or len(c["items"]) <= 3):
            fam[c["kind"]].append(c)
    def spread(l, n):
        return l[::max(1, len(l) // n)][:n] if l else []
    chosen = []
    n_script = 0
    for c in spread(fam["script"], 48) + spread(fam["twins"], 10) + fam["perms"][-2:]:
        rqs = requests(c)
        if not rqs or sum(len(r) for r in rqs) > 4000:
            continue
        if c["kind"] == "script":
            # every step re-observes the whole object: vm_compute time grows with size x steps
            if n_script >= 16 or len(rqs[0]) * (2 + rqs[0].split(" ")[7].count("|")) > 12000:
                continue
            n_script += 1
        chosen.append((c, rqs))
    cases[:] = [c for c, _ in chosen]

    def nl(h):
        return "[" + "; ".join("%d" % b for b in bytes.fromhex(h)) + "]%N"
    def value(s, i):
        """parses one value at s[i:], returns (coq term, next index)"""
        ch = s[i]
        i += 1
        def take(pred):
            nonlocal i
            j = i
            while i < len(s) and pred(s[i]):
                i += 1
            return s[j:i]
        def plist():
            nonlocal i
            assert s[i] == "("
            i += 1
            out = []
            if s[i] == ")":
                i += 1
                return out
            while True:
                t, i = value(s, i)
                out.append(t)
                if s[i] == ";":
                    i += 1
                    continue
                assert s[i] == ")"
                i += 1
                return out
        if ch == "N":
            return "VNone", i
        if ch == "A":
            return "(VAtom %s)" % nl(take(lambda x: x in "0123456789abcdef")), i
        if ch in "IR":
            return "(%s %d%%nat)" % ("VIDict" if ch == "I" else "VRef", int(take(str.isdigit))), i
        if ch == "T":
            return "(VTuple [%s])" % "; ".join(plist()), i
        if ch == "O":
            cls = take(lambda x: x in "0123456789abcdef")
            return "(VObj %s [%s])" % (nl(cls), "; ".join(plist())), i
        raise ValueError(s[i - 1:i + 20])
    def val(s):
        t, i = value(s, 0)
        assert i == len(s), s
        return t
    def args(s):
        t, i = value("T" + s, 0)
        return t[len("(VTuple "):-1]
    def cell(s):
        inner = s[2:-1]
        if s[0] == "L":
            return "PyList %s" % args("(" + inner + ")")
        items = []
        for kv in (split_top(inner, ";") if inner else []):
            k, v = kv.split("=", 1)
            items.append("(%s, %s)" % (nl(k), val(v)))
        return "PyDict %s [%s]" % ("true" if s[0] == "F" else "false", "; ".join(items))
    def store(s):
        return "[" + ("" if s == "." else "; ".join(cell(x) for x in s.split("|"))) + "]"
    def step(s):
        p = s.split(":")
        k = p[0]
        if k == "set":
            return "SMut (MSetItem %s%%nat %s %s)" % (p[1], nl(p[2]), val(p[3]))
        if k == "del":
            return "SMut (MDelItem %s%%nat %s)" % (p[1], nl(p[2]))
        if k == "clear":
            return "SMut (MClear %s%%nat)" % p[1]
        if k == "app":
            return "SMut (MAppend %s%%nat %s)" % (p[1], val(p[2]))
        if k == "idx":
            return "SMut (MSetIndex %s%%nat %s%%nat %s)" % (p[1], p[2], val(p[3]))
        if k == "pop":
            return "SMut (MPop %s%%nat)" % p[1]
        if k in ("setattr", "setitem"):
            return "SChan (%s %s VNone)" % ({"setattr": "CSetAttr", "setitem": "CSetItem"}[k], nl(p[1]))
        if k in ("delattr", "delitem"):
            return "SChan (%s %s)" % ({"delattr": "CDelAttr", "delitem": "CDelItem"}[k], nl(p[1]))
        if k == "copypop":
            return "SCopyPop %s" % nl(p[1])
        assert k == "read", s
        fld = "None" if p[1] == "-" else "(Some %s)" % nl(p[1])
        if len(p) == 4:
            return "SRead %s (%s %s)" % (fld, {"contains": "RdContains", "get": "RdGet", "getitem": "RdGetItem"}[p[2]], nl(p[3]))
        return "SRead %s %s" % (fld, {"iter": "RdIter", "len": "RdLen", "items": "RdItems", "todict": "RdToDict", "hash": "RdHash",
                                      "eq": "RdEq"}[p[2]])
    VAR = {"new": "New", "old": "Old", "popinplace": "PopInPlace", "subclasscopy": "SubclassCopy"}
    def term(rq):
        w = rq.split(" ")
        if w[0] == "run":
            return "show_run (run_script hid hpy %s %d%%nat %s %s %s %s [%s] %s)" % (
                VAR[w[1]], int(w[2]), "FromDict" if w[3] == "fromdict" else "Ctor", nl(w[4]), store(w[5]), args(w[6]),
                "" if w[7] == "." else "; ".join(step(x) for x in w[7].split("|")), args(w[8]))
        assert w[0] == "twins", rq
        return "show_twins (run_twins hid %s %d%%nat %s %s %s %s)" % (VAR[w[1]], int(w[2]), nl(w[3]), store(w[4]), args(w[5]), args(w[6]))
    src = ("From Coq Require Import List NArith.\nFrom SWH.lib Require Import Bytes Hex.\nFrom SWH.model Require Import Frozen.\n"
           "Import ListNotations.\n" + core.COQ_CHECKSUM + """
(* the driver's printer (ocaml/drv_C11.ml), transcribed: the answer line as bytes *)
Definition sepcat (sep : N) (l : list (list N)) : list N :=
  match l with [] => [] | x :: r => x ++ concat (map (fun y => sep :: y) r) end.
Fixpoint show (r : rval) : list N :=
  match r with
  | RNone => bs "N"
  | RAtom a => bs "A" ++ hexlify a
  | RSeq m l => (if m then bs "L(" else bs "T(") ++ sepcat 59%N (map show l) ++ bs ")"
  | RMap m it => (if m then bs "D{" else bs "M{")
                 ++ sepcat 59%N (map (fun kv : list N * rval => hexlify (fst kv) ++ bs "=" ++ show (snd kv)) it) ++ bs "}"
  | RObj c l => bs "O" ++ hexlify c ++ bs "(" ++ sepcat 59%N (map show l) ++ bs ")"
  | ROut => bs "OUT"
  | RBad => bs "BAD"
  end.
Definition show_key (o : option rval) : list N := match o with Some r => show r | None => bs "U" end.
Definition show_err (e : err) : list N :=
  match e with
  | ETypeError => bs "TypeError" | EValueError => bs "ValueError" | EKeyError => bs "KeyError" | EIndexError => bs "IndexError"
  | EFrozenInstanceError => bs "FrozenInstanceError" | EAttributeError => bs "AttributeError" | EOutOfFuel => bs "OutOfFuel"
  end.
Definition b01 (b : bool) : list N := if b then bs "1" else bs "0".
Definition show_obs (o : rval * rval * option rval * result N * bool) : list N :=
  match o with (r, d, k, _, ok) => show r ++ bs "," ++ show d ++ bs "," ++ show_key k ++ bs "," ++ b01 ok end.
Definition hid (_ : rval) : list N := [1%N; 42%N].
Definition hpy (_ : rval) : N := 0%N.
Definition show_run (x : result (observation * list (option err * observation) * list observation * list observation)) : list N :=
  match x with
  | Err e => bs "err " ++ show_err e
  | Ok (o0, l, wb, wa) =>
      bs "ok " ++ sepcat 32%N (show_obs o0
        :: map (fun eo : option err * observation =>
                  (match fst eo with None => bs "-" | Some e => show_err e end) ++ bs "/" ++ show_obs (snd eo)) l
        ++ map (fun o => bs "wb:" ++ show_obs o) wb ++ map (fun o => bs "wa:" ++ show_obs o) wa)
  end.
Definition show_twins (x : result (bool * bool * option rval * option rval)) : list N :=
  match x with
  | Err e => bs "err " ++ show_err e
  | Ok (e12, e21, k1, k2) => bs "ok " ++ b01 e12 ++ bs " " ++ b01 e21 ++ bs " " ++ show_key k1 ++ bs " " ++ show_key k2
  end.
""" + "Definition cases : list (list (list N)) := [" +
           ";\n ".join("[" + ";\n  ".join(term(r) for r in rqs) + "]" for _, rqs in chosen) + "].\n"
           "Eval vm_compute in map (fun rs => cksum (map cksum rs)) cases.\n")
    flat = [r for _, rqs in chosen for r in rqs]
    resp = iter(core.run_driver(ID, flat))
    exp = [core.py_cksum([core.py_cksum(next(resp).encode()) for _ in rqs]) for _, rqs in chosen]
    return src, exp
