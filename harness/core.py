"""Common machinery of every check (DESIGN.md section 2).

One run of `./check Cxx --tier T`:
  1. regenerate coq/Generated.v from /repo (tools/gen_tables.py)            -> tie (a)
  2. build the proof cone of Props/Cxx.v, re-run coqc on it, parse every
     `Print Assumptions`, grep the development for forbidden commands        -> theorems
  3. extract the model to OCaml, build build/Cxx/driver                      -> executable model
  4. correspondence: corpus + generated cases through /repo's code and the
     extracted model, compared on the property's observables                 -> tie (b)
  5. on any failure: search for a concrete failing input, write a replay,
     print VIOLATION, exit 1
  6. known findings, evidence, exit 0
"""
import fcntl
import hashlib
import importlib
import json
import os
import random
import re
import subprocess
import sys
import time
import traceback

VERIF = os.path.dirname(os.path.dirname(os.path.abspath(__file__)))
REPO = os.environ.get("VERIF_REPO", "/repo")
COQ = os.path.join(VERIF, "coq")
BUILD = os.path.join(VERIF, "build")
GUARD = "SWH_MODEL_VERIF"

# axioms that a `Print Assumptions` may list without failing the check: only
# axioms declared by Coq's standard library itself (DESIGN.md section 6.2).
ALLOWED_AXIOMS = {
    # none is needed at present; every property theorem is closed
}

FORBIDDEN = [
    r"\bAdmitted\b", r"\badmit\b", r"\bAxiom\b", r"\bAxioms\b", r"\bParameter\b",
    r"\bParameters\b", r"\bConjecture\b", r"Admit\s+Obligations", r"Unset\s+Guard\s+Checking",
    r"bypass_check", r"Unset\s+Universe\s+Checking", r"Unset\s+Positivity\s+Checking",
    r"type-in-type", r"impredicative-set", r"\bnative_compute\b",
]


def log(*a):
    try:
        print(*a, file=sys.stderr, flush=True)
    except (BrokenPipeError, OSError, ValueError):
        pass        # progress lines are informational: a closed stderr must not change the verdict


def sh(cmd, cwd=None, timeout=1200, env=None, input=None):
    e = dict(os.environ)
    if env:
        e.update(env)
    p = subprocess.run(cmd, cwd=cwd, shell=isinstance(cmd, str), stdout=subprocess.PIPE,
                       stderr=subprocess.STDOUT, timeout=timeout, env=e, input=input)
    return p.returncode, p.stdout.decode("utf-8", "replace")


class BuildLock:
    """inter-process lock around everything that touches coq/ and build/ (re-entrant within a process)"""
    depth = 0
    f = None

    def __enter__(self):
        if BuildLock.depth == 0:
            os.makedirs(BUILD, exist_ok=True)
            BuildLock.f = open(os.path.join(BUILD, ".lock"), "w")
            fcntl.flock(BuildLock.f, fcntl.LOCK_EX)
        BuildLock.depth += 1
        return self

    def __exit__(self, *a):
        BuildLock.depth -= 1
        if BuildLock.depth == 0:
            fcntl.flock(BuildLock.f, fcntl.LOCK_UN)
            BuildLock.f.close()


# ---------------------------------------------------------------- step 1: tables
def gen_tables():
    rc, out = sh([sys.executable, os.path.join(VERIF, "tools", "gen_tables.py")], timeout=120,
                 env={"PYTHONPATH": REPO, "PYTHONHASHSEED": "0", GUARD: "1"})
    return rc == 0, out


# ---------------------------------------------------------------- step 2: proofs
def strip_comments(src):
    out, depth, i = [], 0, 0
    while i < len(src):
        if src.startswith("(*", i):
            depth += 1
            i += 2
        elif src.startswith("*)", i) and depth:
            depth -= 1
            i += 2
        else:
            if depth == 0:
                out.append(src[i])
            i += 1
    return "".join(out)


def all_v_files():
    res = []
    for d, _, fs in os.walk(COQ):
        for f in fs:
            if f.endswith(".v"):
                res.append(os.path.relpath(os.path.join(d, f), COQ))
    return sorted(res)


def cone(vfile, acc=None):
    """transitive SWH.* dependencies of a .v file (paths relative to coq/), including itself"""
    acc = acc if acc is not None else []
    if vfile in acc:
        return acc
    acc.append(vfile)
    if os.path.exists(os.path.join(COQ, vfile)):
        for t in require_targets(vfile):
            cone(t[:-1], acc)
    return acc


def forbidden_scan(files):
    """grep the property's development cone (comments stripped) for commands that would
    declare an axiom or switch off a kernel check; Variable/Hypothesis/Context
    are allowed inside sections only."""
    bad = []
    for f in files:
        if not os.path.exists(os.path.join(COQ, f)):
            continue
        src = strip_comments(open(os.path.join(COQ, f), encoding="utf-8").read())
        # string literals may legitimately contain words; drop them
        src_ns = re.sub(r'"[^"]*"', '""', src)
        for pat in FORBIDDEN:
            for m in re.finditer(pat, src_ns):
                bad.append(f"{f}: forbidden `{m.group(0)}`")
        depth = 0
        for line in src_ns.splitlines():
            s = line.strip()
            if re.match(r"(Section|Module)\s+\w+", s) and ":=" not in s:
                depth += 1
            elif re.match(r"End\s+\w+\s*\.", s):
                depth = max(0, depth - 1)
            elif depth == 0 and re.match(r"(Variable|Variables|Hypothesis|Hypotheses|Context)\b", s):
                bad.append(f"{f}: `{s[:40]}` outside a section")
    return bad


def ensure_makefile():
    files = all_v_files()
    proj = "-Q . SWH\n-arg -w -arg -notation-overridden,-deprecated-hint-without-locality,-deprecated-instance-without-locality\n" + "\n".join(files) + "\n"
    pj = os.path.join(COQ, "_CoqProject")
    old = open(pj).read() if os.path.exists(pj) else None
    if old != proj or not os.path.exists(os.path.join(COQ, "Makefile")):
        open(pj, "w").write(proj)
        rc, out = sh("coq_makefile -f _CoqProject -o Makefile", cwd=COQ)
        if rc:
            raise RuntimeError("coq_makefile failed: " + out)


def require_targets(vfile):
    """.vo targets of the SWH.* files a .v file Requires."""
    src = strip_comments(open(os.path.join(COQ, vfile)).read())
    targets = []
    for m in re.finditer(r"From\s+SWH(?:\.(\w+))?\s+Require\s+(?:Import\s+|Export\s+)?([\w\s.]+?)\.\s", src):
        sub = m.group(1)
        for name in m.group(2).split():
            path = (sub + "/" if sub else "") + name.replace(".", "/") + ".vo"
            targets.append(path)
    for m in re.finditer(r"(?<!From\s)Require\s+(?:Import\s+|Export\s+)?((?:SWH\.[\w.]+\s*)+)\.", src):
        for name in m.group(1).split():
            targets.append(name[len("SWH."):].replace(".", "/") + ".vo")
    return sorted(set(targets))


def build_proofs(P, tier):
    """Returns dict(ok, obligations, discharged, details, errors)."""
    res = {"ok": False, "obligations": 0, "discharged": 0, "theorems": [], "errors": [],
           "axioms": {}, "build_s": 0.0}
    t0 = time.time()
    props = P.PROPS
    src = strip_comments(open(os.path.join(COQ, props)).read())
    printed = re.findall(r"Print\s+Assumptions\s+([\w.']+)\s*\.", src)
    declared = re.findall(r"(?:Theorem|Lemma|Corollary|Example)\s+([\w']+)", src)
    res["obligations"] = len(P.THEOREMS)
    for t in P.THEOREMS:
        if t not in declared:
            res["errors"].append(f"theorem:{t} is not stated in {props}")
        elif t not in printed:
            res["errors"].append(f"theorem:{t} has no Print Assumptions in {props}")
    bad = forbidden_scan(cone(props) + cone(P.EXTRACT))
    res["errors"] += ["forbidden:" + b for b in bad]
    with BuildLock():
        ensure_makefile()
        targets = require_targets(props)
        rc, out = sh(["timeout", "3000", "make", "-j16"] + targets, cwd=COQ, timeout=3100)
        if rc:
            tail = "\n".join(out.splitlines()[-25:])
            m = re.search(r'File "\./([^"]+)", line (\d+)', out)
            where = f"{m.group(1)}:{m.group(2)}" if m else "?"
            res["errors"].append(f"proof-build-failed at {where}")
            res["build_log"] = tail
            res["build_s"] = time.time() - t0
            return res
        rc, out = sh(["timeout", "1200", "coqc", "-Q", ".", "SWH", props], cwd=COQ, timeout=1300)
    res["build_s"] = time.time() - t0
    if rc:
        res["errors"].append("theorem:" + props + " does not compile")
        res["build_log"] = "\n".join(out.splitlines()[-25:])
        return res
    # split the output into one chunk per Print Assumptions
    chunks, cur = [], None
    for line in out.splitlines():
        if line.startswith("Closed under the global context"):
            chunks.append([])
            cur = None
        elif line.startswith("Axioms:"):
            cur = []
            chunks.append(cur)
        elif cur is not None and line.strip():
            if re.match(r"^\S", line):
                cur.append(line.split(":")[0].strip())
    if len(chunks) != len(printed):
        res["errors"].append(f"theorem: {len(printed)} Print Assumptions but {len(chunks)} answers")
        return res
    for name, ax in zip(printed, chunks):
        extra = [a for a in ax if a not in ALLOWED_AXIOMS]
        res["axioms"][name] = ax
        if extra:
            res["errors"].append(f"theorem:{name} depends on axioms {extra}")
        elif name in P.THEOREMS:
            res["discharged"] += 1
    res["theorems"] = [t for t in P.THEOREMS]
    if tier == "thorough" and not res["errors"]:
        lib = "SWH." + props[:-2].replace("/", ".")
        rc, out = sh(["timeout", "1500", "coqchk", "-silent", "-o", "-Q", ".", "SWH", lib], cwd=COQ, timeout=1600)
        res["coqchk"] = "ok" if rc == 0 else "failed"
        res["coqchk_tail"] = "\n".join(out.splitlines()[-30:])
        if rc:
            res["errors"].append("theorem: coqchk rejected " + lib)
    res["ok"] = not res["errors"] and res["discharged"] == res["obligations"]
    return res


# ---------------------------------------------------------------- step 3: driver
def build_driver(P):
    """Extract the model and build build/<ID>/driver.  Returns (ok, message)."""
    pid = P.ID
    bdir = os.path.join(BUILD, pid)
    os.makedirs(bdir, exist_ok=True)
    exdir = os.path.join(COQ, "extract", pid)
    os.makedirs(exdir, exist_ok=True)
    with BuildLock():
        ensure_makefile()
        targets = require_targets(P.EXTRACT)
        rc, out = sh(["timeout", "1500", "make", "-j16"] + targets, cwd=COQ, timeout=1600)
        if rc:
            return False, "model build failed:\n" + "\n".join(out.splitlines()[-20:])
        ml = os.path.join(exdir, "model.ml")
        srcs = [os.path.join(COQ, t[:-1]) for t in targets] + [os.path.join(COQ, P.EXTRACT)]
        drv = os.path.join(bdir, "driver")
        ocaml_srcs = [os.path.join(VERIF, "ocaml", "conv.ml"), os.path.join(VERIF, "ocaml", f"drv_{pid}.ml")]
        stamp = os.path.join(bdir, "stamp")
        h = hashlib.sha256()
        # the extracted code depends on the whole model cone: hash every model/lib file + Generated.v
        for f in sorted(cone(P.EXTRACT)):
            if os.path.exists(os.path.join(COQ, f)):
                h.update(open(os.path.join(COQ, f), "rb").read())
        for f in ocaml_srcs:
            h.update(open(f, "rb").read())
        digest = h.hexdigest()
        if os.path.exists(drv) and os.path.exists(stamp) and open(stamp).read() == digest:
            return True, "driver up to date"
        rc, out = sh(["timeout", "900", "coqc", "-Q", ".", "SWH", P.EXTRACT], cwd=COQ, timeout=1000)
        if rc or not os.path.exists(ml):
            return False, "extraction failed:\n" + "\n".join(out.splitlines()[-20:])
        for f in ("model.ml", "model.mli"):
            sh(["cp", os.path.join(exdir, f), bdir])
        # conv.ml and the driver are concatenated so that they see the extracted types
        with open(os.path.join(bdir, "drv.ml"), "w") as o:
            # the extracted code may define its own `string`/`list`-named things: restore OCaml's
            o.write("open Model\nmodule String = Stdlib.String\nmodule List = Stdlib.List\nmodule Char = Stdlib.Char\n"
                    "type string = Stdlib.String.t\n")
            for f in ocaml_srcs:
                o.write(f'# 1 "{f}"\n')
                o.write(open(f).read())
                o.write("\n")
        rc, out = sh("ocamlfind ocamlopt -w -a -package str -linkpkg model.mli model.ml drv.ml -o driver 2>&1",
                     cwd=bdir, timeout=600)
        if not os.path.exists(drv) or rc:
            return False, "ocaml build failed:\n" + "\n".join(out.splitlines()[-20:])
        open(stamp, "w").write(digest)
    return True, "driver rebuilt"


def run_driver(pid, lines, shards=16):
    """Send request lines to build/<pid>/driver, return response lines (same order)."""
    if not lines:
        return []
    drv = os.path.join(BUILD, pid, "driver")
    n = len(lines)
    shards = max(1, min(shards, n // 50 or 1))
    parts = [lines[i::shards] for i in range(shards)]
    procs = []
    for part in parts:
        p = subprocess.Popen(["bash", "-c", "ulimit -s unlimited 2>/dev/null; exec " + drv], stdin=subprocess.PIPE, stdout=subprocess.PIPE,
                             stderr=subprocess.PIPE)
        procs.append(p)
    import threading
    outs = [None] * shards

    def feed(i):
        o, e = procs[i].communicate(("\n".join(parts[i]) + "\n").encode())
        outs[i] = (o.decode().split("\n"), e.decode())
    ths = [threading.Thread(target=feed, args=(i,)) for i in range(shards)]
    for t in ths:
        t.start()
    for t in ths:
        t.join()
    res = [None] * n
    for i in range(shards):
        got, err = outs[i]
        if got and got[-1] == "":
            got = got[:-1]
        if len(got) != len(parts[i]):
            raise RuntimeError(f"driver {pid}: {len(parts[i])} requests, {len(got)} answers; stderr: {err[-500:]}")
        for j, g in enumerate(got):
            res[i + j * shards] = g
    return res


# ---------------------------------------------------------------- helpers for property modules
def hx(b):
    """bytes -> hex token ('-' for None, '.' for empty so that tokens never vanish)"""
    if b is None:
        return "-"
    if len(b) == 0:
        return "."
    return bytes(b).hex()


def unhx(s):
    if s == "-":
        return None
    if s == ".":
        return b""
    return bytes.fromhex(s)


def exc_class(e):
    """canonical error enum (DESIGN.md 2.2)"""
    n = type(e).__name__
    try:
        from swh.model.exceptions import ValidationError
        if isinstance(e, ValidationError):
            return "ValidationError"
    except Exception:
        pass
    for k in ("ValueError", "TypeError", "KeyError", "AssertionError", "AttributeError"):
        if n == k:
            return k
    for k, c in (("ValueError", ValueError), ("TypeError", TypeError), ("KeyError", KeyError)):
        if isinstance(e, c):
            return k
    return "Other(" + n + ")"


class Timeout(Exception):
    pass


def with_alarm(seconds, f, *a):
    import signal

    def h(sig, frm):
        raise Timeout()
    old = signal.signal(signal.SIGALRM, h)
    signal.alarm(seconds)
    try:
        return f(*a)
    finally:
        signal.alarm(0)
        signal.signal(signal.SIGALRM, old)


def canon(x):
    return json.dumps(x, sort_keys=True, default=lambda o: o.hex() if isinstance(o, (bytes, bytearray)) else repr(o))


# ---------------------------------------------------------------- known findings
def load_findings(pid):
    path = os.path.join(VERIF, "known_findings.jsonl")
    res = []
    if os.path.exists(path):
        for line in open(path):
            line = line.strip()
            if not line or line.startswith("#"):
                continue
            d = json.loads(line)
            if d.get("property") == pid:
                res.append(d)
    return res




# ---------------------------------------------------------------- extraction cross-check
COQ_CHECKSUM = """Definition cksum (l : list N) : N := fold_left (fun a b => ((a * 257 + b + 1) mod 1000000007)%N) l 0%N."""


def py_cksum(bs):
    a = 0
    for b in bs:
        a = (a * 257 + b + 1) % 1000000007
    return a


def coq_crosscheck(P, cases):
    """Evaluates a sample of cases INSIDE Coq (vm_compute on the model, no extraction, no OCaml) and compares with
    what the extracted driver answers: a check of the extraction + driver layer of the trusted base.
    P.coq_cases(cases) -> (coq source printing one `list N` of checksums, the same checksums computed from the driver)."""
    if not hasattr(P, "coq_cases"):
        return None
    sample = cases[:getattr(P, "COQ_SAMPLE", 25)]
    src, expected = P.coq_cases(sample)
    d = os.path.join(BUILD, P.ID)
    os.makedirs(d, exist_ok=True)
    f = os.path.join(d, "crosscheck_%d.v" % os.getpid())      # per process: two runs of one property must not share it
    open(f, "w").write(src)
    # concurrent checks (another property, another VERIF_REPO) may have rebuilt parts of coq/ since this run's build:
    # bring the tables and the model cone back to this run's state under the lock, then compile
    with BuildLock():
        gen_tables()
        sh(["timeout", "1500", "make", "-j16"] + require_targets(P.EXTRACT), cwd=COQ, timeout=1600)
        rc, out = sh(["timeout", "300", "coqc", "-Q", COQ, "SWH", f], cwd=d, timeout=320)
    for ext in (".v", ".vo", ".vok", ".vos", ".glob"):
        try:
            os.unlink(f[:-2] + ext)
        except OSError:
            pass
    try:
        os.unlink(os.path.join(d, ".crosscheck_%d.aux" % os.getpid()))
    except OSError:
        pass
    if rc:
        return {"ok": False, "why": "coqc failed: " + out[-400:], "n": len(sample)}
    m = re.search(r"=\s*\[(.*?)\]\s*:\s*list N", out.replace("\n", " "), re.S)
    got = [int(x) for x in re.findall(r"\d+", m.group(1))] if m else None
    if got != [int(x) for x in expected]:
        return {"ok": False, "why": "vm_compute inside Coq gives %s, the extracted driver %s" % (got, expected), "n": len(sample)}
    return {"ok": True, "n": len(sample)}

# ---------------------------------------------------------------- anchor coverage (how much of the modelled code the run executed)
def anchor_ranges(P):
    """{(file, qualname): (first_line, last_line)} for the functions listed in P.ANCHORS, read with ast from REPO"""
    import ast
    out = {}
    for rel, qual in getattr(P, "ANCHORS", []):
        try:
            tree = ast.parse(open(os.path.join(REPO, rel)).read())
        except Exception:
            continue
        import fnmatch
        parts = qual.split(".")
        funcs = (ast.FunctionDef, ast.AsyncFunctionDef)
        if len(parts) == 1:
            for n in tree.body:
                if isinstance(n, funcs) and fnmatch.fnmatchcase(n.name, parts[0]):
                    out[(rel, n.name)] = (n.body[0].lineno, n.end_lineno)
        else:
            for c in tree.body:
                if isinstance(c, ast.ClassDef) and fnmatch.fnmatchcase(c.name, parts[0]):
                    for n in c.body:
                        if isinstance(n, funcs) and fnmatch.fnmatchcase(n.name, parts[1]):
                            out[(rel, c.name + "." + n.name)] = (n.body[0].lineno, n.end_lineno)
    return out


class AnchorCoverage:
    """measures which executable lines of the anchored functions the implementation side of the
    correspondence executed (reported in the evidence; never a pass/fail criterion)"""

    def __init__(self, P):
        self.P = P
        self.cov = None
        if not getattr(P, "ANCHORS", None) or os.environ.get("VERIF_COVERAGE", "1") == "0":
            return
        try:
            import coverage
            files = sorted({os.path.join(REPO, rel) for rel, _ in P.ANCHORS})
            self.cov = coverage.Coverage(data_file=None, include=files, branch=False)
            self.cov.start()
        except Exception:
            self.cov = None

    def report(self):
        if self.cov is None:
            return {}
        try:
            self.cov.stop()
            res = {}
            for (rel, qual), (a, b) in sorted(anchor_ranges(self.P).items()):
                try:
                    _, stmts, _, missing, _ = self.cov.analysis2(os.path.join(REPO, rel))
                except Exception:
                    continue
                st = [l for l in stmts if a <= l <= b]
                ms = [l for l in missing if a <= l <= b]
                res["%s:%s" % (rel, qual)] = {"statements": len(st), "executed": len(st) - len(ms), "not_executed_lines": ms[:40]}
            return res
        except Exception as e:
            return {"error": repr(e)}

# ---------------------------------------------------------------- main flow
# No property may depend on the machine's local time zone: each run executes the implementation (and the swh / git
# subprocesses, which inherit the environment) under a zone chosen by seed and property; replay files record it.
LOCAL_ZONES = ["UTC", "Asia/Kolkata", "America/New_York", "Pacific/Chatham", "Europe/London", "America/St_Johns",
               "Australia/Lord_Howe", "Pacific/Kiritimati", "Etc/GMT+12"]


def set_local_zone(tz):
    if tz and not (tz == "UTC" or "/" not in tz or os.path.exists(os.path.join("/usr/share/zoneinfo", tz))):
        tz = "UTC"
    os.environ["TZ"] = tz or "UTC"
    time.tzset()


def write_replay(pid, seed, n, obj):
    obj.setdefault("local_tz", os.environ.get("TZ", ""))
    d = os.path.join(VERIF, "replays", pid)
    os.makedirs(d, exist_ok=True)
    path = os.path.join(d, f"{seed}-{n}.json")
    try:
        rc, head = sh(["git", "-C", REPO, "rev-parse", "HEAD"])
        obj["repo_head"] = head.strip()
    except Exception:
        pass
    obj["how_to_replay"] = f"cd {VERIF} && ./check {pid} --replay {path}"
    with open(path, "w") as f:
        json.dump(obj, f, indent=1, sort_keys=True, default=lambda o: o.hex() if isinstance(o, (bytes, bytearray)) else repr(o))
    return path


def write_evidence(pid, tier, seed, t0, proof, corr, violations, extra_assumptions=()):
    P = importlib.import_module("harness." + pid.lower())
    cov = {
        "obligations": max(1, proof.get("obligations", 0)),
        "discharged": proof.get("discharged", 0),
        "checker_cmd": f"cd {COQ} && make {' '.join(require_targets(P.PROPS))} && coqc -Q . SWH {P.PROPS}  (Print Assumptions parsed)"
                       + ("; coqchk -o" if tier == "thorough" else ""),
        "trusted_base": list(getattr(P, "TRUSTED", [])) + [
            "Coq 8.16.1 kernel (coqc; vm_compute used, native_compute not used)",
            "tools/gen_tables.py (source tables -> coq/Generated.v)",
            "extraction (ExtrOcamlBasic only, no Extract Constant/Inductive of our own), ocaml/conv.ml + ocaml/drv_%s.ml, ocamlfind ocamlopt" % pid,
            "harness/%s.py generators, canonicalisation and comparison; /venv/bin/python" % pid.lower(),
        ],
        "theorems": proof.get("theorems", []),
        "axioms": proof.get("axioms", {}),
        "proof_errors": proof.get("errors", []),
        "proof_build_s": round(proof.get("build_s", 0.0), 1),
        "evaluations": corr.get("evaluations", 0),
        "distinct_nontrivial": corr.get("distinct_nontrivial", 0),
        "traces_validated_against_impl": corr.get("evaluations", 0),
        "rule": getattr(P, "RULE", ""),
        "samples": corr.get("samples", []) or ["(no case was run)"],
        "distribution": corr.get("distribution", {}),
        "disagreements": corr.get("disagreements", 0),
        "anchor_coverage": corr.get("anchor_coverage", {}),
        "extraction_crosscheck": corr.get("extraction_crosscheck", "not implemented for this property"),
        "local_time_zone_of_this_run": os.environ.get("TZ", ""),
        "known_findings_replayed": corr.get("known", []),
    }
    if "coqchk" in proof:
        cov["coqchk"] = proof["coqchk"]
    ev = {
        "property_id": pid, "tier": tier, "seed": seed, "level": "proof",
        "coverage": cov,
        "assumptions": list(getattr(P, "ASSUMPTIONS", [])) + list(extra_assumptions),
        "wall_s": round(time.time() - t0, 2),
        "violations": violations,
    }
    os.makedirs(os.path.join(VERIF, "evidence"), exist_ok=True)
    with open(os.path.join(VERIF, "evidence", pid + ".json"), "w") as f:
        json.dump(ev, f, indent=1, default=lambda o: o.hex() if isinstance(o, (bytes, bytearray)) else repr(o))


class Ctx:
    def __init__(self, pid, tier, seed):
        self.pid, self.tier, self.seed = pid, tier, seed
        self.rng = random.Random(seed)


# No property may depend on the logging configuration of the process: about half of the cases (a function of the case itself,
# so that a replay reproduces it) run with DEBUG logging enabled and every record formatted - lazy %-formatting of log
# arguments then really happens (a repr() that reads a cache, an accessor with a side effect).
class _FormatAndDrop(__import__("logging").Handler):
    def emit(self, record):
        try:
            record.getMessage()
        except Exception:
            pass


_LOG_HANDLER = _FormatAndDrop()


def case_wants_debug_logging(c):
    import zlib
    try:
        return zlib.crc32(canon(c).encode("utf-8", "replace")) % 2 == 0
    except Exception:
        return False


def case_wants_warnings_as_errors(c):
    import zlib
    try:
        return (zlib.crc32(canon(c).encode("utf-8", "replace")) >> 1) % 4 == 0
    except Exception:
        return False


def set_debug_logging(on):
    import logging
    root = logging.getLogger()
    if on:
        if _LOG_HANDLER not in root.handlers:
            root.addHandler(_LOG_HANDLER)
        root.setLevel(logging.DEBUG)
        logging.getLogger("swh").setLevel(logging.DEBUG)
    else:
        if _LOG_HANDLER in root.handlers:
            root.removeHandler(_LOG_HANDLER)
        root.setLevel(logging.WARNING)
        logging.getLogger("swh").setLevel(logging.NOTSET)


def evaluate_cases(P, cases):
    """Run cases through implementation and model; returns list of
    (case, impl_res, model_res, verdict) where verdict is None (agree and the
    property predicate holds) or a dict describing the failure."""
    # implementation side first (a property may feed what the implementation
    # produced - a trace, a manifest - back into the model: P.REQUESTS_NEED_IMPL)
    ires_all = []
    for c in cases:
        set_debug_logging(case_wants_debug_logging(c))
        try:
            if getattr(P, "WARNINGS_AS_ERRORS_OK", True) and case_wants_warnings_as_errors(c):
                # a quarter of the cases run with warnings turned into errors (pytest -W error, a strict service): a warning
                # the library emits on a route that is not deprecated then aborts the call (harness routes that use a
                # deprecated API on purpose silence warnings locally, which takes precedence)
                import warnings
                with warnings.catch_warnings():
                    warnings.simplefilter("error")
                    ires = with_alarm(getattr(P, "CASE_TIMEOUT", 20), P.impl, c)
            else:
                ires = with_alarm(getattr(P, "CASE_TIMEOUT", 20), P.impl, c)
        except Timeout:
            ires = {"error": "Timeout"}
        except Exception as e:  # impl() is expected to catch; anything here is a harness-visible crash
            ires = {"error": exc_class(e), "trace": traceback.format_exc()[-600:]}
        ires_all.append(ires)
    need = getattr(P, "REQUESTS_NEED_IMPL", False)
    reqs, spans = [], []
    for c, ires in zip(cases, ires_all):
        r = P.requests(c, ires) if need else P.requests(c)
        spans.append((len(reqs), len(r)))
        reqs += r
    resp = run_driver(P.ID, reqs)
    out = []
    for c, ires, (a, n) in zip(cases, ires_all, spans):
        try:
            mres = P.model(c, resp[a:a + n])
        except Exception as e:
            mres = {"model_error": repr(e), "raw": resp[a:a + n]}
        verdict = None
        try:
            why = P.oracle(c, ires, mres)
            if why:
                verdict = {"kind": "property-violation", "why": why}
            else:
                why = P.compare(c, ires, mres)
                if why:
                    verdict = {"kind": "model-disagreement", "why": why}
        except Exception as e:
            verdict = {"kind": "model-disagreement", "why": "comparison crashed: " + repr(e) + traceback.format_exc()[-400:]}
        out.append((c, ires, mres, verdict))
    return out


def shrink_case(P, case, kind, budget=None):
    budget = budget or getattr(P, "SHRINK_BUDGET", 400)
    """greedy shrinking with the property's own candidate generator"""
    if not hasattr(P, "shrink"):
        return case
    cur = case
    steps = 0
    improved = True
    while improved and steps < budget:
        improved = False
        for cand in P.shrink(cur):
            steps += 1
            if steps > budget:
                break
            try:
                r = evaluate_cases(P, [cand])[0]
            except Exception:
                continue
            if r[3] and r[3]["kind"] == kind:
                cur = cand
                improved = True
                break
    return cur


def corpus_cases(P):
    d = os.path.join(VERIF, "corpus", P.ID)
    res = []
    if os.path.isdir(d):
        for f in sorted(os.listdir(d)):
            if f.endswith(".json"):
                obj = json.load(open(os.path.join(d, f)))
                res += obj if isinstance(obj, list) else [obj]
    return res


def main(argv=None):
    argv = argv or sys.argv[1:]
    import argparse
    ap = argparse.ArgumentParser()
    ap.add_argument("prop")
    ap.add_argument("--tier", default=os.environ.get("VERIF_TIER", "quick"))
    ap.add_argument("--replay")
    ap.add_argument("--no-proofs", action="store_true", help="development only: skip step 2")
    a = ap.parse_args(argv)
    pid = a.prop.upper()
    tier = a.tier if a.tier in ("quick", "thorough") else "quick"
    seed = int(os.environ.get("VERIF_SEED", "0") or 0)
    os.environ[GUARD] = "1"
    os.environ.setdefault("PYTHONHASHSEED", "0")
    set_local_zone(os.environ.get("VERIF_TZ") or LOCAL_ZONES[(seed + int(pid[1:])) % len(LOCAL_ZONES)])
    if REPO not in sys.path:
        sys.path.insert(0, REPO)
    P = importlib.import_module("harness." + pid.lower())
    if a.replay:
        return replay_main(P, a.replay)
    t0 = time.time()
    ctx = Ctx(pid, tier, seed)
    failures = []      # (obligation, detail)
    # tables, proofs and driver are built under ONE lock: Generated.v must not change under a concurrent check
    _lock = BuildLock()
    _lock.__enter__()
    ok, msg = gen_tables()
    if not ok:
        failures.append(("table:gen_tables", msg[-800:]))
    else:
        # a table the translator could not read breaks exactly the properties whose development mentions it
        try:
            missing = json.load(open(os.path.join(COQ, "Generated.missing.json")))
        except Exception:
            missing = {}
        if missing:
            text = ""
            for f in set(cone(P.PROPS) + cone(P.EXTRACT)):
                if os.path.exists(os.path.join(COQ, f)) and f != "Generated.v":
                    text += strip_comments(open(os.path.join(COQ, f)).read())
            for ident, why in missing.items():
                pat = ident.replace("*", r"\w*")
                if re.search(r"\b" + pat + r"\b", text):
                    failures.append(("table:" + ident, "tools/gen_tables.py could not read this table from the source: " + why))
    if a.no_proofs:
        proof = {"ok": True, "obligations": len(P.THEOREMS), "discharged": 0, "errors": ["skipped (--no-proofs)"]}
    else:
        try:
            proof = build_proofs(P, tier)
        except Exception as e:
            proof = {"ok": False, "obligations": len(P.THEOREMS), "discharged": 0, "errors": ["proof step crashed: " + repr(e)]}
        if not proof["ok"]:
            for e in proof["errors"]:
                failures.append((e.split(" ")[0] if ":" in e.split(" ")[0] else "theorem:" + e, e + "\n" + proof.get("build_log", "")))
    log(f"[{pid}] proofs: {proof.get('discharged')}/{proof.get('obligations')} in {proof.get('build_s', 0):.1f}s {proof.get('errors')}")
    try:
        dok, dmsg = build_driver(P)
    finally:
        _lock.__exit__()
    log(f"[{pid}] driver: {dmsg[:300]}")
    corr = {"evaluations": 0, "distinct_nontrivial": 0, "samples": [], "distribution": {}, "disagreements": 0, "known": []}
    bad = []
    findings = load_findings(pid)
    open_classes = {f["key"] for f in findings if f.get("status") == "open"}
    if not dok:
        failures.append(("correspondence:model-does-not-build", dmsg))
    if hasattr(P, "pre_checks"):
        # table side conditions and other run-time cross-checks that do not fit the case stream
        try:
            for ob, detail in P.pre_checks(ctx) or []:
                failures.append((ob, detail))
        except Exception as e:
            failures.append(("table:pre_checks-crashed", repr(e) + traceback.format_exc()[-500:]))
    acov = AnchorCoverage(P) if dok else None
    if dok:
        seen = set()
        nontriv = set()
        dist = {}
        try:
            cases = corpus_cases(P) + list(P.gen(ctx.rng, tier))
        except Exception as e:
            # some generators build their inputs with the library itself: a library that now refuses what it used to accept
            # breaks the correspondence before the first case; the recorded corpus is still run
            failures.append(("correspondence:case-generation-raised", repr(e) + "\n" + traceback.format_exc()[-1500:]))
            try:
                cases = corpus_cases(P)
            except Exception:
                cases = []
        B = 400
        for i in range(0, len(cases), B):
            batch = cases[i:i + B]
            try:
                results = evaluate_cases(P, batch)
            except Exception as e:
                failures.append(("correspondence:harness-crashed", repr(e) + traceback.format_exc()[-800:]))
                break
            for c, ires, mres, verdict in results:
                key = canon(c)
                corr["evaluations"] += 1
                if key not in seen:
                    seen.add(key)
                    try:
                        if P.nontrivial(c):
                            nontriv.add(key)
                    except Exception:
                        pass
                for k in (P.classify(c) if hasattr(P, "classify") else []):
                    dist[k] = dist.get(k, 0) + 1
                if len(corr["samples"]) < 4 and (i == 0 or len(corr["samples"]) < 2):
                    if P.nontrivial(c) or len(corr["samples"]) < 1:
                        corr["samples"].append({"case": c, "impl": ires, "model": mres})
                if verdict:
                    fk = None
                    if hasattr(P, "finding_key"):
                        import inspect
                        if len(inspect.signature(P.finding_key).parameters) >= 4:
                            fk = P.finding_key(c, ires, mres, verdict)   # may look at which predicate failed
                        else:
                            fk = P.finding_key(c, ires, mres)
                    if fk and fk in open_classes:
                        dist["known-finding:" + fk] = dist.get("known-finding:" + fk, 0) + 1
                        continue
                    bad.append((c, ires, mres, verdict))
            if len(bad) >= 5:
                break
        corr["distinct_nontrivial"] = len(nontriv)
        corr["distribution"] = dist
        corr["anchor_coverage"] = acov.report() if acov else {}
        try:
            xc = coq_crosscheck(P, cases)
        except Exception as e:
            xc = {"ok": False, "why": "cross-check crashed: " + repr(e)}
        if xc is not None:
            corr["extraction_crosscheck"] = xc
            if not xc["ok"]:
                failures.append(("correspondence:extraction-crosscheck", xc["why"]))
        corr["disagreements"] = len(bad)
    log(f"[{pid}] correspondence: {corr['evaluations']} cases, {corr['distinct_nontrivial']} distinct non-trivial, {len(bad)} bad")

    violation_lines = []
    nrep = 0
    if bad:
        # prefer a genuine property violation; shrink it
        bad.sort(key=lambda b: 0 if b[3]["kind"] == "property-violation" else 1)
        c, ires, mres, verdict = bad[0]
        try:
            c2 = shrink_case(P, c, verdict["kind"])
            r = evaluate_cases(P, [c2])[0]
            if r[3] and r[3]["kind"] == verdict["kind"]:
                shr = c if canon(c2) != canon(c) else None
                c, ires, mres, verdict = r
            else:
                shr = None
        except Exception:
            shr = None
        kind = verdict["kind"]
        rep = {"property": pid, "obligation": "correspondence:" + getattr(P, "OBLIGATION", pid),
               "kind": kind, "input": c, "expected": mres, "observed": ires, "why": verdict["why"],
               "shrunk_from": shr, "seed": seed, "other_failing_cases": len(bad) - 1,
               "also_failing_obligations": [f[0] for f in failures]}
        path = write_replay(pid, seed, nrep, rep)
        nrep += 1
        suffix = "" if kind == "property-violation" else " no-failing-input-found"
        if kind != "property-violation":
            rep["note"] = ("model and implementation disagree on this input, but the property predicate evaluated "
                           "directly on the implementation holds for it; the correspondence no longer checks")
            write_replay(pid, seed, nrep - 1, rep)
        violation_lines.append(f"VIOLATION property={pid} replay={path}{suffix}")
    elif failures:
        # a proof obligation / table broke but no generated case fails: the
        # stream above already evaluated the property predicate on the
        # implementation for every case (P.oracle), so this is the search result.
        rep = {"property": pid, "obligation": failures[0][0], "kind": "no-failing-input-found",
               "detail": failures[0][1], "all_failed_obligations": [f[0] for f in failures],
               "searched": {"cases": corr["evaluations"], "distinct_nontrivial": corr["distinct_nontrivial"],
                            "predicate": "property predicate on the implementation + model/implementation comparison"},
               "seed": seed}
        path = write_replay(pid, seed, nrep, rep)
        violation_lines.append(f"VIOLATION property={pid} replay={path} no-failing-input-found")

    # known findings: replay every recorded witness against the implementation
    known_lines = []
    if dok:
        for f in findings:
            try:
                r = evaluate_cases(P, [f["witness"]])[0]
                failing = r[3] is not None
            except Exception as e:
                failing = True
                r = (f["witness"], {"error": repr(e)}, None, {"kind": "harness", "why": repr(e)})
            if f.get("status") == "open":
                if failing:
                    known_lines.append(f"KNOWN-FINDING: property={pid} {f['key']}: {f.get('note', '')}")
                corr["known"].append({"key": f["key"], "status": "open", "still_failing": failing})
            else:  # fixed: must pass
                corr["known"].append({"key": f["key"], "status": "fixed", "still_failing": failing})
                if failing and not violation_lines:
                    rep = {"property": pid, "obligation": "fixed-finding:" + f["key"], "kind": r[3]["kind"],
                           "input": f["witness"], "observed": r[1], "expected": r[2], "why": r[3]["why"], "seed": seed}
                    path = write_replay(pid, seed, nrep, rep)
                    nrep += 1
                    suffix = "" if r[3]["kind"] == "property-violation" else " no-failing-input-found"
                    violation_lines.append(f"VIOLATION property={pid} replay={path}{suffix}")
    write_evidence(pid, tier, seed, t0, proof, corr, len(violation_lines))
    for l in known_lines:
        print(l)
    for l in violation_lines[:1]:
        print(l)
    sys.stdout.flush()
    return 1 if violation_lines else 0


def crashed(argv, exc, tb):
    """the check itself raised: report it as a broken obligation (exit 1 with a VIOLATION line), never as a bare traceback"""
    pid = next((a.upper() for a in argv if re.fullmatch(r"[Cc]\d\d", a)), "C00")
    seed = int(os.environ.get("VERIF_SEED", "0") or 0)
    if isinstance(exc, KeyboardInterrupt):
        raise exc
    path = write_replay(pid, seed, 0, {"property": pid, "kind": "no-failing-input-found", "obligation": "harness:check-crashed",
                                        "detail": repr(exc) + "\n" + tb[-3000:], "seed": seed})
    print(f"VIOLATION property={pid} replay={path} no-failing-input-found", flush=True)
    return 1


def replay_main(P, path):
    rep = json.load(open(path))
    if "input" not in rep:
        print("replay names a broken obligation, not an input:", rep.get("obligation"))
        print(rep.get("detail", "")[-2000:])
        return 1
    if rep.get("local_tz"):
        set_local_zone(rep["local_tz"])
    ok, msg = build_driver(P)
    if not ok:
        print(msg)
        return 1
    c, ires, mres, verdict = evaluate_cases(P, [rep["input"]])[0]
    print("input:   ", canon(c)[:3000])
    print("model:   ", canon(mres)[:3000])
    print("observed:", canon(ires)[:3000])
    print("verdict: ", verdict)
    return 1 if verdict else 0
