"""C14 - Merkle collection reports every new or changed node, once (merkle.py collect_node / collect / reset_collect).

Same heap machine, driver protocol, implementation runner and comparison as
C10 (harness/c10.py); the histories carry many more collect / reset_collect
operations at random nodes and the scenario "detach a subtree, mutate it or
not, move it back in".  Compared op by op: the set returned by collect() as the
sorted set of the hashes of its members (a Python set keeps one of two nodes
that are == and hash alike: the comparison is up to that), all hashes, and the
exception classes.  Oracle on the implementation alone (c10.impl): after every
collect(root) every node reachable from root has had its current from-scratch
hash reported by some collect; a collect that follows a collect of the same
root with only reads / other collects in between returns nothing; a collect
that follows reset_collect(root) with only reads in between returns (up to
equal hashes) every reachable node; every node below ANY reset_collect(n) is reported again by the first later
collect(r) that has it below r, whatever n and r are (partial resets, resets at shared nodes, collections from any
ancestor, mutations in between); every collected node carries a fresh hash.
"""
from . import c10 as base
from .c10 import (impl, requests, model, oracle, compare, shrink, enc_op, Shadow, H, CASE_TIMEOUT, finding_key)  # noqa

ID = "C14"
PROPS = "Props/C14.v"
EXTRACT = "extract/ExC14.v"
OBLIGATION = "merkle-collect-history"
THEOREMS = ["C14_inv_step", "C14_complete", "C14_idempotent", "C14_collected_has_hash", "C14_collect_nohash_refuted",
            "C14_failed_op_is_noop", "C14_reset", "C14_reset_uncollects",
            "C14_uncollected_frame", "C14_collect_reports_uncollected", "C14_reset_partial",
            "C14_reset_partial_satisfiable", "C14_collect_early_refuted", "C14_write_force_collect",
            "C14_force_lazy_refuted", "C14_reports_sound",
            "C14_guards_satisfiable"]
RULE = ("collect as the very FIRST operation on freshly built and on freshly attached nodes, then mutations below "
        "and a second collect, with no hash / swhid / entries / to_model / iter_tree / get_data read in between - "
        "neither in the history nor by the runner, which never reads .hash of a collected node (it uses the "
        "from-scratch hash, or the cached value without computing it); C10's deep chains (150..450 nodes exact, 1100/1500 recorded as chain-deeper-than-recursion-limit) and "
        "C10's histories (5-60 operations over <= 12 generic or Directory/Content nodes, DAGs with shared and "
        "structurally equal nodes) with collect / reset_collect at random nodes between mutations, reads and forced "
        "updates (resets at the root, at strict descendants and at shared nodes, followed later by collects from "
        "ancestors: every node below a reset is owed to the first later collect that has it below), and detach / "
        "mutate-or-not / re-attach of a subtree; out-of-band data writes (op W) followed by update_hash(force=True) "
        "at a dominating node and a collect: every node below the forced node must be reported again with its new "
        "hash (C14_write_force_collect); operations that raise between two collects of the same root are not a "
        "change (C14_failed_op_is_noop): the second collect must report nothing and no collected flag may fall; "
        "non-trivial = at least 2 collects and a "
        "successful mutation between two of them; distinct = distinct request line")
TRUSTED = base.TRUSTED + ["a Python set of nodes deduplicates by (hash(node.hash), ==): modelled as 'any sub-collection "
                          "keeping one representative per class of equal-hash equal-structure nodes'"]
ASSUMPTIONS = base.ASSUMPTIONS + ["'reported' is up to node equality (a set cannot hold two == nodes)"]

WEIGHTS = {"N": 3, "S": 7, "D": 4, "U": 3.5, "G": 0.3, "C": 0.3, "H": 2, "F": 2.5, "E": 0.5, "M": 0.5, "L": 7, "R": 2, "W": 2,
           "I": 1, "T": 1, "A": 0.5, "Q": 0.5, "V": 0.8, "K": 0.5}


def detach_scenario(rng, world):
    inner, leaf = ("n", "l") if world == "generic" else ("d", "c")
    d = H(b"x") if world == "generic" else H(b"")
    ld = H(b"y") if world == "generic" else H(b"644:A")
    a, b, x = H(b"a"), H(b"b"), H(b"c")
    ops = [["N", inner, d], ["N", inner, d], ["N", inner, d], ["N", leaf, ld], ["N", leaf, ld]]
    root, p, q, l1, l2 = 0, 1, 2, 3, 4
    ops += [["S", q, x, l1], ["S", p, a, q], ["S", root, a, p], ["S", root, b, q] if rng.random() < 0.5 else ["H", root],
            ["L", root], ["D", p, a]]
    if rng.random() < 0.5:
        ops += [["L", root]]
    r = rng.random()
    if r < 0.4:
        ops += [["S", q, b, l2]]
    elif r < 0.6:
        ops += [["D", q, x]]
    ops += [["S", p, a, q] if rng.random() < 0.7 else ["U", p, [[a, q]]], ["L", root], ["L", root], ["R", root], ["L", root]]
    return ops


def gen(rng, tier):
    n_cases = 820 if tier == "quick" else 30000
    cases = base.deep_cases(rng, tier)      # chains of 200 .. 1500 nested nodes (deeper in the thorough tier)
    for k in range(n_cases):
        world = "mixed" if k % 10 == 9 else "generic" if k % 2 == 0 else "disk"
        nops = rng.randrange(5, 61)
        c = base.gen_case(rng, world, nops, WEIGHTS, nscen=17, readall=(rng.random() < 0.2))
        if rng.random() < 0.3:
            pre = detach_scenario(rng, world)
            sh = Shadow()
            for op in pre:
                sh.apply(op)
            # continue randomly from the scenario's structure
            ops = list(pre)
            w = dict(WEIGHTS)
            tries = 0
            while len(ops) < nops and tries < 600:
                tries += 1
                op = base.rand_op(rng, world, sh, w)
                if sh.safe(op):
                    sh.apply(op)
                    ops.append(op)
            ops += [["L", 0], ["H", 0]]
            c = {"world": world, "ops": ops, "by_id": 1}
        cases.append(c)
    return cases


def nontrivial(c):
    seen_collect, mutated_after, ok = 0, False, False
    sh = Shadow()
    for op in c["ops"]:
        ch = sh.apply(op)
        if op[0] == "L":
            if seen_collect and mutated_after:
                ok = True
            seen_collect += 1
            mutated_after = False
        elif ch is not None:
            mutated_after = True
    return ok


def classify(c):
    ks = base.classify(c)
    ops = [op[0] for op in c["ops"]]
    if any(a == "L" and b == "L" for a, b in zip(ops, ops[1:])):
        ks.append("collect-twice")
    if any(a == "R" and b == "L" for a, b in zip(ops, ops[1:])):
        ks.append("reset-then-collect")
    return ks


# functions of /repo whose executed-line coverage by this run is reported in the evidence
ANCHORS = [('swh/model/merkle.py', 'MerkleNode.*')]
