"""Shared generators / helpers for the header-list manifests (C03, C04, C15, C07)."""
from .core import hx

TS_MIN, TS_MAX = -62135510961, 253402297199


def gen_bytes(rng, kind=None):
    kind = kind or rng.choice(["empty", "word", "nl", "lead_sp", "multi", "trail_nl", "nlsp", "bin", "long"])
    if kind == "empty":
        return b""
    if kind == "word":
        return rng.choice([b"v1.0", b"fix", b"hello world", b"\xc3\xa9t\xc3\xa9"])
    if kind == "nl":
        return b"a\nb"
    if kind == "lead_sp":
        return b" leading"
    if kind == "multi":
        return b"-----BEGIN PGP-----\n\nabc\n def\n-----END-----"
    if kind == "trail_nl":
        return b"line\n"
    if kind == "nlsp":
        return b"\n \n\n  x"
    if kind == "bin":
        return bytes(rng.randrange(256) for _ in range(rng.randrange(1, 12)))
    return bytes(rng.choice(b"ab \n") for _ in range(rng.randrange(20, 60)))


def gen_date(rng):
    s = rng.choice([0, -1, 1, TS_MIN, TS_MAX, 1234567890, rng.randrange(TS_MIN, TS_MAX), rng.randrange(-10**6, 10**10)])
    us = rng.choice([0, 0, 1, 10, 100000, 999999, 500000, 123450, rng.randrange(10**6)])
    off = rng.choice([b"+0000", b"-0000", b"+0100", b"-1230", b"+1", b"junk", b"\xff\xfe", b"", b"+00000", b" +0200", b"+02 00\n"])
    return [s, us, off.hex()]


def gen_fullname(rng):
    return rng.choice([b"A U Thor <a@b.c>", b"", b"x", b"Name\nwith newline <e>", b" lead", b"\xff\xfe", b"no email", b"a <b> c <d>"])


def fmt_date_spec(s, us):
    """the exact decimal text, written from the property statement"""
    if us == 0:
        return str(s).encode()
    return (str(s) + "." + ("%06d" % us).rstrip("0")).encode()


def author_line_spec(fullname, date):
    if date is None:
        return fullname
    s, us, off = date
    return fullname + b" " + fmt_date_spec(s, us) + b" " + bytes.fromhex(off)


def mk_tstz(date):
    from swh.model.model import Timestamp, TimestampWithTimezone
    if date is None:
        return None
    s, us, off = date
    return TimestampWithTimezone(timestamp=Timestamp(seconds=s, microseconds=us), offset_bytes=bytes.fromhex(off))


def mk_person(fullname_hex, variant=0):
    from swh.model.model import Person
    if fullname_hex is None:
        return None
    fn = bytes.fromhex(fullname_hex)
    if variant == 0:
        return Person(fullname=fn, name=None, email=None)
    return Person(fullname=fn, name=b"other name", email=b"other@email")


def enc_date(date):
    if date is None:
        return "-"
    s, us, off = date
    return "%d:%d:%s" % (s, us, hx(bytes.fromhex(off)))


def enc_opt(h):
    return "-" if h is None else hx(bytes.fromhex(h))


def date_dict(date):
    if date is None:
        return None
    s, us, off = date
    return {"timestamp": {"seconds": s, "microseconds": us}, "offset_bytes": bytes.fromhex(off)}


def person_dict(fullname_hex):
    if fullname_hex is None:
        return None
    return {"fullname": bytes.fromhex(fullname_hex), "name": None, "email": None}


# ---------------------------------------------------------------- added by the C03/C04 dimension audit
# (the helpers above are unchanged; these only ADD shapes that gen_bytes / gen_date / gen_fullname never draw)
WIDE_KINDS = ["crlf", "cr", "cr_nl_mix", "nul", "tabcont", "only_nl", "two_nl", "sp", "trail_sp", "nl_sp_end", "sp_nl",
              "seps", "u2028", "hdrlike", "manylines", "kb", "nl_run"]


def gen_bytes_wide(rng, kind=None):
    """gen_bytes, plus: CR / CRLF (bytes.splitlines boundaries), NUL, a TAB- or SP-started continuation line, lone
    separators, the other 'line boundary' code points of str.splitlines, header look-alikes, more than 100 lines, ~1 kB"""
    if kind is None and rng.random() < 0.55:
        return gen_bytes(rng)
    kind = kind or rng.choice(WIDE_KINDS)
    if kind in ("kb", "manylines") and rng.random() < 0.75:      # the two big shapes: rarer
        kind = rng.choice(WIDE_KINDS[:14])
    if kind == "crlf":
        return rng.choice([b"line1\r\nline2\r\n", b"-----BEGIN-----\r\n\r\nab\r\n-----END-----", b"a\r\nb"])
    if kind == "cr":
        return rng.choice([b"a\rb", b"\r", b"x\r"])
    if kind == "cr_nl_mix":
        return rng.choice([b"a\rb\nc", b"a\n\rb", b"\r\n", b"a\r\n b"])
    if kind == "nul":
        return rng.choice([b"a\x00b", b"\x00", b"x\x00", b"\x00\n\x00"])
    if kind == "tabcont":
        return rng.choice([b"a\n\tb", b"\tlead", b"a\n\t"])
    if kind == "only_nl":
        return b"\n"
    if kind == "two_nl":
        return rng.choice([b"\n\n", b"x\n\n", b"\n\n\n"])
    if kind == "sp":
        return rng.choice([b" ", b"  "])
    if kind == "trail_sp":
        return rng.choice([b"x ", b"a\nb "])
    if kind == "nl_sp_end":
        return rng.choice([b"x\n ", b"\n "])
    if kind == "sp_nl":
        return rng.choice([b" \n", b" \n "])
    if kind == "seps":
        return b"a\x0bb\x0cc\x1cd\x1de\x1ef\x85g"
    if kind == "u2028":
        return "a\u2028b\u2029c\x85d".encode()
    if kind == "hdrlike":
        return rng.choice([b"x\nparent 0123\ntree 4567\n\nmsg", b"x\ntagger T <t> 1 +0000\n\nbody", b"\nobject 00\ntype commit"])
    if kind == "manylines":
        return b"\n".join([rng.choice([b"l", b"", b" m"]) for _ in range(rng.randrange(101, 300))])
    if kind == "nl_run":
        return b"\n" * rng.randrange(3, 40)
    return bytes(rng.choice(b"ab \n\r") for _ in range(rng.randrange(1000, 1100)))


def gen_fullname_wide(rng):
    if rng.random() < 0.6:
        return gen_fullname(rng)
    return rng.choice([b"A\r\nB <x@y>", b"N\x00UL <n@u.l>", b"<>", b" ", b"Jane Doe <>", b" <e>", b"name <a@b> 1234567890 +0000",
                       b"x\n", b"\n", b"a\n b", b"a\n\tb", b"x " * 150, b"\xe2\x80\xa8", b"trailing space "])


def gen_date_wide(rng):
    """gen_date, plus digit-count boundaries of seconds / microseconds and more offset-byte shapes"""
    if rng.random() < 0.6:
        return gen_date(rng)
    s = rng.choice([TS_MIN + 1, TS_MAX - 1, 2 ** 31 - 1, 2 ** 31, 2 ** 32, 2 ** 33, -2 ** 31, 10 ** 9, 999999999, 9, 10, -9, -10, 99, 100,
                    -62135510961, 253402297199, 0])
    us = rng.choice([0, 1, 9, 99, 999, 99999, 999990, 999900, 100, 1000, 10000, 900000, 90, 909090, 5])
    off = rng.choice([b"+1400", b"-1200", b"+0530", b"+9959", b"-0059", b"+2", b"\n", b" ", b"+01\r\n", b"+0100 extra", b"\x00",
                      b"+0000", b"-0000", b"+0060", b"a\n b", b"-"])
    return [s, us, off.hex()]


def gen_id(rng, pool=()):
    """an object id as the model accepts it (Sha1Git = bytes, no length check): mostly 20 random bytes, sometimes git's
    null id, an id sharing all but its last / first byte with one already in the object (memo keys), 1 or 32 bytes"""
    x = rng.random()
    pool = [p for p in pool if len(p) >= 2]
    if x < 0.66 or (not pool and 0.75 <= x < 0.90):
        return bytes(rng.randrange(256) for _ in range(20))
    if x < 0.75:
        return bytes(20)
    if x < 0.84:
        b = rng.choice(pool)
        return b[:-1] + bytes([b[-1] ^ 1])
    if x < 0.90:
        b = rng.choice(pool)
        return bytes([b[0] ^ 0x80]) + b[1:]
    if x < 0.94:
        return bytes([rng.randrange(1, 256)])
    if x < 0.98:
        return bytes(rng.randrange(256) for _ in range(32))
    return b"\xff" * 20


def canonical_offset(off):
    """(minutes, negative_utc) when the offset bytes are exactly what from_numeric_offset writes, else None"""
    import re
    if not re.fullmatch(rb"[+-][0-9]{2}[0-5][0-9]", off):
        return None
    n = int(off[1:3]) * 60 + int(off[3:5])
    if off[:1] == b"-":
        return (-n, n == 0)
    return (n, False)


LEGACY_DATE_MODES = ["offset", "offset-no-flag", "offset-flag-none", "ts-int", "no-us", "both-keys"]


def date_dict_legacy(date, mode):
    """the same date in one of the dictionary encodings from_dict still accepts (None when this date cannot be
    written that way): numeric 'offset' (+ 'negative_utc' flag given / absent / None), 'timestamp' as a plain int,
    'microseconds' key absent, and a row carrying BOTH the recorded offset_bytes and a (contradicting) numeric offset"""
    if date is None:
        return None
    s, us, off = date
    off = bytes.fromhex(off)
    ts = {"seconds": s, "microseconds": us}
    if mode == "both-keys":
        return {"timestamp": ts, "offset_bytes": off, "offset": 17, "negative_utc": False}
    if mode == "ts-int":
        return {"timestamp": s, "offset_bytes": off} if us == 0 else None
    if mode == "no-us":
        return {"timestamp": {"seconds": s}, "offset_bytes": off} if us == 0 else None
    co = canonical_offset(off)
    if co is None:
        return None
    minutes, neg = co
    if mode == "offset":
        return {"timestamp": ts, "offset": minutes, "negative_utc": neg}
    if mode == "offset-no-flag":
        return None if neg else {"timestamp": ts, "offset": minutes}
    if mode == "offset-flag-none":
        return None if neg else {"timestamp": ts, "offset": minutes, "negative_utc": None}
    return None


NOFULLNAME_SPLITS = 6


def nofullname_split(fn, i):
    """(name, email, documented fullname) for a person given WITHOUT fullname: 'name', '<email>' or 'name <email>',
    an empty name or email still counts"""
    half = len(fn) // 2
    name, email = [(fn, None), (None, fn), (fn, b""), (b"", fn), (fn[:half], fn[half:]), (b"", b"")][i % NOFULLNAME_SPLITS]
    parts = ([name] if name is not None else []) + ([b"<" + email + b">"] if email is not None else [])
    return name, email, b" ".join(parts)


class BytesSub(bytes):
    """a bytes subclass: equal to, and hashing like, the plain value"""


def mk_person_from_fullname(fullname_hex):
    """the person as Person.from_fullname guesses it (fullname kept verbatim, name / email derived)"""
    from swh.model.model import Person
    return None if fullname_hex is None else Person.from_fullname(bytes.fromhex(fullname_hex))
