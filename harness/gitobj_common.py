"""Shared generators / helpers for the header-list manifests (C03, C04, C15, C07)."""
from .core import hx

TS_MIN, TS_MAX = -62135510961, 253402297199


def gen_bytes(rng, kind=None):
    kind = kind or rng.choice(["empty", "word", "nl", "lead_sp", "multi", "trail_nl", "nlsp", "bin", "long"])
    if kind == "empty":
        return b""
    if kind == "word":
        return rng.choice([b"v1.0", b"fix", b"hello world", b"\xc3\xa9t\xc3\xa9"])
    if kind == "nl":
        return b"a\nb"
    if kind == "lead_sp":
        return b" leading"
    if kind == "multi":
        return b"-----BEGIN PGP-----\n\nabc\n def\n-----END-----"
    if kind == "trail_nl":
        return b"line\n"
    if kind == "nlsp":
        return b"\n \n\n  x"
    if kind == "bin":
        return bytes(rng.randrange(256) for _ in range(rng.randrange(1, 12)))
    return bytes(rng.choice(b"ab \n") for _ in range(rng.randrange(20, 60)))


def gen_date(rng):
    s = rng.choice([0, -1, 1, TS_MIN, TS_MAX, 1234567890, rng.randrange(TS_MIN, TS_MAX), rng.randrange(-10**6, 10**10)])
    us = rng.choice([0, 0, 1, 10, 100000, 999999, 500000, 123450, rng.randrange(10**6)])
    off = rng.choice([b"+0000", b"-0000", b"+0100", b"-1230", b"+1", b"junk", b"\xff\xfe", b"", b"+00000", b" +0200", b"+02 00\n"])
    return [s, us, off.hex()]


def gen_fullname(rng):
    return rng.choice([b"A U Thor <a@b.c>", b"", b"x", b"Name\nwith newline <e>", b" lead", b"\xff\xfe", b"no email", b"a <b> c <d>"])


def fmt_date_spec(s, us):
    """the exact decimal text, written from the property statement"""
    if us == 0:
        return str(s).encode()
    return (str(s) + "." + ("%06d" % us).rstrip("0")).encode()


def author_line_spec(fullname, date):
    if date is None:
        return fullname
    s, us, off = date
    return fullname + b" " + fmt_date_spec(s, us) + b" " + bytes.fromhex(off)


def mk_tstz(date):
    from swh.model.model import Timestamp, TimestampWithTimezone
    if date is None:
        return None
    s, us, off = date
    return TimestampWithTimezone(timestamp=Timestamp(seconds=s, microseconds=us), offset_bytes=bytes.fromhex(off))


def mk_person(fullname_hex, variant=0):
    from swh.model.model import Person
    if fullname_hex is None:
        return None
    fn = bytes.fromhex(fullname_hex)
    if variant == 0:
        return Person(fullname=fn, name=None, email=None)
    return Person(fullname=fn, name=b"other name", email=b"other@email")


def enc_date(date):
    if date is None:
        return "-"
    s, us, off = date
    return "%d:%d:%s" % (s, us, hx(bytes.fromhex(off)))


def enc_opt(h):
    return "-" if h is None else hx(bytes.fromhex(h))


def date_dict(date):
    if date is None:
        return None
    s, us, off = date
    return {"timestamp": {"seconds": s, "microseconds": us}, "offset_bytes": bytes.fromhex(off)}


def person_dict(fullname_hex):
    if fullname_hex is None:
        return None
    return {"fullname": bytes.fromhex(fullname_hex), "name": None, "email": None}


# ---------------------------------------------------------------- added by the C03/C04 dimension audit
# (the helpers above are unchanged; these only ADD shapes that gen_bytes / gen_date / gen_fullname never draw)
WIDE_KINDS = ["crlf", "cr", "cr_nl_mix", "nul", "tabcont", "only_nl", "two_nl", "sp", "trail_sp", "nl_sp_end", "sp_nl",
              "seps", "u2028", "hdrlike", "manylines", "kb", "nl_run"]


def gen_bytes_wide(rng, kind=None):
    """gen_bytes, plus: CR / CRLF (bytes.splitlines boundaries), NUL, a TAB- or SP-started continuation line, lone
    separators, the other 'line boundary' code points of str.splitlines, header look-alikes, more than 100 lines, ~1 kB"""
    if kind is None:
        r = rng.random()
        if r < 0.04:          # text that is not in Unicode normal form C (nothing may normalise recorded bytes)
            return rng.choice([b"", b"name-", b"https://e.org/"]) + nfc_unstable_bytes(rng) + rng.choice([b"", b".txt", b"/x"])
        if r < 0.12:          # a literal harvested from the code under test, spliced into an ordinary value
            return splice_token(rng, gen_bytes(rng))
        if r < 0.6:
            return gen_bytes(rng)
    kind = kind or rng.choice(WIDE_KINDS)
    if kind in ("kb", "manylines") and rng.random() < 0.75:      # the two big shapes: rarer
        kind = rng.choice(WIDE_KINDS[:14])
    if kind == "crlf":
        return rng.choice([b"line1\r\nline2\r\n", b"-----BEGIN-----\r\n\r\nab\r\n-----END-----", b"a\r\nb"])
    if kind == "cr":
        return rng.choice([b"a\rb", b"\r", b"x\r"])
    if kind == "cr_nl_mix":
        return rng.choice([b"a\rb\nc", b"a\n\rb", b"\r\n", b"a\r\n b"])
    if kind == "nul":
        return rng.choice([b"a\x00b", b"\x00", b"x\x00", b"\x00\n\x00"])
    if kind == "tabcont":
        return rng.choice([b"a\n\tb", b"\tlead", b"a\n\t"])
    if kind == "only_nl":
        return b"\n"
    if kind == "two_nl":
        return rng.choice([b"\n\n", b"x\n\n", b"\n\n\n"])
    if kind == "sp":
        return rng.choice([b" ", b"  "])
    if kind == "trail_sp":
        return rng.choice([b"x ", b"a\nb "])
    if kind == "nl_sp_end":
        return rng.choice([b"x\n ", b"\n "])
    if kind == "sp_nl":
        return rng.choice([b" \n", b" \n "])
    if kind == "seps":
        return b"a\x0bb\x0cc\x1cd\x1de\x1ef\x85g"
    if kind == "u2028":
        return "a\u2028b\u2029c\x85d".encode()
    if kind == "hdrlike":
        return rng.choice([b"x\nparent 0123\ntree 4567\n\nmsg", b"x\ntagger T <t> 1 +0000\n\nbody", b"\nobject 00\ntype commit"])
    if kind == "manylines":
        return b"\n".join([rng.choice([b"l", b"", b" m"]) for _ in range(rng.randrange(101, 300))])
    if kind == "nl_run":
        return b"\n" * rng.randrange(3, 40)
    return bytes(rng.choice(b"ab \n\r") for _ in range(rng.randrange(1000, 1100)))


def gen_fullname_wide(rng):
    if rng.random() < 0.6:
        return gen_fullname(rng)
    return rng.choice([b"A\r\nB <x@y>", b"N\x00UL <n@u.l>", b"<>", b" ", b"Jane Doe <>", b" <e>", b"name <a@b> 1234567890 +0000",
                       b"x\n", b"\n", b"a\n b", b"a\n\tb", b"x " * 150, b"\xe2\x80\xa8", b"trailing space "])


def gen_date_wide(rng):
    """gen_date, plus digit-count boundaries of seconds / microseconds and more offset-byte shapes"""
    r0 = rng.random()
    if r0 < 0.05:     # constants of the code under test and their neighbours, as seconds / microseconds
        ints = source_ints()
        secs = [v for v in ints if TS_MIN <= v <= TS_MAX]
        us = [v for v in ints if 0 <= v < 10 ** 6]
        d = gen_date(rng)
        return [rng.choice(secs), rng.choice(us) if rng.random() < 0.5 else d[1], d[2]]
    if r0 < 0.6:
        return gen_date(rng)
    s = rng.choice([TS_MIN + 1, TS_MAX - 1, 2 ** 31 - 1, 2 ** 31, 2 ** 32, 2 ** 33, -2 ** 31, 10 ** 9, 999999999, 9, 10, -9, -10, 99, 100,
                    -62135510961, 253402297199, 0])
    us = rng.choice([0, 1, 9, 99, 999, 99999, 999990, 999900, 100, 1000, 10000, 900000, 90, 909090, 5])
    off = rng.choice([b"+1400", b"-1200", b"+0530", b"+9959", b"-0059", b"+2", b"\n", b" ", b"+01\r\n", b"+0100 extra", b"\x00",
                      b"+0000", b"-0000", b"+0060", b"a\n b", b"-"])
    return [s, us, off.hex()]


def gen_id(rng, pool=()):
    """an object id as the model accepts it (Sha1Git = bytes, no length check): mostly 20 random bytes, sometimes git's
    null id, an id sharing all but its last / first byte with one already in the object (memo keys), 1 or 32 bytes"""
    x = rng.random()
    pool = [p for p in pool if len(p) >= 2]
    if x < 0.66 or (not pool and 0.75 <= x < 0.90):
        return bytes(rng.randrange(256) for _ in range(20))
    if x < 0.75:
        return bytes(20)
    if x < 0.84:
        b = rng.choice(pool)
        return b[:-1] + bytes([b[-1] ^ 1])
    if x < 0.90:
        b = rng.choice(pool)
        return bytes([b[0] ^ 0x80]) + b[1:]
    if x < 0.94:
        return bytes([rng.randrange(1, 256)])
    if x < 0.98:
        return bytes(rng.randrange(256) for _ in range(32))
    return b"\xff" * 20


def canonical_offset(off):
    """(minutes, negative_utc) when the offset bytes are exactly what from_numeric_offset writes, else None"""
    import re
    if not re.fullmatch(rb"[+-][0-9]{2}[0-5][0-9]", off):
        return None
    n = int(off[1:3]) * 60 + int(off[3:5])
    if off[:1] == b"-":
        return (-n, n == 0)
    return (n, False)


LEGACY_DATE_MODES = ["offset", "offset-no-flag", "offset-flag-none", "ts-int", "no-us", "both-keys"]


def date_dict_legacy(date, mode):
    """the same date in one of the dictionary encodings from_dict still accepts (None when this date cannot be
    written that way): numeric 'offset' (+ 'negative_utc' flag given / absent / None), 'timestamp' as a plain int,
    'microseconds' key absent, and a row carrying BOTH the recorded offset_bytes and a (contradicting) numeric offset"""
    if date is None:
        return None
    s, us, off = date
    off = bytes.fromhex(off)
    ts = {"seconds": s, "microseconds": us}
    if mode == "both-keys":
        return {"timestamp": ts, "offset_bytes": off, "offset": 17, "negative_utc": False}
    if mode == "ts-int":
        return {"timestamp": s, "offset_bytes": off} if us == 0 else None
    if mode == "no-us":
        return {"timestamp": {"seconds": s}, "offset_bytes": off} if us == 0 else None
    co = canonical_offset(off)
    if co is None:
        return None
    minutes, neg = co
    if mode == "offset":
        return {"timestamp": ts, "offset": minutes, "negative_utc": neg}
    if mode == "offset-no-flag":
        return None if neg else {"timestamp": ts, "offset": minutes}
    if mode == "offset-flag-none":
        return None if neg else {"timestamp": ts, "offset": minutes, "negative_utc": None}
    return None


NOFULLNAME_SPLITS = 6


def nofullname_split(fn, i):
    """(name, email, documented fullname) for a person given WITHOUT fullname: 'name', '<email>' or 'name <email>',
    an empty name or email still counts"""
    half = len(fn) // 2
    name, email = [(fn, None), (None, fn), (fn, b""), (b"", fn), (fn[:half], fn[half:]), (b"", b"")][i % NOFULLNAME_SPLITS]
    parts = ([name] if name is not None else []) + ([b"<" + email + b">"] if email is not None else [])
    return name, email, b" ".join(parts)


class BytesSub(bytes):
    """a bytes subclass: equal to, and hashing like, the plain value"""


def mk_person_from_fullname(fullname_hex):
    """the person as Person.from_fullname guesses it (fullname kept verbatim, name / email derived)"""
    from swh.model.model import Person
    return None if fullname_hex is None else Person.from_fullname(bytes.fromhex(fullname_hex))


# ---------------------------------------------------------------- dictionary of literals harvested from the code under test
_SOURCE_TOKENS = {}


def source_tokens(kind="bytes"):
    """string / bytes constants (2..40 long) that occur in the source of swh/model/*.py of the repository UNDER TEST, plus a few
    well-known neighbours; generators splice them into names, messages, origins ... so that a special case keyed on a literal
    (a prefix that is stripped, a value that is refused) is exercised even when the literal is new (the fuzzers' dictionary trick).
    Sorted, hence deterministic for a given tree."""
    if kind in _SOURCE_TOKENS:
        return _SOURCE_TOKENS[kind]
    import ast
    import glob
    import os
    from . import core
    found = set()
    for f in sorted(glob.glob(os.path.join(core.REPO, "swh", "model", "*.py"))):
        try:
            tree = ast.parse(open(f, encoding="utf-8").read())
        except Exception:
            continue
        docs = set()
        for n in ast.walk(tree):
            if isinstance(n, (ast.FunctionDef, ast.ClassDef, ast.Module, ast.AsyncFunctionDef)):
                d = ast.get_docstring(n, clean=False)
                if d:
                    docs.add(d)
        for n in ast.walk(tree):
            if isinstance(n, ast.Constant) and isinstance(n.value, (str, bytes)) and n.value not in docs:
                v = n.value.encode("utf-8", "surrogateescape") if isinstance(n.value, str) else n.value
                if 2 <= len(v) <= 20 and b"\n" not in v and b"%" not in v and b"{" not in v:
                    found.add(v)
    extra = [b"refs/tags/", b"refs/heads/", b"refs/", b"HEAD", b"tags/", b"v1.0", b"swh:", b"swh:1:", b"git", b"tag ", b"object ",
             b"tree ", b"parent ", b"author ", b"committer ", b"tagger ", b"gpgsig", b"-----BEGIN PGP SIGNATURE-----", b"https://",
             b"http://", b"file://", b"git+ssh://", b"origin", b"master", b"main", b".git", b"None", b"null", b"true", b"0", b"-0000"]
    # values that look like OTHER domain objects (a decoder that "helpfully" recognises them changes what a field means)
    hx40, hx64 = b"0123456789abcdef0123456789abcdef01234567", b"ab" * 32
    extra += [b"swh:1:%s:%s" % (k, hx40) for k in (b"cnt", b"dir", b"rev", b"rel", b"snp", b"ori", b"emd")]
    extra += [b"swh:1:cnt:" + hx40 + b";origin=https://e.org/r", hx40, hx64, b"2020-02-27T13:39:19+00:00", b"1234567890", b"-1",
              b"1.5", b"https://example.org/repo.git", b"b'bytes'", b"{}", b"[]", b"refs/heads/main"]
    toks = sorted(found | set(extra))
    _SOURCE_TOKENS["bytes"] = toks
    _SOURCE_TOKENS["str"] = sorted({t.decode("utf-8", "replace") for t in toks})
    return _SOURCE_TOKENS[kind]


def splice_token(rng, value, kind="bytes"):
    """value with a harvested literal as prefix / suffix / infix / whole (same type as value)"""
    toks = source_tokens(kind)
    t = rng.choice(toks)
    r = rng.random()
    if r < 0.45:
        return t + value
    if r < 0.6:
        return value + t
    if r < 0.75:
        k = rng.randrange(len(value) + 1)
        return value[:k] + t + value[k:]
    if r < 0.9:
        return t
    return t + (b"/" if kind == "bytes" else "/") + value + t


def source_ints():
    """integer constants that occur in the source of swh/model/*.py of the repository UNDER TEST (thresholds, masks, limits),
    each with its neighbours -1 / +1: numeric generators draw from them so that a boundary a change introduces is exercised.
    Evaluates constant expressions such as 2**16 or 10**6 - 1 when they are literal."""
    if "ints" in _SOURCE_TOKENS:
        return _SOURCE_TOKENS["ints"]
    import ast
    import glob
    import os
    from . import core
    found = set()

    def ev(n):
        if isinstance(n, ast.Constant) and type(n.value) is int:
            return n.value
        if isinstance(n, ast.UnaryOp) and isinstance(n.op, ast.USub):
            v = ev(n.operand)
            return None if v is None else -v
        if isinstance(n, ast.BinOp) and isinstance(n.op, (ast.Pow, ast.Mult, ast.Add, ast.Sub, ast.LShift)):
            a, b = ev(n.left), ev(n.right)
            if a is None or b is None or (isinstance(n.op, (ast.Pow, ast.LShift)) and not 0 <= b <= 80) or abs(a) > 10 ** 30:
                return None
            return {ast.Pow: lambda: a ** b, ast.Mult: lambda: a * b, ast.Add: lambda: a + b, ast.Sub: lambda: a - b,
                    ast.LShift: lambda: a << b}[type(n.op)]()
        return None
    for f in sorted(glob.glob(os.path.join(core.REPO, "swh", "model", "*.py"))):
        try:
            tree = ast.parse(open(f, encoding="utf-8").read())
        except Exception:
            continue
        for n in ast.walk(tree):
            v = ev(n)
            if v is not None and abs(v) < 10 ** 30:
                found.update({v - 1, v, v + 1})
    _SOURCE_TOKENS["ints"] = sorted(found)
    return _SOURCE_TOKENS["ints"]


# text whose Unicode normal forms differ (a change that normalises names / URLs "as IRIs / as git does on macOS" alters it):
# decomposed accents, singletons (ANGSTROM SIGN, OHM SIGN), CJK compatibility ideographs, Hangul jamo, ligatures under NFKC,
# the Greek question mark; UTF-8 encoded
NFC_UNSTABLE = ["e\u0301", "cafe\u0301", "A\u030a", "\u212b", "\u2126", "\uf900", "\ufa10x", "\u1100\u1161", "\ufb01", "\u037e",
                "\u0387", "o\u0302\u0323", "\u1e9b\u0323", "\u00c5", "x\u0338=", "\u2000a", "\u0958"]


def nfc_unstable_bytes(rng=None):
    t = NFC_UNSTABLE if rng is None else [rng.choice(NFC_UNSTABLE)]
    out = [x.encode("utf-8") for x in t]
    return out if rng is None else out[0]
