"""Shared generators / helpers for the header-list manifests (C03, C04, C15, C07)."""
from .core import hx

TS_MIN, TS_MAX = -62135510961, 253402297199


def gen_bytes(rng, kind=None):
    kind = kind or rng.choice(["empty", "word", "nl", "lead_sp", "multi", "trail_nl", "nlsp", "bin", "long"])
    if kind == "empty":
        return b""
    if kind == "word":
        return rng.choice([b"v1.0", b"fix", b"hello world", b"\xc3\xa9t\xc3\xa9"])
    if kind == "nl":
        return b"a\nb"
    if kind == "lead_sp":
        return b" leading"
    if kind == "multi":
        return b"-----BEGIN PGP-----\n\nabc\n def\n-----END-----"
    if kind == "trail_nl":
        return b"line\n"
    if kind == "nlsp":
        return b"\n \n\n  x"
    if kind == "bin":
        return bytes(rng.randrange(256) for _ in range(rng.randrange(1, 12)))
    return bytes(rng.choice(b"ab \n") for _ in range(rng.randrange(20, 60)))


def gen_date(rng):
    s = rng.choice([0, -1, 1, TS_MIN, TS_MAX, 1234567890, rng.randrange(TS_MIN, TS_MAX), rng.randrange(-10**6, 10**10)])
    us = rng.choice([0, 0, 1, 10, 100000, 999999, 500000, 123450, rng.randrange(10**6)])
    off = rng.choice([b"+0000", b"-0000", b"+0100", b"-1230", b"+1", b"junk", b"\xff\xfe", b"", b"+00000", b" +0200", b"+02 00\n"])
    return [s, us, off.hex()]


def gen_fullname(rng):
    return rng.choice([b"A U Thor <a@b.c>", b"", b"x", b"Name\nwith newline <e>", b" lead", b"\xff\xfe", b"no email", b"a <b> c <d>"])


def fmt_date_spec(s, us):
    """the exact decimal text, written from the property statement"""
    if us == 0:
        return str(s).encode()
    return (str(s) + "." + ("%06d" % us).rstrip("0")).encode()


def author_line_spec(fullname, date):
    if date is None:
        return fullname
    s, us, off = date
    return fullname + b" " + fmt_date_spec(s, us) + b" " + bytes.fromhex(off)


def mk_tstz(date):
    from swh.model.model import Timestamp, TimestampWithTimezone
    if date is None:
        return None
    s, us, off = date
    return TimestampWithTimezone(timestamp=Timestamp(seconds=s, microseconds=us), offset_bytes=bytes.fromhex(off))


def mk_person(fullname_hex, variant=0):
    from swh.model.model import Person
    if fullname_hex is None:
        return None
    fn = bytes.fromhex(fullname_hex)
    if variant == 0:
        return Person(fullname=fn, name=None, email=None)
    return Person(fullname=fn, name=b"other name", email=b"other@email")


def enc_date(date):
    if date is None:
        return "-"
    s, us, off = date
    return "%d:%d:%s" % (s, us, hx(bytes.fromhex(off)))


def enc_opt(h):
    return "-" if h is None else hx(bytes.fromhex(h))


def date_dict(date):
    if date is None:
        return None
    s, us, off = date
    return {"timestamp": {"seconds": s, "microseconds": us}, "offset_bytes": bytes.fromhex(off)}


def person_dict(fullname_hex):
    if fullname_hex is None:
        return None
    return {"fullname": bytes.fromhex(fullname_hex), "name": None, "email": None}
