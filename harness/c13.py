"""C13 - filtering and exporting an on-disk tree is consistent and closed
(from_disk.Directory.from_disk with ignore_empty_directories / ignore_named_directories /
ignore_directories_patterns / max_content_length, merkle.iter_tree, from_disk.iter_directory, Content.to_model)."""
import copy
import hashlib
import os
import re
import shutil
import tempfile
import warnings

from .core import exc_class, hx, unhx
from .fstree import (CONCURRENT_NOTE, REENTRANT_NOTE, concurrent_trees, gen_concurrent, run_together, trees_on_disk, nfc_twin, shuffled_scandir, token_bytes, unicode_variant_bytes, wide_tree, CHAIN_FILE, CHAIN_NAME, FILE_MODES, ROOT_SPELLINGS, apply_ops, chain_file, chain_has_file, collect_ids,
                     count_nodes, enc_chain, enc_tree, gen_name, gen_reread, gen_tree, has_kind, impl_chain, materialise, mutate_tree,
                     other_spelling, ref_chain, ref_ids, shrink_tree, spelled_root, subdirs)

ID = "C13"
PROPS = "Props/C13.v"
EXTRACT = "extract/ExC13.v"
OBLIGATION = "Directory.from_disk(path_filter, max_content_length) + iter_directory"
CASE_TIMEOUT = 60
SHRINK_BUDGET = 60
THEOREMS = ["C13_empty_equiv", "C13_named_equiv", "C13_filtered_ids", "C13_prune_empty_spec", "C13_prune_named_spec",
            "C13_root_kept", "C13_export_once", "C13_export_closed", "C13_export_ids", "C13_export_complete",
            "C13_export_dirs", "C13_prune_gen_instances", "C13_export_contents", "C13_export_skipped", "C13_skipped_iff", "C13_skip_same_ids",
            "C13_symlink_limit", "C13_satisfiable", "C13_export_checked",
            "C13_export_objects_checked",
            "C13_pattern_conservative", "C13_pattern_exact", "C13_pattern_equiv", "C13_pattern_ids", "C13_pattern_symlink_limit",
            "C13_prune_pat_spec", "C13_pattern_two_pass", "C13_pattern_pass2_noop", "C13_pattern_pass2_refuted_old",
            "C13_pattern_old_pass2_removes_every_directory", "C13_glob_facts", "C13_pattern_satisfiable", "C13_pattern_empty_list"]
RULE = ("random file-system trees (depth <= 5, <= 60 nodes, files 0..100 bytes plus a couple of 1000-3000 byte ones) "
        "materialised in a temporary directory, seeded with: chains of directories that are empty only recursively, "
        "directories / files / symlinks named like the ignored names up to ASCII or non-ASCII case (Dir/dir/DIR, "
        "\\xc3\\x89 vs \\xc3\\xa9), copies of files and of whole sub-trees at several paths, long symlinks inside "
        "directories that the filter removes; crossed with filter in {none, ignore_empty_directories, "
        "ignore_named_directories(names, case_sensitive), ignore_directories_patterns(root, patterns)} and "
        "max_content_length in {None, 0, sizes of the files and link texts present -1/+0/+1}; glob patterns are drawn from "
        "the names and root-relative paths present in the tree (exact names, 'a/b' paths, '*/name', 'name*', '*suffix', '.*', "
        "'*', '?' in place of a byte, bracket expressions '[a-c]*' / '[!.]*', patterns hitting files only or nothing, a "
        "UTF-8 literal; relative or absolute = root + '/' + pattern); DEGENERATE FILTER ARGUMENTS are a deliberate share of the "
        "cases for both ignore_directories_patterns and ignore_named_directories: the empty list, the empty string and '.' "
        "as an item, duplicated items, exactly one item, 20+ items, and the argument passed as list / tuple / set / "
        "frozenset / dict keys view and (patterns: Iterable[bytes]) a one-shot iterator or generator; the ROOT PATH is a case dimension for every filter "
        "kind: absolute real path, 1-3 trailing slashes, relative to the working directory (with and without './'), "
        "with '/./' and 'x/../' components, doubled slashes inside, through a symbolic link to an ancestor directory (absolute "
        "or relative), the root itself a symbolic link to the tree (also followed by '/' or '/.'), '<dir>/<link>/../<name>' "
        "where the link points elsewhere so that the lexically collapsed path designates nothing or a different tree "
        "(decoy), an absolute path whose first component is a symbolic link (shared with C06: harness/fstree.py); DEEP CHAINS: "
        "a small tree at the bottom of N nested directories (optionally a file at every k-th level), read with each filter "
        "kind and a limit, N in 150..900 (ids at every level and the export must equal an iterative bottom-up reference of "
        "the pruned chain, root id = model) and N in {1000, 1500} (above the interpreter's recursion limit: open known "
        "finding tree-deeper-than-recursion-limit, demonstrated), more in the thorough tier; built, encoded, hashed and "
        "removed iteratively, the recursion limit is never raised around the library; \"no filter\" is said by leaving path_filter at its default, by accept_all_paths or by the deprecated accept_all_directories; "
        "the second (unlimited) read re-uses the first read's filter object in 40 % of the cases, gets a progress_callback "
        "(positive counts) and, in half of the cases, a shuffled os.scandir; iter_tree is also called with dedup=True / "
        "dedup=False (every node) and counted; special files are fifos, unix sockets and character devices, modes include 0, "
        "set-uid/gid and sticky bits, names up to 255 bytes, two directories with 300 entries; CONCURRENT READS (5 cases, thorough 40): 2-4 trees (a small tree plus 2-4 files of 70 kB - 512 kB whose bytes differ per "
        "tree) read with the case's filter and limit and exported in as many threads released together behind a barrier, 3-5 "
        "rounds, bounded joins - or nested in one thread (the read of tree B started from the path_filter of the read of tree "
        "A); ids = reference ids of each pruned tree, export data = the bytes on disk; RE-READ (25 % of the tree cases): after the "
        "reads and the export the tree is modified in place - files rewritten with other bytes of the same length and "
        "atime/mtime restored, exec bits flipped, file <-> symlink, directory -> file, entries added and removed, a directory "
        "renamed (same inode), two same-size files swapped - or removed and built again at the same path with other bytes "
        "of the same sizes and the old times, then read again with the same filter under two spellings and exported again "
        "in the same process: ids = those of the pruned tree as it is now (independent reference, and the model), the export "
        "(eager and lazy data) shows the current bytes; the root_path given to ignore_directories_patterns is spelled like the "
        "path given to from_disk or in another spelling of the same absolute path (absolute / relative / trailing slash "
        "/ '/.'), never resolving symbolic links; each case is read with the filter, read again unfiltered from a copy "
        "pruned by an independent routine of the harness (own glob matcher, fnmatch not used), read without limit, and "
        "exported with iter_directory and by hand (lazy data); separate cases compare the model's glob matcher with "
        "the regex extract_regex_objs builds (fnmatch.translate on os.fsdecode(p), compiled on bytes) on generated (pattern, text) "
        "pairs ('[' without ']', '!]', '[]..]', reversed ranges, '-' first/last, runs of '*', UTF-8 literals, lone bytes >= 0x80 "
        "inside and outside bracket expressions, bytes >= 128 in the text); non-trivial = the filter removes "
        "something or a content is skipped or an object is deduplicated (glob cases: both outcomes occur)")
TRUSTED = ["the OS layer (scandir, lstat, readlink, mkfifo, chmod, open) is exercised, not modelled: the model receives the tree as data",
           "lib/Sha1.v as an instance of the hash oracle",
           "the harness's own pruning routine (with its own glob matcher) and hashlib as the reference for 'a physically pruned copy' and for the four digests",
           "Python's fnmatch.translate / re are validated, not modelled: the model's glob matcher is compared with "
           "re.compile(fnmatch.translate(p).encode()).match(text) on 2000 (quick) / 40000 (thorough) generated pattern/text pairs per run",
           "os.path.abspath / relpath / join, glob.glob (the sanity check of extract_regex_objs) and the working directory are exercised, not modelled"]
ASSUMPTIONS = ["names within a directory are distinct, non-empty, free of '/' and NUL (what a POSIX directory can hold)",
               "closure of the export is proved at the level of ids (an entry target is the id of an exported object), for every hash function",
               "ignore_named_directories is given a list / tuple / set / frozenset of names (its docstring asks for a list); a "
               "one-shot iterator is outside the checked domain (on the current code it is consumed by the first membership "
               "test when case_sensitive=True - reported, not checked)",
               "depth: the model and the theorems have no depth limit (C06_model_has_no_depth_limit); the IMPLEMENTATION reads and "
               "exports trees of depth < the interpreter's recursion limit only (measured: 986 nested directories work, 987 "
               "raise RecursionError) - open known finding tree-deeper-than-recursion-limit; a RecursionError on a chain of "
               "more than 940 directories is reported as that finding, every other outcome (wrong id or export at any depth, "
               "RecursionError on a shallower tree, another exception) is a violation; for deep chains the model gives the "
               "root id only (the export is compared with the harness's iterative reference)",
               "glob patterns: any bytes without NUL (possibly empty; not valid UTF-8 allowed since 5529d3b: os.fsdecode / surrogateescape), "
               "no '..' component, no trailing '/'; bracket expressions hold ASCII and LONE bytes >= 0x80 only - a valid multi-byte "
               "UTF-8 sequence inside brackets is outside the domain (fnmatch.translate orders range ends by code point, the regex "
               "matches bytes); "
               "entry names are never '.' or '..' (scandir does not list them); the root_path given to "
               "ignore_directories_patterns and the path given to from_disk denote the same absolute path without resolving "
               "symbolic links (a root reached through a link must be named through that link on both sides)",
               "the literal stack/queue model (iterids) and the in-Coq extraction cross-check cover the name / emptiness "
               "filters; the pattern filter goes through the two-predicate model from_disk_pat (both listing orders)",
               "eager vs lazy loading of content data, the sha1/sha256/blake2s256 digests and the `reason`/`status` fields are "
               "checked on the implementation only (the model carries the bytes and the sha1_git)"]

NAMED_POOL = [b"dir", b"Dir", b"DIR", b".git", b".GIT", b"\xc3\x89t\xc3\xa9", b"\xc3\xa9t\xc3\xa9", b"e\xcc\x81", b"node_modules",
              b"\xc9", b"\xe9", b"empty", b"e"]


# ------------------------------------------------------------------ generation
def _dirs_of(t, acc=None):
    acc = acc if acc is not None else []
    if t["t"] == "D":
        acc.append(t)
        for _, c in t["c"]:
            _dirs_of(c, acc)
    return acc


def _fresh(rng, d, want=None):
    taken = {bytes.fromhex(n) for n, _ in d["c"]}
    if want is not None and want not in taken:
        return want
    return gen_name(rng, taken)


def _small_file(rng):
    size = rng.choice([0, 1, 2, 5, 17, 100])
    data = rng.choice([bytes(rng.randrange(256) for _ in range(size)), b"same" * (size // 4 + 1)])[:size]
    return {"t": "R", "d": data.hex(), "m": rng.choice(FILE_MODES)}


def gen_case_tree(rng, big):
    opts = {"sizes": [0, 0, 1, 2, 5, 17, 100]}
    t = gen_tree(rng, budget=[rng.choice([3, 8, 20, 40])], opts=opts)
    for _ in range(rng.randrange(0, 5)):
        ds = _dirs_of(t)
        if count_nodes(t) > 60:
            break
        d = rng.choice(ds)
        k = rng.randrange(7)
        if k == 0:      # chain of directories empty only recursively (possibly with a sibling that keeps the parent)
            depth = rng.randrange(1, 4)
            ch = {"t": "D", "c": []}
            for _i in range(depth):
                ch = {"t": "D", "c": [[_fresh(rng, {"c": []}, rng.choice(NAMED_POOL)).hex(), ch]]}
                if rng.random() < 0.3:
                    ch["c"].append([b"sib".hex(), {"t": "D", "c": []}])
            d["c"].append([_fresh(rng, d, rng.choice([b"e", b"empty", b"dir"])).hex(), ch])
        elif k == 1:    # a directory with a name from the pool; content: nothing, a file, or a long symlink
            sub = {"t": "D", "c": []}
            r = rng.random()
            if r < 0.4:
                sub["c"].append([b"f".hex(), _small_file(rng)])
            elif r < 0.7:
                sub["c"].append([b"long".hex(), {"t": "L", "x": (b"t" * rng.choice([30, 60])).hex()}])
            d["c"].append([_fresh(rng, d, rng.choice(NAMED_POOL)).hex(), sub])
        elif k == 2:    # a FILE or SYMLINK named like an ignored directory: must never be filtered
            node = _small_file(rng) if rng.random() < 0.5 else {"t": "L", "x": rng.choice([b"dir", b".", b"a"]).hex()}
            d["c"].append([_fresh(rng, d, rng.choice(NAMED_POOL)).hex(), node])
        elif k == 3 and len(ds) > 1:    # copy of a whole sub-tree somewhere else
            src = rng.choice(ds[1:])
            if count_nodes(src) + count_nodes(t) <= 70 and src is not d and d not in _dirs_of(src):
                d["c"].append([_fresh(rng, d).hex(), copy.deepcopy(src)])
        elif k == 4:    # copy of a file under another name / mode
            files = [c for x in ds for _, c in x["c"] if c["t"] == "R"]
            if files:
                f = dict(rng.choice(files))
                if rng.random() < 0.5:
                    f["m"] = rng.choice(FILE_MODES)
                d["c"].append([_fresh(rng, d).hex(), f])
        elif k == 5:    # symlink whose text equals the bytes of a file (same blob id, other perms)
            files = [c for x in ds for _, c in x["c"] if c["t"] == "R" and 0 < len(c["d"]) <= 200 and b"\0" not in bytes.fromhex(c["d"])]
            if files:
                d["c"].append([_fresh(rng, d).hex(), {"t": "L", "x": rng.choice(files)["d"]}])
        else:           # case variants side by side
            for nm in rng.sample([b"dir", b"Dir", b"DIR"], 2):
                if nm not in {bytes.fromhex(n) for n, _ in d["c"]}:
                    d["c"].append([nm.hex(), {"t": "D", "c": [[b"k".hex(), _small_file(rng)]] if rng.random() < 0.6 else []}])
    if big:
        size = rng.choice([1000, 2048, 3000])
        t["c"].append([_fresh(rng, t, b"big").hex(), {"t": "R", "d": (bytes(rng.randrange(256) for _ in range(50)) * 60)[:size].hex(), "m": 0o644}])
    return t


def _all_names(t, acc=None):
    acc = acc if acc is not None else []
    if t["t"] == "D":
        for n, c in t["c"]:
            acc.append(bytes.fromhex(n))
            _all_names(c, acc)
    return acc


def _lengths(t, acc=None):
    acc = acc if acc is not None else {"R": [], "L": []}
    if t["t"] == "R":
        acc["R"].append(len(t["d"]) // 2)
    elif t["t"] == "L":
        acc["L"].append(len(t["x"]) // 2)
    elif t["t"] == "D":
        for _, c in t["c"]:
            _lengths(c, acc)
    return acc


def _swapcase(b):
    return bytes(x + 32 if 65 <= x <= 90 else x - 32 if 97 <= x <= 122 else x for x in b)


def _rel_paths(t, prefix=b"", acc=None):
    """[(root-relative path, kind)] of every node below the root"""
    acc = acc if acc is not None else []
    if t["t"] == "D":
        for n, c in t["c"]:
            pth = prefix + b"/" + bytes.fromhex(n) if prefix else bytes.fromhex(n)
            acc.append((pth, c["t"]))
            _rel_paths(c, pth, acc)
    return acc


def _utf8_pattern(b):
    """make a literal usable as a pattern: the glob metacharacters of a literal become '?' (fnmatch has no quoting); bytes
    that are not valid UTF-8 are legitimate in a pattern (os.fsdecode / surrogateescape since 5529d3b) and stay"""
    return bytes(63 if x in b"*?[" else x for x in b)


def gen_patterns(rng, t):
    rels = _rel_paths(t)
    names = [r.rsplit(b"/", 1)[-1] for r, _ in rels]
    files = [r for r, k in rels if k != "D"]
    dirs = [r for r, k in rels if k == "D"]
    deep = [r for r, _ in rels if b"/" in r]
    out = []
    for _ in range(rng.randrange(1, 4)):
        q = rng.randrange(14)
        p = None
        if q == 0 and names:
            p = _utf8_pattern(rng.choice(names))                                   # exact name: matches at the top level only
        elif q == 1 and rels:
            p = _utf8_pattern(rng.choice(rels)[0])                                 # exact relative path (file or directory)
        elif q == 2 and deep:
            p = b"*/" + _utf8_pattern(rng.choice(deep).rsplit(b"/", 1)[-1])       # any depth >= 2
        elif q == 3 and names:
            n = rng.choice(names)
            p = _utf8_pattern(n[:rng.randrange(1, len(n) + 1)]) + b"*"             # prefix
        elif q == 4:
            p = rng.choice([b".*", b"*", b"*/.*", b"?", b"??", b"*/*", b"*/*/*"])
        elif q == 5 and names:
            n = bytearray(_utf8_pattern(rng.choice(names)))
            i = rng.randrange(len(n))
            if n[i] < 128:
                n[i] = 63
            p = bytes(n)                                                           # '?' in place of one byte
        elif q == 6:
            p = rng.choice([b"[a-c]*", b"[!.]*", b"[abA]*", b"[!a-z]*", b"*[0-9]", b"[.-]*", b"*/[a-c]", b"[a-cA-C]?*", b"[!a]",
                            b"[\xff\xfe]*", b"[!\x80-\xff]*", b"*[\x80\xff]", b"[a\xff]?*"])     # lone bytes >= 0x80 in a bracket expression
        elif q == 7 and files:
            p = _utf8_pattern(rng.choice(files))                                   # a file only
        elif q == 8 and files:
            n = rng.choice(files).rsplit(b"/", 1)[-1]
            p = b"*" + _utf8_pattern(n[-rng.randrange(1, min(3, len(n)) + 1):])    # suffix
        elif q == 9:
            p = rng.choice([b"zz-nothing", b"nothing/*", b"?" * 40, b"[z]zz"])     # matches nothing
        elif q == 10:
            p = rng.choice([b"\xc3\xa9*", b"*\xc3\xa9", b"*\xc3\xa9*", b"\xc3\x89t\xc3\xa9", b"??t\xc3\xa9", b"\xc3\xa9?*",     # UTF-8 literal
                            b"\xff*", b"*\xfe", b"\xff\xfe", b"?\xfe", b"\xc3?*", b"*\x80*", b"\xc3*"])   # not valid UTF-8
        elif q == 11 and dirs:
            p = _utf8_pattern(rng.choice(dirs)) + b"/*"                            # everything below a directory, not the directory
        elif q == 12 and names:
            p = b"*" + _utf8_pattern(rng.choice(names)) + b"*"
        elif q == 13 and dirs:
            p = _utf8_pattern(rng.choice(dirs))
        if rng.random() < 0.08:     # Unicode: a literal that is not in normal form C, or the NFC twin of a name of the tree
            twins = [nfc_twin(x) for x in names if nfc_twin(x)]
            u = _utf8_pattern(rng.choice(twins) if twins and rng.random() < 0.6 else unicode_variant_bytes(rng))
            p = rng.choice([u, u + b"*", b"*" + u, b"*/" + u])
        if rng.random() < 0.12:     # a literal harvested from the code as (part of) the literal text of a pattern
            tok = _utf8_pattern(token_bytes(rng, rng.choice([b"", b"a"])))
            p = rng.choice([tok, tok + b"*", b"*" + tok, b"*/" + tok, tok + b"/*", (p or b"") + tok])
        if p and b"\0" not in p and not p.endswith(b"/") and b".." not in p.split(b"/") and len(p) < 200:
            out.append(p)
    if not out:
        out = [b".*"]
    out = sorted(set(out))
    # degenerate argument shapes, a deliberate share of the cases
    r = rng.random()
    if r < 0.10:
        out = []                                                        # the empty list: excludes nothing
    elif r < 0.17:
        out = out + [rng.choice([b"", b"."])]                           # the empty pattern / ".": match nothing below the root
    elif r < 0.21:
        out = [rng.choice([b"", b"."])]
    elif r < 0.29:
        out = out + [rng.choice(out) for _ in range(rng.randrange(1, 4))]   # duplicates
        rng.shuffle(out)
    elif r < 0.36:
        out = out[:1]                                                   # exactly one
    elif r < 0.43:                                                      # 20+ patterns
        extra = [_utf8_pattern(x) for x in names] + [b"none%d" % i for i in range(25)]
        rng.shuffle(extra)
        out = out + [x for x in extra if x and b"\0" not in x and b".." not in x.split(b"/") and len(x) < 200][:rng.randrange(20, 28)]
    return {"pats": [x.hex() for x in out], "abs": [bool(x) and x != b"." and rng.random() < 0.2 for x in out],
            "as": rng.choice(["list", "list", "tuple", "set", "frozenset", "iter", "gen", "dictkeys"])}


def gen_filter(rng, t):
    r = rng.random()
    if r < 0.12:
        return "all"
    if r < 0.37:
        return "empty"
    if r < 0.65:
        return gen_patterns(rng, t)
    names = _all_names(t)
    pool = []
    for _ in range(rng.randrange(1, 4)):
        q = rng.random()
        if names and q < 0.45:
            pool.append(rng.choice(names))
        elif names and q < 0.7:
            pool.append(_swapcase(rng.choice(names)))
        elif q < 0.8:
            pool.append(token_bytes(rng, rng.choice([b"", b"dir"]), slash=rng.random() < 0.3))     # a literal of the code as a name
        elif q < 0.88:
            # Unicode: the NFC twin of a name of the tree (another name: must NOT make that entry disappear), or a sequence
            # that is not in normal form C
            twins = [nfc_twin(x) for x in names if nfc_twin(x)]
            pool.append(rng.choice(twins) if twins and rng.random() < 0.6 else unicode_variant_bytes(rng))
        else:
            pool.append(rng.choice(NAMED_POOL))
    pool = sorted({p for p in pool if p})
    r = rng.random()
    if r < 0.08:
        pool = []                                                       # nothing is ignored
    elif r < 0.14:
        pool = pool + [b""]                                             # the empty name: no directory has it
    elif r < 0.17:
        pool = [b""]
    elif r < 0.25:
        pool = pool + [rng.choice(pool) for _ in range(rng.randrange(1, 4))]   # duplicates
        rng.shuffle(pool)
    elif r < 0.32:
        pool = pool + [b"none%d" % i for i in range(rng.randrange(20, 28))]    # 20+ names
    # no one-shot iterator here: the docstring asks for a list of names (see the note in ASSUMPTIONS)
    return {"named": [p.hex() for p in pool], "cs": rng.random() < 0.5, "as": rng.choice(["list", "list", "tuple", "set", "frozenset"])}


ROOT_SHAPES = ROOT_SPELLINGS      # shared with C06 (harness/fstree.py)
FSPELLS = ["same", "abs", "slash", "rel", "dotted"]


def gen_root(rng, flt):
    """(shape of the path given to from_disk, spelling of the root_path given to ignore_directories_patterns)"""
    pat = isinstance(flt, dict) and "pats" in flt
    shape = "real" if rng.random() < (0.35 if pat else 0.7) else rng.choice(ROOT_SHAPES[1:])
    spell = "same" if (not pat or rng.random() < 0.55) else rng.choice(FSPELLS[1:])
    return shape, spell


def gen_limit(rng, t):
    if rng.random() < 0.35:
        return None
    ln = _lengths(t)
    cands = {0}
    for s in ln["R"] + ln["L"]:
        cands.update({max(0, s - 1), s, s + 1})
    maxl = max(ln["L"] or [0])
    ok = sorted(c for c in cands if c >= maxl)
    if ok and rng.random() < 0.7:
        return rng.choice(ok)
    return rng.choice(sorted(cands))


def D(*kids):
    return {"t": "D", "c": [[n.hex(), c] for n, c in kids]}


def R(data, mode=0o644):
    return {"t": "R", "d": data.hex(), "m": mode}


def L(text):
    return {"t": "L", "x": text.hex()}


FIXED = [
    {"tree": D((b"e", D((b"f", D((b"g", D()))))), (b"a", R(b"hi"))), "filter": "empty", "limit": None},
    {"tree": D((b"e", D((b"f", D())))), "filter": "empty", "limit": 0},                      # everything goes: empty root stays
    {"tree": D((b"dir", D((b"k", R(b"x")))), (b"Dir", D((b"k", R(b"x")))), (b"DIR", D())),
     "filter": {"named": [b"dir".hex()], "cs": False}, "limit": None},
    {"tree": D((b"dir", D((b"k", R(b"x")))), (b"Dir", D((b"k", R(b"x")))), (b"DIR", D())),
     "filter": {"named": [b"DIR".hex()], "cs": True}, "limit": 1},
    {"tree": D((b"\xc3\x89t\xc3\xa9", D((b"k", R(b"x")))), (b"\xc3\xa9t\xc3\xa9", D((b"k", R(b"y"))))),
     "filter": {"named": [b"\xc3\xa9t\xc3\xa9".hex()], "cs": False}, "limit": None},               # non-ASCII upper case must not fold
    {"tree": D((b"p", D((b"dir", D((b"k", R(b"x")))))), (b"q", D((b"dir", D()), (b"z", R(b""))))),
     "filter": {"named": [b"Dir".hex()], "cs": False}, "limit": None},                       # parent p becomes empty: it stays
    {"tree": D((b"a", R(b"same")), (b"b", R(b"same", 0o755)), (b"l", L(b"same")), (b"s", D((b"a", R(b"same")))), (b"t", D((b"a", R(b"same"))))),
     "filter": "all", "limit": 3},                                                          # all contents skipped, dedup
    {"tree": D((b"l", L(b"0123456789")), (b"a", R(b"0123456789"))), "filter": "all", "limit": 9},   # symlink too large: raises
    {"tree": D((b".git", D((b"l", L(b"0123456789")))), (b"a", R(b"0123456789"))),
     "filter": {"named": [b".git".hex()], "cs": True}, "limit": 9},                          # ... unless it is filtered out
    {"tree": D((b"dir", R(b"file named dir")), (b"Dir", L(b"dir")), (b"x", D((b"dir", D((b"f", R(b"1"))))))),
     "filter": {"named": [b"dir".hex()], "cs": False}, "limit": None},                       # files / links named like it stay
    {"tree": D(), "filter": "empty", "limit": None},
    # glob exclusion patterns
    {"tree": D((b".git", D((b"x", R(b"ref")))), (b"src", D((b"a", R(b"int main;")), (b".hidden", R(b"h")))), (b"README", R(b"hello"))),
     "filter": {"pats": [b".*".hex()], "abs": [False]}, "limit": None},                     # anchored: src/.hidden stays; src/ stays
    {"tree": D((b"src", D((b"main.c", R(b"int main(){}")), (b"build", D((b"keep.txt", R(b"nested")))))), (b"build", D((b"out.o", R(b"ELF")), (b"sub", D((b"x", R(b"x")))))),
               (b"node_modules", D((b"m", D((b"index.js", R(b"//")))))), (b"README", R(b"hello"))),
     "filter": {"pats": [b"build".hex(), b"node_*".hex()], "abs": [False, False]}, "limit": None, "root": "vialink", "fspell": "same"},
    {"tree": D((b"b", D((b"k", R(b"1")))), (b"a", D((b"b", D((b"k", R(b"2")))), (b"c", R(b"3"))))),
     "filter": {"pats": [b"*/b".hex()], "abs": [False]}, "limit": None, "root": "rel", "fspell": "abs"},   # a/b goes, the top-level b stays
    {"tree": D((b"a", R(b"0123456789")), (b"l", L(b"0123456789")), (b"d", D((b"l2", L(b"01234567890123")), (b"f", R(b"x"))))),
     "filter": {"pats": [b"l".hex(), b"d/l?".hex()], "abs": [False, True]}, "limit": 9, "root": "rootlink", "fspell": "slash"},   # excluded links are not read
    {"tree": D((b"a", R(b"0123456789")), (b"d", D((b"l2", L(b"01234567890123")), (b"f", R(b"x"))))),
     "filter": {"pats": [b"d/f".hex()], "abs": [False]}, "limit": 9, "root": "dotdot", "fspell": "rel"},     # the long link is read: raises
    {"tree": D((b"a.c", R(b"1")), (b"b.c", D((b"x.c", R(b"2")), (b"y", R(b"3")))), (b"\xc3\xa9t\xc3\xa9", D((b"k", R(b"4")))), (b"\xff\xfe", D((b"k", R(b"5"))))),
     "filter": {"pats": [b"*.c".hex(), b"\xc3\xa9*".hex(), b"??".hex()], "abs": [False, False, False]}, "limit": None, "root": "slash3", "fspell": "dotted"},
    {"tree": D((b"x", D((b"y", D((b"z", D()))))), (b"e", D())), "filter": "empty", "limit": None, "root": "vialink_rel"},
    # patterns and names that are not valid UTF-8 (UnicodeDecodeError before 5529d3b)
    {"tree": D((b"\xff\xfe", D((b"k", R(b"1")))), (b"\xc3", D((b"k", R(b"2")))), (b"ok", D((b"\x80", R(b"3")), (b"a", R(b"4"))))),
     "filter": {"pats": [b"\xff*".hex(), b"*/\x80".hex(), b"[\xc0-\xff]".hex()], "abs": [False, True, False]}, "limit": None, "root": "rel", "fspell": "abs"},
    # Unicode: names are bytes - a decomposed name and its composed (NFC) twin are two entries, filters compare bytes
    {"tree": D((b"e\xcc\x81", D((b"k", R(b"decomposed")))), (b"\xc3\xa9", D((b"k", R(b"composed")))), (b"\xe2\x84\xab", R(b"angstrom sign")),
               (b"\xc3\x85", L(b"A\xcc\x8a"))),
     "filter": {"named": [b"\xc3\xa9".hex()], "cs": False}, "limit": None},
    {"tree": D((b"e\xcc\x81", D((b"k", R(b"decomposed")))), (b"\xc3\xa9", D((b"k", R(b"composed")))), (b"\xe2\x84\xab", R(b"angstrom sign"))),
     "filter": {"pats": [b"e\xcc\x81".hex(), b"\xc3\x85".hex()], "abs": [False, False]}, "limit": None, "root": "rel", "fspell": "abs"},
    # re-read after in-place modification
    {"tree": D((b"a", R(b"same")), (b"b", R(b"sam3", 0o755)), (b"s", D((b"c", R(b"hello")), (b"l", L(b"c")))), (b"e", D())),
     "filter": "empty", "limit": 4, "reread": {"seed": 1, "n": 5, "mode": "edit"}},
    {"tree": D((b"a", R(b"same")), (b"b", R(b"sam3", 0o755)), (b"s", D((b"c", R(b"hello")), (b"l", L(b"c")))), (b"e", D())),
     "filter": {"pats": [b"s/l".hex()], "abs": [False]}, "limit": None, "reread": {"seed": 2, "n": 3, "mode": "rebuild"}, "root": "vialink"},
    {"tree": D((b"a", R(b"same")), (b"dir", D((b"c", R(b"hello")))), (b"k", D((b"c", R(b"hell0"))))),
     "filter": {"named": [b"DIR".hex()], "cs": False}, "limit": None, "reread": {"seed": 3, "n": 4, "mode": "edit"}},
    # degenerate filter arguments
    {"tree": D((b"a", D((b"f", R(b"x")))), (b"g", R(b"y"))), "filter": {"pats": [], "abs": []}, "limit": None},            # excludes nothing
    {"tree": D((b"a", D((b"f", R(b"x")))), (b"g", R(b"y"))), "filter": {"pats": [], "abs": [], "as": "gen"}, "limit": 0, "root": "rel"},
    {"tree": D((b"a", D((b"f", R(b"x")))), (b"g", R(b"y"))), "filter": {"pats": ["", b".".hex()], "abs": [False, False]}, "limit": None},
    {"tree": D((b"a", D((b"f", R(b"x")))), (b"g", R(b"y"))), "filter": {"pats": [b"a".hex()] * 3 + [b"g".hex()] * 2, "abs": [False] * 5, "as": "iter"},
     "limit": None},
    {"tree": D((b"a", D((b"f", R(b"x")), (b"n7", D()))), (b"n3", R(b"y"))),
     "filter": {"pats": [(b"n%d" % i).hex() for i in range(24)] + [b"*/n7".hex()], "abs": [False] * 25, "as": "frozenset"}, "limit": None},
    {"tree": D((b"a", D((b"f", R(b"x")))), (b"g", R(b"y"))), "filter": {"pats": [b"a/f".hex()], "abs": [True], "as": "dictkeys"}, "limit": None},
    {"tree": D((b"a", D((b"f", R(b"x")))), (b"g", D())), "filter": {"named": [], "cs": True}, "limit": None},
    {"tree": D((b"a", D((b"f", R(b"x")))), (b"g", D())), "filter": {"named": [], "cs": False, "as": "tuple"}, "limit": None},
    {"tree": D((b"a", D((b"f", R(b"x")))), (b"g", D())), "filter": {"named": [""], "cs": False}, "limit": None},
    {"tree": D((b"a", D((b"A", D((b"f", R(b"x")))))), (b"g", D())), "filter": {"named": [b"A".hex()] * 3 + [b"g".hex()], "cs": False, "as": "set"}, "limit": None},
    {"tree": D((b"a", D((b"A", D((b"f", R(b"x")))))), (b"g", D())), "filter": {"named": [b"A".hex(), b"A".hex()], "cs": True, "as": "frozenset"}, "limit": None},
    {"tree": D((b"dir", D((b"k", R(b"x")))), (b"Dir", D((b"k", R(b"x"))))), "filter": {"named": [b"dir".hex()], "cs": True}, "limit": None, "root": "rootlink_abs"},
]


def gen(rng, tier):
    n = 600 if tier == "quick" else 12000
    cases = [copy.deepcopy(c) for c in FIXED]
    for k in range(n):
        t = gen_case_tree(rng, big=(k % 30 == 7))
        flt = gen_filter(rng, t)
        shape, spell = gen_root(rng, flt)
        cases.append({"tree": t, "filter": flt, "limit": gen_limit(rng, t), "root": shape, "fspell": spell, "reread": gen_reread(rng, 0.25),
                      # how "no filter" is said; one filter object for both reads or a fresh one; listing order of the second read
                      "all_as": rng.choice(["default", "explicit", "deprecated"]), "reuse_filter": rng.random() < 0.4,
                      "shuffle": rng.randrange(10**6) if rng.random() < 0.5 else None})
    for i in range(2 if tier == "quick" else 12):
        t = wide_tree(rng, 300 if tier == "quick" else rng.choice([100, 300, 600]))
        flt = [{"pats": [b"n0*".hex(), b"*.d".hex(), b"*/x".hex()], "abs": [False] * 3}, "empty"][i % 2] if i < 2 else gen_filter(rng, t)
        cases.insert(len(FIXED) + 5 + i, {"tree": t, "filter": flt, "limit": rng.choice([None, 0, 1]), "root": "real", "fspell": "same",
                                          "all_as": "default", "reuse_filter": True, "shuffle": i})
    for k in range(20 if tier == "quick" else 400):
        cases.insert(len(FIXED) + k * (len(cases) // (25 if tier == "quick" else 420)), gen_glob_case(rng))
    # several trees read (and exported) at the same time in threads / nested in one thread
    pat = lambda *ps: {"pats": [p.hex() for p in ps], "abs": [False] * len(ps)}
    conc = [("empty", None, "threads"), (pat(b"*/dir", b"big1"), 100000, "threads"), ({"named": [b"DIR".hex()], "cs": False}, 1, "reentrant"),
            ("all", 100000, "threads"), (pat(b"e", b"bigdir/*"), None, "reentrant")]
    for i in range(5 if tier == "quick" else 40):
        f_, l_, m_ = conc[i % 5]
        cases.insert(len(FIXED) + 7 + i * max(1, len(cases) // 7),
                     {"tree": CHAIN_BOTTOM, "filter": f_, "limit": l_, "root": "real", "fspell": "same", "concurrent": gen_concurrent(rng, m_)})
    chains = gen_chain_cases(rng, tier)
    for i, ch in enumerate(chains):
        cases.insert(len(FIXED) + 3 + i * max(1, len(cases) // (len(chains) + 1)), ch)
    return cases


# ------------------------------------------------------------------ deep chains (see harness/fstree.py)
DEPTH_FINDING_FLOOR = 940       # measured on /repo: 986 nested directories are read, 987 raise (default limit, shallow stack)
FINDING_DEEP = "tree-deeper-than-recursion-limit"
CHAIN_BOTTOM = D((b"x", R(b"hi", 0o755)), (b"k", D((b"l", L(b"k")), (b"dir", D((b"z", R(b"same")))))), (b"e", D((b"e2", D()))), (b"y", R(b"same")))


def _is_chain(c):
    return bool(c.get("chain"))


def _is_conc(c):
    return isinstance(c, dict) and bool(c.get("concurrent"))


def _impl_concurrent(c):
    """k trees (big files, different bytes) read with the case's filter and limit and exported at the same time: in k threads,
    or nested in one thread (the inner read is started from the outer read's path_filter)"""
    from swh.model.from_disk import Directory
    cc, flt, lim = c["concurrent"], c["filter"], c["limit"]
    trees = concurrent_trees(c)
    pruned = [prune_tree(t, flt) for t in trees]
    want = [{hx(k): v for k, v in ref_ids(p).items()} for p in pruned]
    expected = []
    for p in pruned:
        e = {}
        for _k, data in _files_by_path(p).values():
            e.setdefault(_git_blob(data), [])
            if data not in e[_git_blob(data)]:
                e[_git_blob(data)].append(data)
        expected.append(e)
    res = {"wrong": [], "errors": [], "hang": False}
    with trees_on_disk(trees) as roots:
        for rnd in range(cc["rounds"]):
            filters = [_mk_filter(flt, r, r) for r in roots]       # built here: warnings.catch_warnings is not thread-safe

            def read(i, f=None):
                f = filters[i] if f is None else f
                d = Directory.from_disk(path=roots[i], max_content_length=lim) if f is None else \
                    Directory.from_disk(path=roots[i], path_filter=f, max_content_length=lim)
                ids = {hx(k): v for k, v in collect_ids(d).items()}
                return ids, _export_facts(d, expected[i], lim, counts=False)[1]
            if cc["mode"] == "threads":
                got, errs, hang = run_together([(lambda i=i: read(i)) for i in range(len(roots))])
            else:
                inner = {}

                def nested(dirpath, dirname, entries):
                    if not inner:
                        inner["pending"] = True
                        inner["res"] = read(1)
                    return True if filters[0] is None else filters[0](dirpath, dirname, entries)
                try:
                    outer = read(0, nested)
                    got, errs, hang = [outer, inner.get("res")], [], False
                except Exception as e:
                    got, errs, hang = [None, None], [exc_class(e) + ":" + str(e)[:80]], False
            res["errors"] += errs
            res["hang"] = res["hang"] or hang
            for i, g in enumerate(got):
                if g is None:
                    if not errs and not hang:
                        res["wrong"].append("round %d, tree %d: no result" % (rnd, i))
                elif g[0] != want[i]:
                    diff = sorted(k for k in set(g[0]) | set(want[i]) if g[0].get(k) != want[i].get(k))[:3]
                    res["wrong"].append("round %d, tree %d: ids differ from the pruned tree's at %s" % (rnd, i, diff))
                elif g[1]:
                    res["wrong"].append("round %d, tree %d: export: %s" % (rnd, i, "; ".join(g[1][:2])))
            if res["wrong"] or res["errors"] or res["hang"]:
                break
    res["wrong"] = res["wrong"][:4]
    return res


def _oracle_concurrent(c, ires):
    cc = c["concurrent"]
    note = CONCURRENT_NOTE % (cc["threads"], cc["rounds"]) if cc["mode"] == "threads" else REENTRANT_NOTE
    if ires.get("hang"):
        return "a read did not finish within 60 s " + note
    if ires.get("errors"):
        return "from_disk / the export raised %s %s" % (ires["errors"][:2], note)
    if ires.get("wrong"):
        return "%s %s" % ("; ".join(ires["wrong"][:2]), note)
    return None


def gen_chain_cases(rng, tier):
    pat = lambda *ps: {"pats": [p.hex() for p in ps], "abs": [False] * len(ps)}
    out = [
        {"tree": CHAIN_BOTTOM, "chain": 200, "chain_file": 7, "filter": "empty", "limit": None, "root": "linkup_rel", "fspell": "same"},
        {"tree": D((b"e", D((b"e2", D())))), "chain": 300, "chain_file": 50, "filter": "empty", "limit": None, "root": "real", "fspell": "same"},
        {"tree": CHAIN_BOTTOM, "chain": 200, "chain_file": 0, "filter": pat(b"*/dir", b"d/d/d/d/d/d/*/e"), "limit": None, "root": "vialink", "fspell": "abs"},
        {"tree": CHAIN_BOTTOM, "chain": 150, "chain_file": 0, "filter": pat(b"d/d/d/*"), "limit": None, "root": "real", "fspell": "same"},
        {"tree": CHAIN_BOTTOM, "chain": 500, "chain_file": 0, "filter": {"named": [b"DIR".hex()], "cs": False}, "limit": 3, "root": "real", "fspell": "same"},
        {"tree": CHAIN_BOTTOM, "chain": 400, "chain_file": 3, "filter": {"named": [b"D".hex()], "cs": False, "as": "tuple"}, "limit": None, "root": "slash1", "fspell": "same"},
        {"tree": CHAIN_BOTTOM, "chain": 900, "chain_file": 250, "filter": "all", "limit": 5, "root": "real", "fspell": "same"},
        {"tree": CHAIN_BOTTOM, "chain": 1000, "chain_file": 0, "filter": "empty", "limit": None, "root": "real", "fspell": "same"},
        {"tree": CHAIN_BOTTOM, "chain": 1500, "chain_file": 400, "filter": pat(b".*"), "limit": None, "root": "rootlink", "fspell": "same"},
    ]
    if tier != "quick":
        for _ in range(16):
            t = gen_case_tree(rng, big=False)
            t = {"t": "D", "c": [[n, ch] for n, ch in t["c"] if bytes.fromhex(n) not in (CHAIN_NAME, CHAIN_FILE)]}
            flt = gen_filter(rng, t)
            n_ = rng.randrange(20, 150) if _is_pat(flt) else rng.randrange(50, 930)
            shape, spell = gen_root(rng, flt)
            out.append({"tree": t, "chain": n_, "chain_file": 0 if _is_pat(flt) else rng.choice([0, 3, 40]), "filter": flt, "limit": None,
                        "root": shape, "fspell": spell})
        out.append({"tree": CHAIN_BOTTOM, "chain": 1200, "chain_file": 0, "filter": {"named": [b"zz".hex()], "cs": True}, "limit": None,
                    "root": "real", "fspell": "same"})
        out.append({"tree": CHAIN_BOTTOM, "chain": 1400, "chain_file": 100, "filter": "all", "limit": 0, "root": "vialink_rel", "fspell": "same"})
    return out


def _chain_prefix(k):
    return b"/".join([CHAIN_NAME] * k)


def prune_chain(c, flt):
    """the physically pruned tree of a chain case, in the same compact form (independent reference, iterative over the chain)"""
    n, kf, bottom = c["chain"], c.get("chain_file", 0), c["tree"]

    def trunc(m):       # everything below level m is gone: level m keeps its own file only
        return {"tree": {"t": "D", "c": [[CHAIN_FILE.hex(), chain_file(m)]] if chain_has_file(c, m) else []}, "chain": m, "chain_file": kf}
    if flt == "all":
        return {"tree": bottom, "chain": n, "chain_file": kf}
    if flt == "empty":
        b = prune_tree(bottom, flt)
        if b["c"]:
            return {"tree": b, "chain": n, "chain_file": kf}
        with_file = [l for l in range(n) if chain_has_file(c, l)]
        return trunc(with_file[-1]) if with_file else {"tree": {"t": "D", "c": []}, "chain": 0, "chain_file": 0}
    if _is_pat(flt):
        if kf:
            raise ValueError("harness: pattern filters on chains are generated without intermediate files")
        for k in range(1, n + 1):
            if _pat_excluded(_chain_prefix(k), flt):
                return trunc(k - 1)
        return {"tree": _prune_pats(bottom, flt, _chain_prefix(n)), "chain": n, "chain_file": kf}
    if _ignored(CHAIN_NAME, flt):
        return trunc(0)
    return {"tree": prune_tree(bottom, flt), "chain": n, "chain_file": kf}


def _chain_file_datas(p):
    out = [d for _k, d in _files_by_path(p["tree"]).values()]
    return out + [bytes.fromhex(chain_file(l)["d"]) for l in range(p["chain"]) if chain_has_file(p, l)]


def _ref_export_chain(p, lim):
    """what iter_directory must export for the (pruned) chain p: every directory and file once per distinct id"""
    ref = ref_chain(p)
    out = set()

    def content(kind, data):
        i = _git_blob(data)
        if kind == "R" and lim is not None and len(data) > lim:
            out.add(("S", i, len(data)))
        else:
            out.add(("C", i, hashlib.sha1(data).hexdigest(), len(data)))
        return i
    levels = ref["levels"]
    for l in range(p["chain"]):
        targets = [levels[l + 1]]
        if chain_has_file(p, l):
            targets.append(content("R", bytes.fromhex(chain_file(l)["d"])))
        out.add(("D", levels[l], tuple(sorted(targets))))
    ids = ref_ids(p["tree"])

    def walk(t, prefix):
        if t["t"] == "D":
            ts = []
            for nm, ch in t["c"]:
                q = prefix + b"/" + bytes.fromhex(nm) if prefix else bytes.fromhex(nm)
                ts.append(ids[q])
                walk(ch, q)
            out.add(("D", ids[prefix], tuple(sorted(ts))))
        else:
            content(t["t"], bytes.fromhex(t["d"]) if t["t"] == "R" else bytes.fromhex(t["x"]) if t["t"] == "L" else b"")
    walk(p["tree"], b"")
    return sorted([list(x[:2]) + [list(x[2])] if x[0] == "D" else list(x) for x in out])


def _impl_chain(c):
    from swh.model.from_disk import Directory
    res = {}
    t, flt, lim, n = c["tree"], c["filter"], c["limit"], c["chain"]
    with spelled_root(t, c.get("root", "real"), c) as (root, tmp, _real):
        spelled, lexical = _spell(root, tmp, c.get("fspell", "same"))
        try:
            d = Directory.from_disk(path=root, path_filter=_mk_filter(flt, spelled, lexical), max_content_length=lim)
            res["chain"] = impl_chain(d, n)
            d0 = Directory.from_disk(path=root, path_filter=_mk_filter(flt, spelled, lexical))
            res["chain_nolimit"] = impl_chain(d0, n)
        except Exception as e:
            res["error"] = exc_class(e) + ":" + str(e)[:80]
            return res
        expected = {}
        for data in _chain_file_datas(prune_chain(c, flt)):
            expected.setdefault(_git_blob(data), [])
            if data not in expected[_git_blob(data)]:
                expected[_git_blob(data)].append(data)
        try:
            res["export"], res["export_bad"] = _export_facts(d, expected, lim, counts=False)
        except Exception as e:
            res["export_error"] = exc_class(e) + ":" + str(e)[:80]
    return res


def _oracle_chain(c, ires, mres):
    what = "a chain of %d nested directories (filter %s)" % (c["chain"], enc_filter(c["filter"])[:40])
    if "error" in ires:
        # a symbolic link longer than max_content_length that the walk reaches makes from_disk raise by design (C13_symlink_limit):
        # legitimate exactly when the model, given the same chain, filter and limit, says so
        if "Symlink too large" in ires["error"] and isinstance(mres, dict) and mres.get("rootid") == "err SymlinkTooLarge" \
                and c.get("limit") is not None:
            return None
        return "from_disk raised %s on %s" % (ires["error"], what)
    if "export_error" in ires:
        return "the export raised %s on %s" % (ires["export_error"], what)
    if isinstance(mres, dict) and mres.get("rootid") == "err SymlinkTooLarge":
        return "a symlink longer than max_content_length was read without raising on %s" % what
    p = prune_chain(c, c["filter"])
    ref = ref_chain(p)
    if ires["chain_nolimit"] != ref:
        a, b = ires["chain_nolimit"]["levels"], ref["levels"]
        return ("reading %s differs from the bottom-up reference ids of the physically pruned tree (%d levels read, %d expected, "
                "root %s vs %s)" % (what, len(a), len(b), a[0], b[0]))
    if ires["chain"] != ires["chain_nolimit"]:
        return "max_content_length changes an id (deep chain)"
    if ires["export_bad"]:
        return "; ".join(ires["export_bad"][:3])
    want = _ref_export_chain(p, c["limit"])
    if ires["export"] != want:
        only_i = [x for x in ires["export"] if x not in want][:2]
        only_r = [x for x in want if x not in ires["export"]][:2]
        return "export of %s differs from the reference: only exported %s, missing %s" % (what, only_i, only_r)
    return None


def finding_key(c, ires, mres, verdict):
    """open known finding: exactly a chain deeper than the measured threshold whose read (or export) ends in RecursionError
    while the model answers an id; anything else stays a violation"""
    if not (isinstance(c, dict) and _is_chain(c) and c["chain"] > DEPTH_FINDING_FLOOR and verdict.get("kind") == "property-violation"):
        return None
    err = str(ires.get("error") or ires.get("export_error") or "")
    if err.startswith("Other(RecursionError)") and isinstance(mres, dict) and re.fullmatch(r"[0-9a-f]{40}", str(mres.get("rootid", ""))):
        return FINDING_DEEP
    return None


# ------------------------------------------------------------------ glob validation cases (model vs fnmatch.translate + re)
GLOB_ALPHA = b"ab.-!]^[*?/\\x~&|c0\x80\xff\xc3\xe2"          # outside bracket expressions: any byte but NUL
GLOB_CLASS_ALPHA = b"abc-!]^[.\\&~|xz09\x80\xa9\xbf\xff\xfe\xc0"    # inside: ASCII and bytes that can only be LONE (never a lead byte)


def _glob_in_domain(p):
    """no VALID multi-byte UTF-8 sequence inside a bracket expression (fnmatch.translate orders and drops range ends by code
    point, the compiled regex matches bytes: the two only agree for ASCII and for lone bytes, which surrogateescape maps
    one to one and in order)"""
    inside = False
    for ch in os.fsdecode(p):
        inside = inside or ch == "["
        if inside and 0x80 <= ord(ch) < 0xDC80:
            return False
    return True


def _gen_glob_pattern(rng):
    while True:
        out = b""
        for _ in range(rng.randrange(0, 8)):
            r = rng.random()
            if r < 0.35:
                body = bytes(rng.choice(GLOB_CLASS_ALPHA) for _ in range(rng.randrange(0, 6)))
                out += b"[" + body + (b"]" if rng.random() < 0.85 else b"")
            elif r < 0.45:
                out += b"*" * rng.randrange(1, 4)
            elif r < 0.52:
                out += b"\xc3\xa9"                     # a valid two-byte sequence, as a literal
            else:
                out += bytes([rng.choice(GLOB_ALPHA)])
        if _glob_in_domain(out):
            return out


def _gen_glob_text(rng, p):
    if rng.random() < 0.55:
        t = b""
        for ch in p:
            if ch == 42:
                t += bytes(rng.choice(b"ab/.\xff") for _ in range(rng.randrange(0, 3)))
            elif ch == 63:
                t += bytes([rng.choice(b"ab/.\xc3\xa9\xff")])
            elif ch in b"[]!" and rng.random() < 0.5:
                t += bytes([rng.choice(b"abc-!]^[.xz0\\\x80\xa9\xff")])
            else:
                t += bytes([ch])
        if rng.random() < 0.15:
            t += bytes([rng.choice(b"a/\n")])
        return t
    return bytes(rng.choice(b"ab.-!]^[/cxz09\\&~|\n\xc3\xa9\x80\xff") for _ in range(rng.randrange(0, 7)))


def gen_glob_case(rng):
    pairs = []
    for _ in range(100):
        p = _gen_glob_pattern(rng)
        pairs.append([hx(p), hx(_gen_glob_text(rng, p))])
    return {"kind": "glob", "pairs": pairs}


def _is_glob(c):
    return c.get("kind") == "glob"


def _is_pat(flt):
    return isinstance(flt, dict) and "pats" in flt


# ------------------------------------------------------------------ independent reference: prune the JSON tree
def _fold(b):
    return bytes(x + 32 if 65 <= x <= 90 else x for x in b)


def _ignored(name, flt):
    names = [bytes.fromhex(x) for x in flt["named"]]
    if flt["cs"]:
        return name in names
    return _fold(name) in [_fold(x) for x in names]


def _parse_simple_glob(p):
    """independent of fnmatch and of the Coq model; handles the well-formed patterns the TREE generators emit:
    '*', '?', literals, and closed bracket expressions '[' '!'? (char | lo-hi)+ ']' over plain ASCII characters"""
    out, i = [], 0
    while i < len(p):
        ch = p[i]
        if ch == 42:
            out.append(("star",))
            i += 1
        elif ch == 63:
            out.append(("any",))
            i += 1
        elif ch == 91:
            j = p.find(b"]", i + 1)
            body = p[i + 1:j]
            if j < 0 or not body or body == b"!":
                raise ValueError("harness: unsupported bracket expression in %r" % p)
            neg = body[:1] == b"!"
            body = body[1:] if neg else body
            allowed, k = set(), 0
            while k < len(body):
                if body[k] in b"]![^\\&~|":
                    raise ValueError("harness: unsupported bracket expression in %r" % p)
                if k + 2 < len(body) and body[k + 1] == 45:
                    if body[k] > body[k + 2]:
                        raise ValueError("harness: reversed range in %r" % p)
                    allowed.update(range(body[k], body[k + 2] + 1))
                    k += 3
                else:
                    if body[k] == 45 and 0 < k < len(body) - 1:
                        raise ValueError("harness: ambiguous '-' in %r" % p)
                    allowed.add(body[k])
                    k += 1
            out.append(("set", neg, frozenset(allowed)))
            i = j + 1
        else:
            out.append(("lit", ch))
            i += 1
    return out


def simple_glob_match(p, text):
    """whole-text match; set-of-positions simulation (no backtracking, no regex)"""
    pos = {0}
    for el in _parse_simple_glob(p):
        if el[0] == "star":
            pos = set(range(min(pos), len(text) + 1)) if pos else set()
        else:
            nxt = set()
            for i in pos:
                if i < len(text):
                    b = text[i]
                    if el[0] == "any" or (el[0] == "lit" and b == el[1]) or (el[0] == "set" and ((b in el[2]) != el[1])):
                        nxt.add(i + 1)
            pos = nxt
    return len(text) in pos


def _pat_excluded(rel, flt):
    return any(simple_glob_match(bytes.fromhex(x), rel) for x in flt["pats"])


def _prune_pats(t, flt, prefix=b""):
    if t["t"] != "D":
        return t
    kids = []
    for n, c in t["c"]:
        rel = prefix + b"/" + bytes.fromhex(n) if prefix else bytes.fromhex(n)
        if not _pat_excluded(rel, flt):
            kids.append([n, _prune_pats(c, flt, rel)])
    return {"t": "D", "c": kids}


def prune_tree(t, flt):
    """the tree with the filtered directories physically removed (the root is never removed); for glob patterns every
    entry - file or directory - whose root-relative path matches is removed"""
    if t["t"] != "D" or flt == "all":
        return t
    if _is_pat(flt):
        return _prune_pats(t, flt)
    kids = []
    for n, c in t["c"]:
        if c["t"] != "D":
            kids.append([n, c])
        elif flt == "empty":
            c2 = prune_tree(c, flt)
            if c2["c"]:
                kids.append([n, c2])
        elif not _ignored(bytes.fromhex(n), flt):
            kids.append([n, prune_tree(c, flt)])
    return {"t": "D", "c": kids}


def _files_by_path(t, prefix=b"", acc=None):
    acc = acc if acc is not None else {}
    if t["t"] == "D":
        for n, c in t["c"]:
            _files_by_path(c, prefix + b"/" + bytes.fromhex(n) if prefix else bytes.fromhex(n), acc)
    else:
        acc[prefix] = (t["t"], bytes.fromhex(t["d"]) if t["t"] == "R" else bytes.fromhex(t["x"]) if t["t"] == "L" else b"")
    return acc


def _git_blob(data):
    return hashlib.sha1(b"blob %d\0" % len(data) + data).hexdigest()


def nontrivial(c):
    if _is_conc(c):
        return True
    if _is_glob(c):
        return len(c["pairs"]) >= 10
    if _is_chain(c):
        return True
    t, flt, lim = c["tree"], c["filter"], c["limit"]
    if prune_tree(t, flt) != t:
        return True
    ln = _lengths(t)
    if lim is not None and any(s > lim for s in ln["R"]):
        return True
    fs = [v for v in _files_by_path(t).values()]
    return len({d for _, d in fs}) < len(fs)


def classify(c):
    ks = _classify(c) + (["reread-after-" + c["reread"].get("mode", "edit")] if isinstance(c, dict) and c.get("reread") else [])
    if isinstance(c, dict) and "tree" in c and not _is_chain(c):
        if c["filter"] == "all":
            ks.append("no-filter-as=" + c.get("all_as", "explicit"))
        if c.get("reuse_filter"):
            ks.append("filter-object-reused")
        if c.get("shuffle") is not None:
            ks.append("second-read-shuffled")
        if len(c["tree"]["c"]) >= 100:
            ks.append("fan-out>=100")
    return ks


def _classify(c):
    if _is_conc(c):
        return ["concurrent-" + c["concurrent"]["mode"]]
    if _is_glob(c):
        return ["glob-pairs"]
    if _is_chain(c):
        flt = c["filter"]
        return ["chain-depth=" + ("<=500" if c["chain"] <= 500 else "501-%d" % DEPTH_FINDING_FLOOR if c["chain"] <= DEPTH_FINDING_FLOOR
                                  else ">%d" % DEPTH_FINDING_FLOOR),
                "chain-filter=" + (flt if isinstance(flt, str) else "patterns" if _is_pat(flt) else "named"),
                "root=" + c.get("root", "real")]
    t, flt, lim = c["tree"], c["filter"], c["limit"]
    ks = ["filter=" + (flt if isinstance(flt, str) else "patterns" if _is_pat(flt) else "named-cs" if flt["cs"] else "named-ci")]
    ks.append("root=" + c.get("root", "real"))
    if _is_pat(flt):
        ks.append("root_path-spelling=" + c.get("fspell", "same"))
        if any(flt.get("abs", [])):
            ks.append("absolute-pattern")
        if any(_only_files(t, x) for x in flt["pats"]):
            ks.append("pattern-matches-a-file")
    if isinstance(flt, dict):
        items = flt["pats"] if _is_pat(flt) else flt["named"]
        ks.append("filter-arg=" + flt.get("as", "list"))
        ks.append("filter-items=" + ("0" if not items else "1" if len(items) == 1 else "2-19" if len(items) < 20 else ">=20"))
        if len(set(items)) < len(items):
            ks.append("filter-items-duplicated")
        if "" in items:
            ks.append("filter-item-empty-string")
    ks.append("limit=" + ("none" if lim is None else "0" if lim == 0 else "n"))
    p = prune_tree(t, flt)
    ks.append("pruned" if p != t else "nothing-pruned")
    ln = _lengths(t)
    if lim is not None and any(s > lim for s in ln["R"]):
        ks.append("skips")
    if lim is not None and any(s > lim for s in ln["L"]):
        ks.append("long-symlink")
    n = count_nodes(t)
    ks.append("nodes=%s" % ("1" if n == 1 else "2-10" if n <= 10 else "11-40" if n <= 40 else ">40"))
    return ks


def _only_files(t, pat_hex):
    """does this pattern exclude a non-directory?"""
    p = bytes.fromhex(pat_hex)
    return any(k != "D" and simple_glob_match(p, r) for r, k in _rel_paths(t))


# ------------------------------------------------------------------ implementation
def _container(items, kind):
    """the argument as the caller may build it: ignore_directories_patterns takes Iterable[bytes] (a one-shot iterable
    must work), ignore_named_directories a collection of names"""
    if kind == "tuple":
        return tuple(items)
    if kind == "set":
        return set(items)
    if kind == "frozenset":
        return frozenset(items)
    if kind == "iter":
        return iter(list(items))
    if kind == "gen":
        return (x for x in list(items))
    if kind == "dictkeys":
        return dict.fromkeys(items).keys()
    return list(items)


def _mk_filter(flt, root_spelled=None, root_abs=None, all_as="explicit"):
    """None = leave Directory.from_disk's path_filter parameter at its default"""
    from swh.model import from_disk
    if flt == "all":
        return {"default": None, "deprecated": from_disk.accept_all_directories}.get(all_as, from_disk.accept_all_paths)
    if flt == "empty":
        return from_disk.ignore_empty_directories
    if _is_pat(flt):
        pats = []
        for x, a in zip(flt["pats"], flt.get("abs") or [False] * len(flt["pats"])):
            pats.append(root_abs + b"/" + bytes.fromhex(x) if a else bytes.fromhex(x))
        with warnings.catch_warnings():
            warnings.simplefilter("ignore")
            return from_disk.ignore_directories_patterns(root_spelled, _container(pats, flt.get("as", "list")))
    return from_disk.ignore_named_directories(_container([bytes.fromhex(x) for x in flt["named"]], flt.get("as", "list")),
                                              case_sensitive=flt["cs"])


def _digests(data):
    return {"sha1": hashlib.sha1(data).digest(), "sha1_git": bytes.fromhex(_git_blob(data)),
            "sha256": hashlib.sha256(data).digest(), "blake2s256": hashlib.blake2s(data, digest_size=32).digest()}


def _export_facts(d, expected, limit, counts=True):
    """run iter_directory and a by-hand (lazy) export; returns (export list, list of property failures)"""
    from swh.model import from_disk, model
    bad = []
    if counts:      # iter_tree's dedup parameter: default = True = once per distinct id; False = every node
        allids = collect_ids(d)
        n_default, n_true, n_false = len(list(d.iter_tree())), len(list(d.iter_tree(dedup=True))), len(list(d.iter_tree(dedup=False)))
        if n_default != len(set(allids.values())) or n_true != n_default:
            bad.append("iter_tree() yields %d nodes, iter_tree(dedup=True) %d, the tree has %d distinct ids" % (n_default, n_true, len(set(allids.values()))))
        if n_false != len(allids):
            bad.append("iter_tree(dedup=False) yields %d nodes, the tree has %d" % (n_false, len(allids)))
    contents, skipped, dirs = from_disk.iter_directory(d)
    out = []
    ids = []
    for o in dirs:
        try:
            o.check()
        except Exception as e:
            bad.append("Directory.check() fails: " + exc_class(e))
        ids.append(("dir", o.id))
        out.append(["D", o.id.hex(), sorted(e.target.hex() for e in o.entries)])
    for o in contents:
        try:
            o.check()
        except Exception as e:
            bad.append("Content.check() fails: " + exc_class(e))
        ids.append(("cnt", o.sha1_git))
        if o.data is None:
            bad.append("iter_directory returned a content without data")
            continue
        dg = _digests(o.data)
        if any(getattr(o, k) != v for k, v in dg.items()) or o.length != len(o.data) or o.status != "visible":
            bad.append("content %s: data does not hash to its ids / length" % o.sha1_git.hex())
        if o.data not in expected.get(o.sha1_git.hex(), []):
            bad.append("content %s: data is not the bytes of a file of the tree with that id" % o.sha1_git.hex())
        if limit is not None and len(o.data) > limit:
            bad.append("content %s above max_content_length was not skipped" % o.sha1_git.hex())
        out.append(["C", o.sha1_git.hex(), hashlib.sha1(o.data).hexdigest(), len(o.data)])
    for o in skipped:
        try:
            o.check()
        except Exception as e:
            bad.append("SkippedContent.check() fails: " + exc_class(e))
        ids.append(("cnt", o.sha1_git))
        cands = expected.get(o.sha1_git.hex() if o.sha1_git else "", [])
        if not cands:
            bad.append("skipped content does not carry the sha1_git of a file of the tree")
        else:
            dg = _digests(cands[0])
            if any(getattr(o, k) != v for k, v in dg.items()) or o.length != len(cands[0]) or o.status != "absent" or not o.reason:
                bad.append("skipped content %s: digests / length / status are not those of the file" % o.sha1_git.hex())
            if limit is None or len(cands[0]) <= limit:
                bad.append("content %s within max_content_length was skipped" % o.sha1_git.hex())
        out.append(["S", o.sha1_git.hex() if o.sha1_git else "-", o.length])
    # uniqueness and closure
    if len(set(ids)) != len(ids):
        bad.append("an id is exported twice")
    idset = {i for _, i in ids}
    for o in dirs:
        for e in o.entries:
            if e.target not in idset:
                bad.append("entry %r of directory %s points to %s which is not exported" % (e.name, o.id.hex(), e.target.hex()))
    if d.hash not in {i for k, i in ids if k == "dir"}:
        bad.append("the root directory is not exported")
    # lazy path: to_model() by hand, data loaded on demand
    for node in d.iter_tree():
        if isinstance(node, from_disk.Content):
            m = node.to_model()
            if isinstance(m, model.Content):
                lazy = m.data is None
                try:
                    full = m.with_data()
                except Exception as e:
                    bad.append("with_data() raised " + exc_class(e))
                    continue
                if full.data not in expected.get(m.sha1_git.hex(), []) or _digests(full.data)["sha1_git"] != m.sha1_git:
                    bad.append("%s loaded data is not the file's bytes" % ("lazily" if lazy else "eagerly"))
                m2 = model.Content.from_dict(dict(m.to_dict()))
                if m2.data != full.data:
                    bad.append("Content.from_dict(to_dict()) lost the data")
    return sorted(out), bad


def _spell(path, tmp, spell):
    """another spelling of the same absolute path, links not resolved (what os.path.abspath keeps)"""
    lexical = os.path.abspath(path)        # the working directory is tmp
    if spell == "same":
        return path, lexical
    if spell == "abs":
        return lexical, lexical
    if spell == "slash":
        return path + b"/", lexical
    if spell == "rel":
        return os.path.relpath(lexical, tmp), lexical
    return lexical + b"/.", lexical


def impl(c):
    if _is_glob(c):
        import fnmatch
        import re
        out = []
        with warnings.catch_warnings():
            warnings.simplefilter("ignore")
            from swh.model import from_disk
            for ph, th in c["pairs"]:
                try:
                    p_ = unhx(ph)
                    if p_.startswith(b"/"):     # extract_regex_objs would first make it relative to the root: same conversion, by hand
                        rx = re.compile(os.fsencode(fnmatch.translate(os.fsdecode(p_))))
                    else:                       # the repository's own pattern -> regex conversion
                        rx = list(from_disk.extract_regex_objs(b"/nonexistent-swhv-root", [p_]))[0]
                    out.append(1 if rx.match(unhx(th)) else 0)
                except Exception as e:
                    out.append("error:" + exc_class(e))
        return {"glob": out}
    if _is_conc(c):
        return _impl_concurrent(c)
    if _is_chain(c):
        return _impl_chain(c)
    from swh.model.from_disk import Directory
    res = {}
    t, flt, lim = c["tree"], c["filter"], c["limit"]
    with spelled_root(t, c.get("root", "real")) as (root, tmp, _real):
        spelled, lexical = _spell(root, tmp, c.get("fspell", "same"))
        pruned = prune_tree(t, flt)
        proot = os.path.join(tmp, b"pruned")
        materialise(pruned, proot)
        def read(path, f, **kw):
            with warnings.catch_warnings():
                warnings.simplefilter("ignore")        # accept_all_directories is deprecated
                return Directory.from_disk(path=path, **kw) if f is None else Directory.from_disk(path=path, path_filter=f, **kw)
        f1 = None
        try:
            f1 = _mk_filter(flt, spelled, lexical, c.get("all_as", "explicit"))
            d = read(root, f1, max_content_length=lim)
        except Exception as e:
            res["error"] = exc_class(e)
            res["symlink_msg"] = str(e).startswith("Symlink too large")
            d = None
        try:
            # second read: no limit; the SAME filter object again or a fresh one; a progress_callback; possibly another listing order
            f0 = f1 if (c.get("reuse_filter") and (f1 is not None or flt == "all")) else _mk_filter(flt, spelled, lexical, c.get("all_as", "explicit"))
            progress = []
            if c.get("shuffle") is not None:
                with shuffled_scandir(c["shuffle"]):
                    d0 = read(root, f0, progress_callback=progress.append)
            else:
                d0 = read(root, f0, progress_callback=progress.append)
            res["progress_bad"] = [repr(v) for v in progress if type(v) is not int or v <= 0][:3]
            res["ids_nolimit"] = {hx(k): v for k, v in collect_ids(d0).items()}
            dp = Directory.from_disk(path=proot)
            res["ids_pruned_copy"] = {hx(k): v for k, v in collect_ids(dp).items()}
        except Exception as e:
            res["error2"] = exc_class(e) + ":" + str(e)[:80]
            return res
        if d is not None:
            res["ids"] = {hx(k): v for k, v in collect_ids(d).items()}
            expected = {}
            for _, (_k, data) in _files_by_path(pruned).items():
                expected.setdefault(_git_blob(data), [])
                if data not in expected[_git_blob(data)]:
                    expected[_git_blob(data)].append(data)
            try:
                res["export"], res["export_bad"] = _export_facts(d, expected, lim)
            except Exception as e:
                res["export_error"] = exc_class(e) + ":" + str(e)[:80]
        if c.get("reread"):
            # the tree is modified IN PLACE (or removed and built again at the same path), then read and exported again with
            # the same filter, in the same process: nothing may be carried over from the reads above
            try:
                t2, lim2 = _reread_tree(c)
                apply_ops(mutate_tree(t, c["reread"])[1], _real, t2)
                e1 = Directory.from_disk(path=root, path_filter=_mk_filter(flt, spelled, lexical), max_content_length=lim2)
                e2 = Directory.from_disk(path=other_spelling(root, _real), path_filter=_mk_filter(flt, other_spelling(root, _real), os.path.abspath(other_spelling(root, _real))))
                res["reread_ids"] = {hx(k): v for k, v in collect_ids(e1).items()}
                res["reread_equal"] = res["reread_ids"] == {hx(k): v for k, v in collect_ids(e2).items()}
                expected2 = {}
                for _, (_k, data) in _files_by_path(prune_tree(t2, flt)).items():
                    expected2.setdefault(_git_blob(data), [])
                    if data not in expected2[_git_blob(data)]:
                        expected2[_git_blob(data)].append(data)
                res["reread_export"], res["reread_export_bad"] = _export_facts(e1, expected2, lim2)
            except Exception as e:
                res["reread_error"] = exc_class(e) + ":" + str(e)[:80]
    return res


def _reread_tree(c):
    """(the tree after the edits, the limit of the second read: the case's, unless a link of the modified tree is longer)"""
    t2 = mutate_tree(c["tree"], c["reread"])[0]
    lim = c["limit"]
    if lim is not None and _symlink_should_raise(dict(c, tree=t2)):
        lim = None
    return t2, lim


# ------------------------------------------------------------------ model
def enc_filter(flt):
    if isinstance(flt, str):
        return flt
    if _is_pat(flt):
        return "pat:" + ",".join(x or "." for x in flt["pats"])
    return "named:%d:%s" % (1 if flt["cs"] else 0, ",".join(x or "." for x in flt["named"]))


def requests(c):
    if _is_glob(c):
        return ["glob %s %s" % (ph, th) for ph, th in c["pairs"]]
    if _is_conc(c):         # the trees with the big files go to the independent reference only; the model validates that
        return ["pruned %s %s" % (enc_filter(c["filter"]), enc_tree(c["tree"]))]      # reference (and the pruning) on the base tree
    if _is_chain(c):
        t, f = enc_chain(c), enc_filter(c["filter"])
        lim = "-" if c["limit"] is None else str(c["limit"])
        if c["chain"] > DEPTH_FINDING_FLOOR:    # the implementation is expected to give up: the model's root id is all that is used
            return ["rootid %s %s id %s" % (f, lim, t)]
        return ["rootid %s %s id %s" % (f, lim, t), "rootid %s - rev %s" % (f, t), "pruned %s %s" % (f, t)]
    t = enc_tree(c["tree"])
    f = enc_filter(c["filter"])
    lim = "-" if c["limit"] is None else str(c["limit"])
    extra = []
    if c.get("reread"):
        t2, lim2 = _reread_tree(c)
        l2 = "-" if lim2 is None else str(lim2)
        extra = ["ids %s %s id %s" % (f, l2, enc_tree(t2)), "export %s %s %s" % (f, l2, enc_tree(t2))]
    if _is_pat(c["filter"]):
        # the literal stack/queue model does not take the pattern filter: the fifth request is the two-predicate model
        # again, with the listing reversed
        return ["ids %s %s id %s" % (f, lim, t), "ids %s - rev %s" % (f, t), "pruned %s %s" % (f, t), "export %s %s %s" % (f, lim, t),
                "ids %s %s rev %s" % (f, lim, t)] + extra
    # the last request goes through the literal stack/queue model (from_disk_iter) with the listing reversed
    return ["ids %s %s id %s" % (f, lim, t), "ids %s - rev %s" % (f, t), "pruned %s %s" % (f, t), "export %s %s %s" % (f, lim, t),
            "iterids %s %s rev %s" % (f, lim, t)] + extra


def _ids(r):
    if not r.startswith("ok "):
        return r
    return dict(kv.split("=") for kv in r[3:].split(";"))


def model(c, resp):
    if _is_glob(c):
        return {"glob": [int(r[3:]) if r in ("ok 0", "ok 1") else r for r in resp]}
    if _is_conc(c):
        return {"pruned_root": resp[0][3:] if resp[0].startswith("ok ") else resp[0]}
    if _is_chain(c):
        rid = lambda r: r[3:] if r.startswith("ok ") else r
        if len(resp) == 1:
            return {"rootid": rid(resp[0]), "rootid_rev": rid(resp[0]), "pruned_root": rid(resp[0])}
        return {"rootid": rid(resp[0]), "rootid_rev": rid(resp[1]), "pruned_root": rid(resp[2])}
    res = {"ids": _ids(resp[0]), "ids_nolimit_rev": _ids(resp[1]), "pruned_root": resp[2][3:] if resp[2].startswith("ok ") else resp[2],
           "iterids": _ids(resp[4])}
    def parse_export(r):
        if not r.startswith("ok "):
            return r, []
        xs = []
        for item in ([] if r[3:] == "." else r[3:].split(";")):
            p = item.split(":")
            if p[0] == "D":
                xs.append(["D", p[1], sorted([] if p[2] == "." else p[2].split(","))])
            elif p[0] == "C":
                xs.append(["C", p[1], p[2], int(p[3])])
            else:
                xs.append(["S", p[1], int(p[2])])
        return sorted(xs), xs
    res["export"], xs = parse_export(resp[3])
    if isinstance(res["export"], list):
        res["export_root_first"] = bool(xs) and xs[0][0] == "D" and xs[0][1] == res["ids"].get(".") if isinstance(res["ids"], dict) else False
    if c.get("reread"):
        res["reread_ids"] = _ids(resp[5])
        res["reread_export"] = parse_export(resp[6])[0]
    return res


# ------------------------------------------------------------------ the property on the implementation
def _symlink_should_raise(c):
    """independent of the model: a symlink longer than the limit that the first pass reaches"""
    lim, flt = c["limit"], c["filter"]
    if lim is None:
        return False

    def walk(t):
        for n, ch in t["c"]:
            if ch["t"] == "L" and len(ch["x"]) // 2 > lim:
                return True
            if ch["t"] == "D":
                if flt == "empty" and not ch["c"]:
                    continue
                if isinstance(flt, dict) and _ignored(bytes.fromhex(n), flt):
                    continue
                if walk(ch):
                    return True
        return False
    if _is_pat(flt):        # excluded entries - links included - are never read
        return _long_link(prune_tree(c["tree"], flt), lim)
    return walk(c["tree"])


def _long_link(t, lim):
    if t["t"] == "L":
        return len(t["x"]) // 2 > lim
    return t["t"] == "D" and any(_long_link(ch, lim) for _, ch in t["c"])


def oracle(c, ires, mres):
    if _is_glob(c):
        return None         # fnmatch / re are the standard library: disagreement is a model-validation failure (compare)
    if _is_conc(c):
        return _oracle_concurrent(c, ires)
    if _is_chain(c):
        return _oracle_chain(c, ires, mres)
    if "error2" in ires:
        return "reading without limit / reading the pruned copy raised " + ires["error2"]
    should = _symlink_should_raise(c)
    if "error" in ires:
        if should and ires.get("symlink_msg"):
            return None
        return "from_disk raised %s (symlink longer than the limit reachable: %s)" % (ires["error"], should)
    if should:
        return "a symlink longer than max_content_length was read without raising"
    if ires["ids_nolimit"] != ires["ids_pruned_copy"]:
        a, b = ires["ids_nolimit"], ires["ids_pruned_copy"]
        diff = sorted(k for k in set(a) | set(b) if a.get(k) != b.get(k))[:4]
        return "reading with the filter differs from reading the physically pruned copy at paths %s" % diff
    if ires["ids"] != ires["ids_nolimit"]:
        return "an id depends on max_content_length, on the listing order, on progress_callback or on re-using the filter object"
    if ires.get("progress_bad"):
        return "progress_callback got %s: not a positive entry count" % ires["progress_bad"]
    if "export_error" in ires:
        return "the export raised " + ires["export_error"]
    if ires["export_bad"]:
        return "; ".join(ires["export_bad"][:3])
    if c.get("reread"):
        if "reread_error" in ires:
            return "reading / exporting the tree again after it was modified in place raised " + ires["reread_error"]
        t2, _lim2 = _reread_tree(c)
        want = {hx(k): v for k, v in ref_ids(prune_tree(t2, c["filter"])).items()}
        if ires["reread_ids"] != want:
            a = ires["reread_ids"]
            diff = sorted(k for k in set(a) | set(want) if a.get(k) != want.get(k))[:4]
            return ("a second filtered read, after the tree was modified in place (%s), does not give the ids of the pruned tree as "
                    "it is now: differs at paths %s" % (c["reread"].get("mode", "edit"), diff))
        if not ires["reread_equal"]:
            return "two spellings of the same root give different ids on the second read"
        if ires["reread_export_bad"]:
            return "second export (tree modified in place): " + "; ".join(ires["reread_export_bad"][:3])
    return None


def compare(c, ires, mres):
    if _is_glob(c):
        for (ph, th), a, b in zip(c["pairs"], ires["glob"], mres["glob"]):
            if a != b:
                return "glob model disagrees with fnmatch.translate+re: pattern %r text %r: re says %s, model says %s" % (unhx(ph), unhx(th), a, b)
        return None
    if _is_conc(c):
        if ref_ids(prune_tree(c["tree"], c["filter"]))[b""] != mres["pruned_root"]:
            return "the harness's reference id of the pruned base tree differs from the model's (reference bug)"
        return None
    if _is_chain(c):
        if mres.get("rootid") == "err SymlinkTooLarge" or "Symlink too large" in str(ires.get("error", "")):
            if (mres.get("rootid") == "err SymlinkTooLarge") != ("Symlink too large" in str(ires.get("error", ""))):
                return "deep chain: model says %s, implementation %s" % (mres.get("rootid"), ires.get("error", "no error"))
            return None
        if mres["rootid"] != mres["rootid_rev"] or mres["rootid"] != mres["pruned_root"]:
            return "MODEL: rootid (both orders) / node_id of the pruned tree disagree on a deep chain (model bug): %s" % str(mres)[:150]
        if mres["rootid"] != ires["chain"]["levels"][0]:
            return "root id of a deep chain differs between model (%s) and implementation (%s)" % (mres["rootid"], ires["chain"]["levels"][0])
        return None
    if mres["iterids"] != mres["ids"]:
        return "MODEL: the literal stack/queue model (from_disk_iter) and the recursive model disagree (model bug): %s" % str(mres["iterids"])[:60]
    if isinstance(mres.get("ids_nolimit_rev"), str):
        return "model failed without limit: " + mres["ids_nolimit_rev"]
    if mres["ids_nolimit_rev"]["."] != mres["pruned_root"]:
        return "MODEL: filtered read differs from node_id of the pruned tree (model bug)"
    if mres["ids_nolimit_rev"] != ires["ids_nolimit"]:
        a, b = mres["ids_nolimit_rev"], ires["ids_nolimit"]
        diff = sorted(k for k in set(a) | set(b) if a.get(k) != b.get(k))[:4]
        return "node ids (no limit) differ between model and implementation at paths %s" % diff
    if "error" in ires:
        if mres["ids"] != "err SymlinkTooLarge" or mres["export"] != "err SymlinkTooLarge":
            return "implementation raised %s, model answered %s" % (ires["error"], str(mres["ids"])[:60])
        return None
    if not isinstance(mres["ids"], dict):
        return "model failed (%s), implementation did not" % mres["ids"]
    if mres["ids"] != ires["ids"]:
        a, b = mres["ids"], ires["ids"]
        diff = sorted(k for k in set(a) | set(b) if a.get(k) != b.get(k))[:4]
        return "node ids differ between model and implementation at paths %s" % diff
    if not mres["export_root_first"]:
        return "MODEL: the root is not exported first (model bug)"
    if "export" in ires and mres["export"] != ires["export"]:
        a, b = mres["export"], ires["export"]
        only_m = [x for x in a if x not in b][:2]
        only_i = [x for x in b if x not in a][:2]
        return "exports differ: only in model %s, only in implementation %s" % (only_m, only_i)
    if c.get("reread") and "reread_ids" in ires:
        if mres["reread_ids"] != ires["reread_ids"]:
            return "node ids of the re-read (modified) tree differ between model and implementation"
        if mres["reread_export"] != ires["reread_export"]:
            return "exports of the re-read (modified) tree differ between model and implementation"
    return None


def shrink(c):
    if _is_glob(c):
        n = len(c["pairs"])
        if n > 1:
            yield dict(c, pairs=c["pairs"][:n // 2])
            yield dict(c, pairs=c["pairs"][n // 2:])
        return
    if _is_conc(c):
        cc = c["concurrent"]
        if len(cc["big"]) > 1:
            yield dict(c, concurrent=dict(cc, big=cc["big"][:-1]))
        if cc["threads"] > 2:
            yield dict(c, concurrent=dict(cc, threads=cc["threads"] - 1))
        return
    if _is_chain(c):
        yield dict(c, chain=c["chain"] // 2)
        yield dict(c, chain=c["chain"] - 1)
    if c.get("reread") and c["reread"].get("n", 1) > 1:
        yield dict(c, reread=dict(c["reread"], n=c["reread"]["n"] - 1))
    for t in shrink_tree(c["tree"]):
        yield dict(c, tree=t)
    if c.get("fspell", "same") != "same":
        yield dict(c, fspell="same")
    if _is_pat(c["filter"]):
        f = c["filter"]
        if any(f.get("abs", [])):
            yield dict(c, filter=dict(f, abs=[False] * len(f["pats"])))
        if len(f["pats"]) > 1:
            for i in range(len(f["pats"])):
                yield dict(c, filter=dict(f, pats=f["pats"][:i] + f["pats"][i + 1:],
                                          abs=(f.get("abs") or [False] * len(f["pats"]))[:i] + (f.get("abs") or [False] * len(f["pats"]))[i + 1:]))
    if c.get("root", "real") not in ("real",):
        yield dict(c, root="real")
    for k, v in (("reuse_filter", False), ("shuffle", None), ("all_as", "explicit")):
        if c.get(k, v) != v:
            yield dict(c, **{k: v})
    if isinstance(c["filter"], dict) and c["filter"].get("as", "list") != "list":
        yield dict(c, filter=dict(c["filter"], **{"as": "list"}))
    if c["limit"] is not None:
        yield dict(c, limit=None)
    if isinstance(c["filter"], dict) and "named" in c["filter"] and len(c["filter"]["named"]) > 1:
        for i in range(len(c["filter"]["named"])):
            yield dict(c, filter=dict(c["filter"], named=c["filter"]["named"][:i] + c["filter"]["named"][i + 1:]))


# functions of /repo whose executed-line coverage by this run is reported in the evidence
ANCHORS = [('swh/model/from_disk.py', 'ignore_directories_patterns'),
           ('swh/model/from_disk.py', 'extract_regex_objs'),
           ('swh/model/from_disk.py', 'ignore_empty_directories'),
           ('swh/model/from_disk.py', 'ignore_named_directories'),
           ('swh/model/from_disk.py', 'Directory.from_disk'),
           ('swh/model/from_disk.py', 'iter_directory'),
           ('swh/model/from_disk.py', 'Content.to_model'),
           ('swh/model/from_disk.py', 'Content.from_file'),
           ('swh/model/from_disk.py', 'Directory.to_model'),
           ('swh/model/merkle.py', 'MerkleNode.iter_tree'),
           ('swh/model/merkle.py', 'MerkleNode._iter_tree')]


# most generated trees are too large for the executable SHA-1 under vm_compute: coq_cases gets every case and keeps the first
# small ones (it shrinks the list it is given IN PLACE: the evidence's `n` is the number evaluated)
COQ_SAMPLE = 1 << 30


def coq_cases(cases):
    """from_disk with every filter kind and max_content_length (both listing orders), from_disk_iter, prune_empty /
    prune_named + node_id, export and mt_id with H := Sha1.sha1 evaluated by vm_compute inside Coq vs the extracted driver,
    on small trees: the hand-written FIXED cases and the first small generated ones (extraction cross-check)"""
    from .c06 import coq_from_disk, coq_tree_bytes
    small = [c for c in cases if not _is_glob(c) and not _is_chain(c) and not _is_conc(c) and not c.get("reread") and not _is_pat(c["filter"])
             and count_nodes(c["tree"]) <= 10 and coq_tree_bytes(c["tree"]) <= 400][:16]
    cases[:] = small
    return coq_from_disk(ID, [(c, requests(c)) for c in small])
