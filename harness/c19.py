"""C19 - repairing duplicated directory entries
(model.Directory.from_possibly_duplicated_entries).

Case format: {"entries": [[name hex, type, target hex, perms], ...], "id": hex ("" = not given),
              "raw": hex | None (= not given)}

Tie: every case goes through /repo's from_possibly_duplicated_entries and
through the extracted model `repair` (same entry wire format as C02); flag,
resulting entries (exact, in order), id, raw manifest, check() verdict and the
exception class are compared.  The property is evaluated directly on the
implementation's result in pure Python (oracle), with an independent
re-implementation of the documented tree format for the manifest.
"""
import hashlib
import itertools

from .core import exc_class, hx, unhx

ID = "C19"
PROPS = "Props/C19.v"
EXTRACT = "extract/ExC19.v"
OBLIGATION = "from_possibly_duplicated_entries"
THEOREMS = ["C19_precedence_table", "C19_precedence_order", "C19_flag", "C19_unchanged", "C19_succeeds", "C19_unique", "C19_preserved",
            "C19_winner", "C19_id", "C19_manifests_differ", "C19_check", "C19_id_kept",
            "C19_succeeds_refuted_old", "C19_new_fixes_old_witnesses", "C19_satisfiable",
            "C19_check_is_C07_check", "C19_repaired_passes_C07_check", "C19_constructor_is_C07s"]
RULE = ("two generators. (1) general: entry sequences of length 0-14 over <= 3 base names (plain, and drawn from the "
        "special-name alphabet below) with multiplicities up to 5, all file/dir/rev mixes, equal (name,type,target) "
        "triples, equal targets under one name, targets sharing their first 5 bytes (equal 10-hex prefix), targets "
        "shorter than 5 bytes, extra entries whose name IS another entry's would-be replacement name (<name>_<10hex>, "
        "also with _1, _2 appended). (2) clash paths (about a third of the quick tier): a name from the special-name "
        "alphabet - bytes that are special to %-formatting / str.format / escapes ('%', '%%', '%s', '%d', '%(x)s', "
        "'{}', '{0}', backslashes), NUL-free control bytes, '_' and '__', non-UTF-8 bytes, names of 40-300 bytes, "
        "random bytes without '/' - repeated 2-5 times with equal targets or equal 10-hex prefixes so that the "
        "first-choice name clashes, plus blocker entries literally named <name>_<hex>, <name>_<hex>_1, _2, ... "
        "(consecutive, sometimes with a gap, sometimes themselves duplicated so that a name equals the generated "
        "candidate of ANOTHER duplicated name, incl. the 1-byte-target construction <name>_<hex> + '_' + '10'), a "
        "second special group whose name is derived from the first one's candidates; the numbered path is reached "
        "up to ~8 attempts deep. Both: with/without explicit id (right, wrong) and raw_manifest (right, other "
        "order, junk). The share of cases that reach attempt >= 1 / >= 2 / >= 3 at all and with a special name is "
        "in the distribution (keys attempt>=k, special-name:attempt>=k) and logged by gen(). (3) one name carried by "
        "11-110 entries (thorough: up to 300) that all want the same first-choice name: attempt numbers with 2 and 3 "
        "digits. Targets also differ only in the 5th byte (9th / 10th hex digit: the edge of the prefix); perms up "
        "to 2^70; an id equal to the hash of the REPAIRED list's manifest (check()'s 'raw manifest not needed' "
        "clause). About one base name in ten is a string / bytes constant harvested from the source of the repository "
        "under test (gitobj_common.source_tokens) or has one spliced in ('/' removed), on the clash paths too. "
        "UTF-8 names whose Unicode normal forms "
        "differ (gitobj_common.NFC_UNSTABLE; alone, spliced, x20) occur as ordinary and as repeated names together "
        "with their NFC/NFD/NFKC/NFKD twins (once, repeated, or bearing the would-be replacement name): names are "
        "bytes, twins are different names. Call shapes (field `shape`, invisible to the model): id / raw_manifest omitted when default vs "
        "passed explicitly, entries as a tuple subclass, equal entries as ONE shared DirectoryEntry object vs "
        "distinct equal objects, perms given as DentryPerms / str / float / bool, targets of a bytes subclass. "
        "Sequences: every sixth case first repairs the same entries with OTHER id / raw_manifest (field `prime`), "
        "every case is called twice (same answer, argument unchanged). The types of what is handed out (bool, "
        "Directory, tuple, DirectoryEntry, bytes) are part of the oracle. Thorough adds all "
        "sequences of length <= 4 over 2 names x 3 types x 2 targets, for the name pairs (a, a_<hex>), "
        "(%, %_<hex>) and (%%s, %%s_<hex>_1). Non-trivial = at least one repeated name; distinct = distinct case")
TRUSTED = ["Python dict insertion order, defaultdict(list).append order, set membership, b'_%d' % n, "
           "binascii.hexlify, attr.evolve re-running the validators - as modelled in model/Dedup.v",
           "C02's model of directory_git_object / the Directory validators (model/Dir.v), tied by the C02 check",
           "lib/Sha1.v is only an instance of the hash oracle (both sides hash the same bytes; compared on every case)"]
ASSUMPTIONS = ["input domain: entries is a TUPLE (or tuple subclass) of DirectoryEntry objects as the signature says, id is bytes, "
               "raw_manifest is None or bytes. Outside it the function is not total and not covered: a list or a generator "
               "of entries, or an id of another type, makes the first Directory(...) raise attrs_strict's AttributeTypeError, "
               "which IS a ValueError and is therefore taken for 'duplicated names' (observed on /repo: a duplicate-free "
               "LIST comes back with flag True and a raw manifest that check() rejects; a generator comes back empty)",
               "perms are non-negative (the model's N); negative perms are accepted by DirectoryEntry but not modelled",
               "entries are DirectoryEntry objects, hence their names contain no '/' (DirectoryEntry.check_name); "
               "every other byte value (incl. '%', '{', backslash, control and non-UTF-8 bytes, NUL) may occur in a name - the "
               "model and the theorems treat names as arbitrary byte strings, the generators exercise those bytes on the renaming paths",
               "C19_manifests_differ assumes NUL-free names and 20-byte targets (the manifest decoder's domain)",
               "C19_check assumes that the hash function does not collide on the two manifests (original, repaired)"]

TYPES = ["file", "dir", "rev"]
TCODE = {"file": "f", "dir": "d", "rev": "r"}
TDEC = {"f": "file", "d": "dir", "r": "rev"}
PERMS = {"file": 0o100644, "dir": 0o040000, "rev": 0o160000}
PRECEDENCE = ["rev", "dir", "file"]      # the documented heuristic: rev, then dir, then file keeps the name


# ---------------------------------------------------------------- spec-level helpers (independent of /repo)
def spec_manifest(entries):
    """the documented git tree format, for entries (name, type, target, perms) in the given order
    (Python's sort is stable: equal keys keep the input order)"""
    es = sorted(entries, key=lambda e: e[0] + (b"/" if e[1] == "dir" else b""))
    body = b"".join(b"%o" % e[3] + b" " + e[0] + b"\x00" + e[2] for e in es)
    return b"tree %d\x00" % len(body) + body


def dec_entries(c):
    return [(bytes.fromhex(n), t, bytes.fromhex(tg), p) for n, t, tg, p in c["entries"]]


def base_name(name, target):
    return name + b"_" + target.hex().encode()[:10]


def old_code_fails(entries):
    """would the code before the fix (unconditional <name>_<10hex>) have produced a clash?"""
    names = [e[0] for e in entries]
    if len(set(names)) == len(names):
        return False
    out = []
    for n in dict.fromkeys(names):
        grp = [e for t in PRECEDENCE for e in entries if e[0] == n and e[1] == t]
        out.append(grp[0][0])
        out += [base_name(e[0], e[2]) for e in grp[1:]]
    return len(set(out)) < len(out)


def spec_repair(entries):
    """spec-level replay of the documented naming rule (first free name among <base>, <base>_1, <base>_2, ...
    against all original names plus the names already given): (repaired entry list, [(original name, number of
    attempts) per renamed entry]).  Used only to classify cases (which renaming path is reached) and to BUILD inputs
    (an id equal to the hash of the repaired list's manifest), never as an expected result."""
    names = [e[0] for e in entries]
    if len(set(names)) == len(names):
        return list(entries), []
    used = set(names)
    by_name = {}
    for e in entries:
        by_name.setdefault(e[0], {}).setdefault(e[1], []).append(e)
    res, out = [], []
    for n, by_type in by_name.items():
        grp = [e for t in PRECEDENCE for e in by_type.get(t, [])]
        res.append(grp[0])
        for e in grp[1:]:
            base = base_name(e[0], e[2])
            new, k = base, 0
            while new in used:
                k += 1
                new = base + b"_" + str(k).encode()
            used.add(new)
            out.append((n, k))
            res.append((new,) + tuple(e[1:]))
    return res, out


def attempt_depths(entries):
    return spec_repair(entries)[1]


def is_special(name):
    """does the name contain a byte that is special to Python formatting / escaping, a control or non-UTF-8 byte,
    or is it very long?"""
    if len(name) >= 40 or any(b in name for b in (b"%", b"{", b"}", b"\\")):
        return True
    if any(c < 0x20 or c == 0x7f for c in name):
        return True
    try:
        name.decode("utf-8")
    except UnicodeDecodeError:
        return True
    return False


# ---------------------------------------------------------------- generators
SPECIAL = [b"%", b"%%", b"%s", b"%d", b"%(x)s", b"%(", b"100%", b"50%_off", b"%5", b"%c", b"%b", b"%r", b"%a", b"%x%%",
           b"%%d", b"a%", b"%_", b"{}", b"{0}", b"{x}", b"{", b"}}", b"{0!r:>{1}}", b"\\", b"\\\\", b"\\n", b"\\x00", b"a\\",
           b"\\_", b"_", b"__", b"_1", b"a_", b"\x01", b"\x7f", b"\t", b"\n", b"\r\n", b"\x1b[0m", b"\x08\x0c", b"\xff",
           b"\xff\xfe", b"\xc3", b"\xc3\x28", b"\x80%", b"\xed\xa0\x80", b"\xf8\x88", b" ", b"a b", b"$x", b"`", b"'", b'"',
           b"*", b"?", b"~", b".", b"..", b"%\xff", b"%\n"]
_NOSLASH = [c for c in range(1, 256) if c != 0x2f]


def _tok(rng, nm):
    """about one name in ten comes from the dictionary of string / bytes constants harvested from the source of the
    repository under test (gitobj_common.source_tokens): a token alone or spliced into the usual name, '/' removed.
    A special case keyed on a literal that a change introduces is then exercised on every path, clash paths included."""
    if rng.random() >= 0.10:
        return nm
    try:
        from .gitobj_common import splice_token
        return splice_token(rng, nm, "bytes").replace(b"/", b"")
    except Exception:
        return nm


def is_token_name(name):
    try:
        from .gitobj_common import source_tokens
        return any(len(t.replace(b"/", b"")) >= 2 and t.replace(b"/", b"") in name for t in source_tokens("bytes"))
    except Exception:
        return False


def _nf(name, form):
    """the Unicode normal form of a name read as UTF-8 (None when it is not UTF-8)"""
    import unicodedata
    try:
        return unicodedata.normalize(form, name.decode("utf-8")).encode("utf-8")
    except UnicodeDecodeError:
        return None


def nfc_twins(name):
    """the OTHER byte strings that are the same text after Unicode normalisation (NFC / NFD / NFKC / NFKD)"""
    return sorted({t for t in (_nf(name, f) for f in ("NFC", "NFD", "NFKC", "NFKD")) if t is not None and t != name and b"/" not in t})


def nfc_name(rng):
    """UTF-8 text whose normal forms differ (decomposed accents, ANGSTROM / OHM SIGN, compatibility ideographs, jamo,
    ligatures ...), alone or spliced into a usual name.  Entry names are BYTES: such a name and its NFC twin are two
    different names."""
    try:
        from .gitobj_common import nfc_unstable_bytes
        u = nfc_unstable_bytes(rng)
    except Exception:
        def nfc_unstable_bytes(_rng):
            return "e\u0301".encode("utf-8")
        u = nfc_unstable_bytes(rng)
    r = rng.random()
    if r < 0.5:
        return u
    if r < 0.65:
        return rng.choice([b"a", b"dir_", b"%", b"x."]) + u
    if r < 0.8:
        return u + rng.choice([b"a", b"_", b"_1", b".txt", b"%d"])
    return u + rng.choice([b"", b"-", b"_"]) + nfc_unstable_bytes(rng) if r < 0.95 else u * 20


def special_name(rng):
    if rng.random() < 0.08:
        return nfc_name(rng)
    r = rng.random()
    if r < 0.5:
        return rng.choice(SPECIAL)
    if r < 0.78:
        return b"".join(rng.choice(SPECIAL + [b"a", b"b", b"_", b"0"]) for _ in range(rng.choice([2, 2, 3, 4])))
    if r < 0.82:
        return rng.choice(SPECIAL + [b"x"]) * rng.choice([40, 40, 100, 300])   # very long
    return bytes(rng.choice(_NOSLASH) for _ in range(rng.choice([1, 2, 3, 5, 8])))


def _id_raw(rng, es, p_none):
    man = spec_manifest(es)
    r = rng.random()
    if r < p_none:
        raw = None
    elif r < p_none + 0.375 * (1 - p_none):
        raw = man
    elif r < p_none + 0.75 * (1 - p_none):
        body = b"".join(b"%o" % e[3] + b" " + e[0] + b"\x00" + e[2] for e in es)     # unsorted: the legacy-object use
        raw = b"tree %d\x00" % len(body) + body
    else:
        raw = rng.choice([b"", b"tree 0\x00", b"junk"])
    r = rng.random()
    if r < p_none:
        id_ = b""
    elif r < p_none + 0.5 * (1 - p_none):
        id_ = hashlib.sha1(raw if raw is not None else man).digest()
    elif r < p_none + 0.7 * (1 - p_none):
        id_ = hashlib.sha1(man).digest()
    elif r < p_none + 0.85 * (1 - p_none):
        id_ = hashlib.sha1(spec_manifest(spec_repair(es)[0])).digest()      # the id the REPAIRED entries would have
    else:
        id_ = bytes(rng.randrange(256) for _ in range(rng.choice([20, 20, 1])))
    return id_, raw


def _clash_group(rng, nm, tg, mult, blockers):
    """mult entries named nm whose targets share the 10-hex prefix of tg (so that all renamed ones want the same
    first-choice name), and `blockers` entries that already bear <nm>_<hex>, <nm>_<hex>_1, ... (sometimes with a
    gap, sometimes themselves repeated: then they are another duplicated name whose own candidates interleave)"""
    es = []
    one_type = rng.random() < 0.5
    t0 = rng.choice(TYPES)
    for _ in range(mult):
        t = t0 if one_type else rng.choice(TYPES)
        r = rng.random()
        if r < 0.55 or len(tg) < 6:
            g = tg
        elif r < 0.9:
            g = tg[:5] + bytes(rng.randrange(256) for _ in range(len(tg) - 5))
        else:
            g = bytes(rng.randrange(256) for _ in range(20))
        es.append((nm, t, g, PERMS[t] if rng.random() < 0.85 else rng.choice([0, 0o100755, 7])))
    if rng.random() < 0.25:
        # names that sort strictly between NAME and NAME/ (the sort key of a directory): the entries of one name
        # are then not adjacent in tree order when a dir and a non-dir share the name
        if not one_type and rng.random() < 0.7:
            es.append((nm, "dir", tg, PERMS["dir"]))
            es.append((nm, rng.choice(["file", "rev"]), tg, PERMS["file"]))
        for _ in range(rng.choice([1, 1, 2])):
            t = rng.choice(TYPES)
            es.append((nm + rng.choice([b".", b".c", b"-", b" x", b"\x01", b"+", b"\x2e\x2e", b"\x00"]), t,
                       rng.choice([tg, bytes(rng.randrange(256) for _ in range(20))]), PERMS[t]))
    base = base_name(nm, tg)
    gap = rng.choice([None, None, None, 0, 1, 2])
    k = 0
    for _ in range(blockers):
        if k == gap:
            k += 1
        bn = base if k == 0 else base + b"_" + str(k).encode()
        t = rng.choice(TYPES)
        g = rng.choice([tg, bytes(rng.randrange(256) for _ in range(20)), b"\x10", b"\x01"])
        es.append((bn, t, g, PERMS[t]))
        if rng.random() < 0.25:                         # the blocker is itself a duplicated name
            es.append((bn, rng.choice(TYPES), g if rng.random() < 0.6 else tg, PERMS[t]))
        k += 1
    return es


def gen_clash_case(rng):
    """names from the special alphabet on the paths where the first-choice name is taken and numbered names are probed"""
    nm = _tok(rng, special_name(rng) if rng.random() < 0.9 else rng.choice([b"a", b"ab", b""]))
    if rng.random() < 0.07:
        nm = nfc_name(rng)
    tg = bytes(rng.randrange(256) for _ in range(20)) if rng.random() < 0.85 else bytes(rng.randrange(256) for _ in range(rng.choice([0, 1, 4, 5])))
    mult = rng.choice([2, 3, 3, 4, 4, 5])
    blockers = rng.choice([0, 0, 1, 1, 2, 3, 5])
    es = _clash_group(rng, nm, tg, mult, blockers)
    tw = nfc_twins(nm)
    if tw and rng.random() < 0.85:
        # the normal-form twins of the name are OTHER names: present once (must keep their name and not be counted as
        # repetitions), or repeated themselves (their own group), or bearing the would-be replacement names
        for t2 in rng.sample(tw, rng.choice([1, len(tw)])):
            k = rng.random()
            if k < 0.45:
                ty = rng.choice(TYPES)
                es.append((t2, ty, rng.choice([tg, bytes(rng.randrange(256) for _ in range(20))]), PERMS[ty]))
            elif k < 0.75:
                es += _clash_group(rng, t2, tg, rng.choice([2, 3]), rng.choice([0, 1]))
            else:
                ty = rng.choice(TYPES)
                es.append((base_name(t2, tg), ty, tg, PERMS[ty]))
                es.append((t2, "rev", tg, PERMS["rev"]))
    r = rng.random()
    if r < 0.3:
        # a second duplicated name, derived from the candidates of the first one
        base = base_name(nm, tg)
        nm2 = rng.choice([base, base + b"_1", base + b"_", nm + b"_", nm + b"_" + tg.hex().encode()[:4], base + b"_2"])
        tg2 = rng.choice([tg, b"\x10", b"\x01", bytes(rng.randrange(256) for _ in range(20))])
        es += _clash_group(rng, nm2, tg2, rng.choice([2, 2, 3]), rng.choice([0, 1, 2]))
    elif r < 0.5:
        es += _clash_group(rng, _tok(rng, special_name(rng)), tg, rng.choice([2, 3]), rng.choice([0, 1, 2]))
    r = rng.random()
    if r < 0.5:
        rng.shuffle(es)
    elif r < 0.65:
        es.reverse()
    es = es[:16]
    id_, raw = _id_raw(rng, es, 0.8)
    return {"entries": [[n_.hex(), t, g.hex(), p] for n_, t, g, p in es], "id": id_.hex(),
            "raw": None if raw is None else raw.hex(), "shape": _shape(rng)}


def _target(rng, pool):
    r = rng.random()
    if r < 0.55 and pool:
        return rng.choice(pool)                        # equal targets
    if r < 0.68 and pool:
        t = rng.choice(pool)                           # same first 5 bytes, different tail
        if len(t) >= 6:
            return t[:5] + bytes(rng.randrange(256) for _ in range(len(t) - 5))
        return t
    if r < 0.75 and pool:
        t = rng.choice(pool)                           # boundary of the prefix: differs only in the 5th byte
        if len(t) >= 5:                                # (high nibble = 9th hex digit / low nibble = 10th hex digit)
            return t[:4] + bytes([t[4] ^ rng.choice([0x01, 0x10, 0x80])]) + t[5:]
        return t
    if r < 0.82:
        return bytes(rng.randrange(256) for _ in range(rng.choice([0, 1, 4, 5, 6, 19, 21])))
    return bytes(rng.randrange(256) for _ in range(20))


def gen_case(rng):
    plain = [b"a", b"b", b"ab", b"a_", b"a_1", b"", b"a.b", b"\xff", b"a\x00", b"0"]
    pool_names = plain if rng.random() < 0.6 else plain + [special_name(rng) for _ in range(6)]
    if rng.random() < 0.08:
        u = nfc_name(rng)
        pool_names = [u] * 3 + nfc_twins(u) * 2 + plain[:3]            # a name and its normal-form twins side by side
    bases = list(dict.fromkeys(_tok(rng, b) for b in rng.sample(pool_names, rng.choice([1, 1, 2, 2, 3]))))
    n = rng.choice([0, 1, 2, 2, 3, 3, 3, 4, 4, 5, 6, 8, 10, 12])
    mult = {b: 0 for b in bases}
    pool = []
    es = []
    for _ in range(n):
        cand = [b for b in bases if mult[b] < 5]
        if not cand:
            break
        nm = rng.choice(cand)
        mult[nm] += 1
        r = rng.random()
        if r < 0.25 and es:
            same = [e for e in es if e[0] == nm]
            if same:
                es.append(tuple(rng.choice(same)))      # equal (name, type, target, perms)
                continue
        t = rng.choice(TYPES) if rng.random() < 0.8 else "file"
        tg = _target(rng, pool)
        pool.append(tg)
        perms = PERMS[t] if rng.random() < 0.8 else rng.choice([0, 1, 0o100755, 0o120000, 7, rng.randrange(65536), 2 ** 40 + 7, 2 ** 70])
        es.append((nm, t, tg, perms))
    # extra entries whose name is another entry's would-be replacement name
    if es and rng.random() < 0.5:
        for _ in range(rng.choice([1, 1, 2, 3])):
            e = rng.choice(es)
            nm = base_name(e[0], e[2])
            k = rng.choice([0, 0, 0, 1, 1, 2, 3])
            if k:
                nm = nm + b"_%d" % k
            if rng.random() < 0.15:
                nm = nm + b"_"
            t = rng.choice(TYPES)
            es.insert(rng.randrange(len(es) + 1), (nm, t, _target(rng, pool), PERMS[t]))
    if rng.random() < 0.5:
        rng.shuffle(es)
    es = es[:14]
    id_, raw = _id_raw(rng, es, 0.6)
    return {"entries": [[n_.hex(), t, tg.hex(), p] for n_, t, tg, p in es], "id": id_.hex(),
            "raw": None if raw is None else raw.hex(), "shape": _shape(rng)}


SHAPES = ["omit", "tuplesub", "share", "permconv", "targetsub"]


def _shape(rng):
    """how the call is made (the model does not see it; the result must not depend on it):
       omit      - id / raw_manifest left out of the call when they have their default value (else passed explicitly)
       tuplesub  - entries is an instance of a tuple subclass
       share     - equal entries are ONE DirectoryEntry object occurring several times (else equal but distinct objects)
       permconv  - perms handed to DirectoryEntry as DentryPerms member / decimal str / float / bool (its converter is int)
       targetsub - targets are instances of a bytes subclass"""
    r = rng.random()
    if r < 0.45:
        return []
    if r < 0.8:
        return [rng.choice(SHAPES)]
    return sorted(rng.sample(SHAPES, rng.choice([2, 3, 5])))


def _many(rng, n):
    """one name carried by n entries that all want the same first-choice name (plus a few other entries): the
    attempt counter gets 2 and 3 digits"""
    nm = _tok(rng, rng.choice([b"a", b"", b"%d", b"x_1", special_name(rng)]))
    tg = bytes(rng.randrange(256) for _ in range(20))
    t0 = rng.choice(TYPES)
    es = []
    for k in range(n):
        r = rng.random()
        t = t0 if r < 0.9 else rng.choice(TYPES)
        g = tg if r < 0.7 else tg[:5] + bytes(rng.randrange(256) for _ in range(15))
        es.append((nm, t, g, PERMS[t]))
    base = base_name(nm, tg)
    for k in rng.sample(range(0, n + 3), rng.choice([0, 1, 3])):       # some numbered names are already taken
        es.insert(rng.randrange(len(es) + 1), (base if k == 0 else base + b"_" + str(k).encode(), "file", tg, PERMS["file"]))
    id_, raw = _id_raw(rng, es, 0.8)
    return {"entries": [[n_.hex(), t, g.hex(), p] for n_, t, g, p in es], "id": id_.hex(),
            "raw": None if raw is None else raw.hex(), "shape": _shape(rng)}


def _w(es, id_="", raw=None):
    return {"entries": [[n.hex(), t, tg.hex(), PERMS[t]] for n, t, tg in es], "id": id_, "raw": raw}


T1, T2, T3 = b"\x01" * 20, b"\x02" * 20, b"\x03" * 20
# the two witnesses of the defect that was fixed (Coq: C19_succeeds_refuted_old)
WITNESS_EQUAL_TARGETS = _w([(b"a", "file", T1), (b"a", "file", T2), (b"a", "file", T2)])
WITNESS_NAME_TAKEN = _w([(b"a", "file", T1), (b"a", "file", T2), (b"a_0202020202", "file", T3)])


def gen(rng, tier):
    n_cases = 3100 if tier == "quick" else 100000          # every third one from the clash-path generator
    P1, P2 = b"100%", b"%s"
    cases = [_w([]), WITNESS_EQUAL_TARGETS, WITNESS_NAME_TAKEN,
             _w([(b"a", "file", T1), (b"a", "dir", T2), (b"a", "rev", T3)]),
             _w([(b"a", "file", T1), (b"a", "file", T2), (b"a_0202020202", "file", T3), (b"a_0202020202_1", "dir", T3),
                 (b"a", "file", T2), (b"a", "file", T2)]),
             _w([(b"a", "file", T1), (b"b", "dir", T2)]),
             # the same shapes with names that are special to formatting, several attempts deep
             _w([(P1, "dir", T1), (P1, "file", T2), (P1, "file", T2), (P1, "file", T2)]),
             _w([(P2, "file", T1), (P2, "file", T2), (P2 + b"_0202020202", "file", T3), (P2 + b"_0202020202_1", "rev", T3),
                 (P2, "file", T2)]),
             _w([(b"%%", "file", T1), (b"%%", "file", T1), (b"%%", "file", T1), (b"{0}", "rev", T2), (b"{0}", "rev", T2),
                 (b"{0}", "rev", T2), (b"\\", "dir", T3), (b"\\", "dir", T3), (b"\\", "dir", T3)]),
             # a duplicated name that equals the numbered candidate of another duplicated name (1-byte target 0x10)
             _w([(b"%d", "file", T1)] * 3 + [(b"%d_0101010101", "file", b"\x10")] * 2)]
    for k in range(n_cases):
        # interleaved, so that a truncated run still sees both generators
        c = gen_clash_case(rng) if k % 3 == 2 else gen_case(rng)
        cases.append(c)
        if k % 6 == 5:
            # before the call under test, the SAME entries are repaired once with other id / raw_manifest arguments
            # (a result remembered per entry list, or any state that outlives a call, would show)
            id_, raw = _id_raw(rng, dec_entries(c), 0.35)
            c["prime"] = {"id": id_.hex(), "raw": None if raw is None else raw.hex()}
    # one name many times: attempt numbers with 2 and 3 digits
    for n in ([11, 12, 14, 25, 30, 104, 110] if tier == "quick" else [11, 12, 13, 25, 40, 99, 101, 104, 120, 200, 300] * 3):
        cases.insert(rng.randrange(10, len(cases)), _many(rng, n))
    if tier == "thorough":
        TT = T1[:5] + b"\x09" * 15
        for pair in ((b"a", b"a_0101010101"), (b"%", b"%_0101010101"), (b"%s", b"%s_0101010101_1")):
            univ = [(nm, t, tg) for nm in pair for t in TYPES for tg in (T1, TT)]
            for r in range(0, 5):
                for combo in itertools.product(univ, repeat=r):
                    cases.append(_w(list(combo)))
    # how much of the stream reaches the numbered renaming path, and with which names
    tot = len(cases)
    cnt = {}
    for c in cases:
        for k in _depth_keys(dec_entries(c)):
            cnt[k] = cnt.get(k, 0) + 1
    try:
        from . import core
        core.log("[C19] gen: %d cases; share reaching " % tot
                 + ", ".join("%s %.1f%%" % (k, 100.0 * cnt.get(k, 0) / tot) for k in
                             ("attempt>=1", "attempt>=2", "attempt>=3", "special-name:attempt>=1",
                              "special-name:attempt>=2", "special-name:attempt>=3", "percent-name:attempt>=1",
                              "percent-name:attempt>=2"))
                 + "; cases with attempt>=10: %d, >=100: %d" % (cnt.get("attempt>=10", 0), cnt.get("attempt>=100", 0)))
    except Exception:
        pass
    return cases


def _depth_keys(es):
    ks = []
    d = attempt_depths(es)
    if not d:
        return ks
    for lim in (1, 2, 3):
        if any(k >= lim for _, k in d):
            ks.append("attempt>=%d" % lim)
        if any(k >= lim and is_special(n) for n, k in d):
            ks.append("special-name:attempt>=%d" % lim)
        if any(k >= lim and b"%" in n for n, k in d):
            ks.append("percent-name:attempt>=%d" % lim)
    for lim in (5, 10, 100):
        if any(k >= lim for _, k in d):
            ks.append("attempt>=%d" % lim)
    return ks


def _names(c):
    return [e[0] for e in c["entries"]]


def nontrivial(c):
    ns = _names(c)
    return len(set(ns)) < len(ns)


def classify(c):
    es = dec_entries(c)
    ns = [e[0] for e in es]
    ks = ["n=%s" % (len(ns) if len(ns) < 5 else "5-8" if len(ns) <= 8 else "9-16" if len(ns) <= 16 else ">16")]
    if len(set(ns)) < len(ns):
        ks.append("repeated-name")
        mx = max(ns.count(n) for n in set(ns))
        ks.append("max-multiplicity=%s" % (mx if mx <= 5 else "6-99" if mx < 100 else ">=100"))
        if len({(e[0], e[1], e[2]) for e in es}) < len(es):
            ks.append("equal-triple")
        if any(len({e[1] for e in es if e[0] == n}) > 1 for n in set(ns)):
            ks.append("mixed-types-under-one-name")
        if old_code_fails(es):
            ks.append("old-code-would-raise")           # the repaired defect class: the attempt loop is exercised
        ks += _depth_keys(es)                           # how deep the numbered path is reached, and with which names
        if any(is_special(n) for n in set(ns) if ns.count(n) > 1):
            ks.append("special-name-repeated")
        # orders that decide the raw manifest of the ORIGINAL list: equal sort keys (file/rev of one name) in both
        # orders, and a dir next to a non-dir of the same name with a name sorting between NAME and NAME/
        for n in set(ns):
            kinds = [e[1] for e in es if e[0] == n and e[1] != "dir"]
            if "file" in kinds and "rev" in kinds:
                ks.append("file-before-rev" if kinds.index("file") < kinds.index("rev") else "rev-before-file")
            ts = {e[1] for e in es if e[0] == n}
            if "dir" in ts and len(ts) > 1 and any(n < m < n + b"/" for m in set(ns)):
                ks.append("name-between-NAME-and-NAME/")
        if c["id"] and bytes.fromhex(c["id"]) == hashlib.sha1(spec_manifest(spec_repair(es)[0])).digest():
            ks.append("id-of-repaired-list")
    if c["id"]:
        ks.append("id-given")
    if c["raw"] is not None:
        ks.append("raw-given")
        if c["raw"] == "":
            ks.append("raw-empty-bytes")
    un = {n for n in set(ns) if nfc_twins(n)}
    if un:
        ks.append("nfc-unstable-name")
        if any(ns.count(n) > 1 for n in un):
            ks.append("nfc-unstable-name-repeated")
        if any(k >= 1 and n in un for n, k in attempt_depths(es)):
            ks.append("nfc-unstable-name:attempt>=1")
        if any(t in set(ns) for n in un for t in nfc_twins(n)):
            ks.append("name-and-its-normal-form-twin")
            if any(ns.count(n) > 1 and any(t in set(ns) for t in nfc_twins(n)) for n in un):
                ks.append("repeated-name-and-its-normal-form-twin")
    tn = {n for n in set(ns) if is_token_name(n)}
    if tn:
        ks.append("source-token-in-name")
        if any(ns.count(n) > 1 for n in tn):
            ks.append("source-token-in-repeated-name")
        if any(k >= 1 and n in tn for n, k in attempt_depths(es)):
            ks.append("source-token-name:attempt>=1")
    for sh in c.get("shape", []):
        ks.append("shape:" + sh)
    if c.get("prime"):
        ks.append("primed:same-entries-repaired-before-with-other-id/raw")
    if any(e[3] >= 2 ** 32 for e in es):
        ks.append("perms>=2^32")
    return ks


# ---------------------------------------------------------------- implementation
class _TupleSub(tuple):
    pass


class _BytesSub(bytes):
    pass


def _perm_conv(p, k):
    """the same permission value in another type accepted by DirectoryEntry's converter (int)"""
    from swh.model.from_disk import DentryPerms
    if k % 4 == 1:
        return str(p)
    if k % 4 == 2 and p < 2 ** 53:
        return float(p)
    if k % 4 == 3:
        try:
            return DentryPerms(p)
        except ValueError:
            return True if p == 1 else p
    return p


def _build_entries(c):
    from swh.model.model import DirectoryEntry
    shape = c.get("shape", [])
    cache = {}
    out = []
    for k, (n, t, tg, p) in enumerate(dec_entries(c)):
        if "share" in shape and (n, t, tg, p) in cache:
            out.append(cache[(n, t, tg, p)])
            continue
        e = DirectoryEntry(name=n, type=t, target=_BytesSub(tg) if "targetsub" in shape else tg,
                           perms=_perm_conv(p, k) if "permconv" in shape else p)
        cache[(n, t, tg, p)] = e
        out.append(e)
    return _TupleSub(out) if "tuplesub" in shape else tuple(out)


def _call(c, entries, args=None):
    from swh.model.model import Directory
    args = args or c
    kw = {"entries": entries}
    id_ = bytes.fromhex(args["id"])
    raw = None if args["raw"] is None else bytes.fromhex(args["raw"])
    omit = "omit" in c.get("shape", [])
    if not (omit and id_ == b""):
        kw["id"] = id_
    if not (omit and raw is None):
        kw["raw_manifest"] = raw
    return Directory.from_possibly_duplicated_entries(**kw)


def impl(c):
    from swh.model.model import Directory, DirectoryEntry
    try:
        entries = _build_entries(c)
    except Exception as e:
        return {"error": "build:" + exc_class(e)}
    before = [(e.name, e.type, e.target, e.perms) for e in entries]
    raw = None if c["raw"] is None else bytes.fromhex(c["raw"])
    if c.get("prime"):
        try:
            _call(c, entries, c["prime"])
        except Exception:
            pass
    try:
        flag, d = _call(c, entries)
    except Exception as e:
        return {"error": exc_class(e)}
    res = {"flag": bool(flag),
           "entries": [[e.name.hex(), e.type, e.target.hex(), e.perms] for e in d.entries],
           "id": d.id.hex(), "raw": None if d.raw_manifest is None else d.raw_manifest.hex()}
    # the types of what is handed out
    bad = []
    if type(flag) is not bool:
        bad.append("flag is a %s" % type(flag).__name__)
    if type(d) is not Directory:
        bad.append("the directory is a %s" % type(d).__name__)
    if not isinstance(d.entries, tuple):
        bad.append("entries is a %s" % type(d.entries).__name__)
    if any(type(e) is not DirectoryEntry for e in d.entries):
        bad.append("an entry is not a DirectoryEntry")
    if any(type(e.name) is not bytes or type(e.perms) is not int or not isinstance(e.target, bytes) for e in d.entries):
        bad.append("an entry attribute has another type")
    if type(d.id) is not bytes or not (d.raw_manifest is None or type(d.raw_manifest) is bytes):
        bad.append("id / raw_manifest is not bytes")
    res["types"] = bad
    try:
        d.check()
        res["check"] = "ok"
    except Exception as e:
        res["check"] = exc_class(e)
    if not flag:
        try:
            res["same_as_ordinary"] = (d == Directory(entries=entries, id=bytes.fromhex(c["id"]), raw_manifest=raw))
        except Exception as e:
            res["same_as_ordinary"] = "error:" + exc_class(e)
    # the argument is left as it was, and the same call again gives the same answer
    res["input_unchanged"] = [(e.name, e.type, e.target, e.perms) for e in entries] == before
    try:
        flag2, d2 = _call(c, entries)
        res["again_same"] = (flag2 == flag and type(flag2) is type(flag) and d2 == d)
    except Exception as e:
        res["again_same"] = "error:" + exc_class(e)
    return res


# ---------------------------------------------------------------- model
def enc_entries(es):
    if not es:
        return "."
    return "|".join("%s:%s:%s:%d" % (hx(bytes.fromhex(n)), TCODE[t], hx(bytes.fromhex(tg)), p) for n, t, tg, p in es)


def parse_entries(s):
    if s == ".":
        return []
    out = []
    for tok in s.split("|"):
        n, t, tg, p = tok.split(":")
        out.append([unhx(n).hex(), TDEC[t], unhx(tg).hex(), int(p)])
    return out


def requests(c):
    e = enc_entries(c["entries"])
    i = hx(bytes.fromhex(c["id"]))
    r = "-" if c["raw"] is None else hx(bytes.fromhex(c["raw"]))
    return ["rep %s %s %s" % (e, i, r), "old %s %s %s" % (e, i, r), "man " + e]


def _parse_result(line):
    if not line.startswith("ok "):
        return {"error": line[4:] if line.startswith("err ") else line}
    _, f, es, i, r, ck = line.split(" ")
    return {"flag": f == "1", "entries": parse_entries(es), "id": unhx(i).hex(),
            "raw": None if r == "-" else unhx(r).hex(), "check": ck == "1"}


def model(c, resp):
    res = _parse_result(resp[0])
    res["old"] = _parse_result(resp[1])
    res["manifest_of_original"] = unhx(resp[2][3:]).hex() if resp[2].startswith("ok ") else resp[2]
    return res


# ---------------------------------------------------------------- the property, on the implementation
def _match(orig, res):
    """is there a bijection original entry -> result entry keeping (type, target, perms) with the result
    name equal to the original name or the original name followed by a suffix starting with '_'?
    The sets of admissible result names of two original names are nested or disjoint, so taking the original names
    longest first and giving each any admissible free result name decides it."""
    if len(orig) != len(res):
        return False
    free = {}
    for r in res:
        free.setdefault(r[1:], []).append(r[0])
    for o in sorted(orig, key=lambda e: -len(e[0])):
        names = free.get(o[1:], [])
        pick = None
        if o[0] in names:
            pick = o[0]
        else:
            pre = o[0] + b"_"
            for r in names:
                if r.startswith(pre):
                    pick = r
                    break
        if pick is None:
            return False
        names.remove(pick)
    return True


def oracle(c, ires, mres):
    es = dec_entries(c)
    ns = [e[0] for e in es]
    if any(b"/" in n for n in ns):
        return None                       # not in the input domain (DirectoryEntry rejects the name)
    if "error" in ires:
        return "from_possibly_duplicated_entries raised %s: the repair must always succeed" % ires["error"]
    repeated = len(set(ns)) < len(ns)
    if ires["flag"] != repeated:
        return "flag is %s but %s name is repeated" % (ires["flag"], "a" if repeated else "no")
    if ires.get("types"):
        return "the result is not a (bool, Directory of a tuple of DirectoryEntry): " + "; ".join(ires["types"])
    res = [(bytes.fromhex(n), t, bytes.fromhex(tg), p) for n, t, tg, p in ires["entries"]]
    rn = [e[0] for e in res]
    if len(set(rn)) < len(rn):
        return "entry names are not unique after the repair"
    if sorted(e[1:] for e in res) != sorted(e[1:] for e in es):
        return "the multiset of (type, target, perms) changed"
    if not _match(sorted(es), res):
        return "some original entry is not present (at most renamed by a suffix) in the result"
    for n in set(ns):
        best = min(PRECEDENCE.index(e[1]) for e in es if e[0] == n)
        keep = [e for e in res if e[0] == n]
        if not keep:
            return "no entry keeps the original name %r" % n
        if keep[0] not in es or PRECEDENCE.index(keep[0][1]) != best:
            return "the entry keeping the name %r is not an original entry of the most important type present" % n
    given_id = bytes.fromhex(c["id"])
    given_raw = None if c["raw"] is None else bytes.fromhex(c["raw"])
    raw = None if ires["raw"] is None else bytes.fromhex(ires["raw"])
    if not repeated:
        if [tuple(e) for e in res] != es:
            return "no name is repeated but the entries were changed"
        if raw != given_raw:
            return "no name is repeated but the raw manifest was changed"
        if ires.get("same_as_ordinary") is not True:
            return "no name is repeated but the result is not the ordinary Directory: %s" % ires.get("same_as_ordinary")
        want = given_id or hashlib.sha1(given_raw if given_raw is not None else spec_manifest(es)).digest()
        if bytes.fromhex(ires["id"]) != want:
            return "id of the unrepaired directory is wrong"
        return None
    man = spec_manifest(es)                 # manifest of the ORIGINAL, unrepaired list, input order kept among equal keys
    if given_raw is None and raw != man:
        return "raw_manifest is not the manifest of the original entry list (byte for byte)"
    if given_raw is not None and raw != given_raw:
        return "the given raw_manifest was not preserved verbatim"
    if given_id:
        if bytes.fromhex(ires["id"]) != given_id:
            return "the given id was not kept"
    else:
        if bytes.fromhex(ires["id"]) != hashlib.sha1(raw).digest():
            return "id is not the hash of the (original) manifest"
        if ires["check"] != "ok":
            return "the integrity check of the repaired directory fails: " + ires["check"]
    return None


def compare(c, ires, mres):
    es = dec_entries(c)
    if mres.get("manifest_of_original") != spec_manifest(es).hex():
        return "MODEL: C02's dir_manifest differs from the documented format on the original entries (model bug)"
    if ("error" in mres["old"] and mres["old"]["error"] == "ValueError") != old_code_fails(es):
        return "MODEL: the mutant repair_old disagrees with the Python simulation of the code before the fix (model bug)"
    if "error" in ires:
        if mres.get("error") != ires["error"]:
            return "implementation raised %s, model says %s" % (ires["error"], mres.get("error", "ok"))
        return None
    if "error" in mres:
        return "implementation succeeded, model says " + mres["error"]
    if mres["flag"] != ires["flag"]:
        return "flag differs: model %s, implementation %s" % (mres["flag"], ires["flag"])
    if mres["entries"] != ires["entries"]:
        return "resulting entries differ: model %s, implementation %s" % (mres["entries"], ires["entries"])
    if mres["id"] != ires["id"]:
        return "id differs"
    if mres["raw"] != ires["raw"]:
        return "raw manifest differs"
    if mres["check"] != (ires["check"] == "ok"):
        return "check() verdict differs: model %s, implementation %s" % (mres["check"], ires["check"])
    if ires["check"] not in ("ok", "ValueError"):
        return "check() raised an unexpected exception class " + ires["check"]
    if ires.get("input_unchanged") is False:
        return "the entries handed in were modified by the call"
    if ires.get("again_same") is not True:
        return "the same call made a second time does not give the same result: %s" % ires.get("again_same")
    return None


def shrink(c):
    for cand in _shrink(c):
        cand["shape"] = c.get("shape", [])
        if c.get("prime"):
            cand["prime"] = c["prime"]
        yield cand
    if c.get("prime"):
        yield {"entries": c["entries"], "id": c["id"], "raw": c["raw"], "shape": c.get("shape", [])}
    for sh in c.get("shape", []):
        smaller = {"entries": c["entries"], "id": c["id"], "raw": c["raw"], "shape": [x for x in c["shape"] if x != sh]}
        if c.get("prime"):
            smaller["prime"] = c["prime"]
        yield smaller


def _shrink(c):
    es = c["entries"]
    for k in range(len(es)):
        yield {"entries": es[:k] + es[k + 1:], "id": c["id"], "raw": c["raw"]}
    if c["id"]:
        yield {"entries": es, "id": "", "raw": c["raw"]}
    if c["raw"] is not None:
        yield {"entries": es, "id": c["id"], "raw": None}
    for k, e in enumerate(es):
        if e[2] != T1.hex() and e[2] != T2.hex():
            for t in (T1, T2):
                yield {"entries": es[:k] + [[e[0], e[1], t.hex(), e[3]]] + es[k + 1:], "id": c["id"], "raw": c["raw"]}
    # shorten a name consistently in every name it is a prefix of (derived names <name>_<hex>[_k] follow)
    for n in sorted({bytes.fromhex(e[0]) for e in es}, key=len, reverse=True):
        if len(n) < 2:
            continue
        for n2 in (n[:len(n) // 2], n[:-1], n[1:]):
            if n2 == n or b"/" in n2:
                continue
            yield {"entries": [[(n2 + bytes.fromhex(e[0])[len(n):]).hex() if bytes.fromhex(e[0]).startswith(n) else e[0]] + e[1:]
                               for e in es], "id": c["id"], "raw": c["raw"]}


# functions of /repo whose executed-line coverage by this run is reported in the evidence
ANCHORS = [('swh/model/model.py', 'Directory.from_possibly_duplicated_entries')]


def coq_cases(cases):
    """repair Sha1.sha1 (flag, resulting entries, id, raw manifest) and check evaluated by vm_compute inside Coq vs the
    extracted driver (extraction cross-check)"""
    from . import core
    def size(c):
        return sum(len(n) // 2 + len(tg) // 2 + 8 for n, _, tg, _ in c["entries"]) + (len(c["raw"]) // 2 if c["raw"] else 0)
    cases[:] = [c for c in cases if len(c["entries"]) <= 8 and size(c) <= 400]      # in place: the evidence's `n` is the number evaluated
    ty = {"file": "EFile", "dir": "EDir", "rev": "ERev"}
    tn = {"file": 0, "dir": 1, "rev": 2}
    def nl(h):
        return "[" + "; ".join("%d" % b for b in bytes.fromhex(h)) + "]%N"
    def ent(es):
        return "[" + "; ".join("{| e_name := %s; e_type := %s; e_target := %s; e_perms := %d%%N |}" % (nl(n), ty[t], nl(tg), p)
                               for n, t, tg, p in es) + "]"
    src = ("From Coq Require Import List NArith.\nFrom SWH.lib Require Import Bytes Sha1.\nFrom SWH.model Require Import Dir Dedup.\n"
           "Import ListNotations.\n" + core.COQ_CHECKSUM +
           "\nDefinition flat (es : list entry) : list N := concat (map (fun e => e_name e ++ [256%N; match e_type e with EFile => 0 "
           "| EDir => 1 | ERev => 2 end] ++ e_target e ++ [257%N; e_perms e]) es).\n"
           "Definition cases : list (list entry * list N * option (list N)) := [" +
           ";\n ".join("(%s, %s, %s)" % (ent(c["entries"]), nl(c["id"]), "None" if c["raw"] is None else "Some " + nl(c["raw"]))
                       for c in cases) + "].\n"
           "Eval vm_compute in map (fun c => match c with (es, i, r) => match repair sha1 es i r with "
           "| RepOk f d => cksum ([if f then 1%N else 0%N] ++ flat (o_entries d) ++ [258%N] ++ o_id d ++ "
           "match o_raw d with Some m => 259%N :: m | None => [260%N] end ++ [if check sha1 d then 1%N else 0%N]) "
           "| RepValueError => 1%N | RepOutOfFuel => 2%N end end) cases.\n")
    resp = core.run_driver(ID, [requests(c)[0] for c in cases])
    exp = []
    for r in resp:
        if not r.startswith("ok "):
            exp.append({"err ValueError": 1, "err OutOfFuel": 2}.get(r, 3))
            continue
        _, f, es, i, raw, ck = r.split(" ")
        l = [int(f)]
        for n, t, tg, p in parse_entries(es):
            l += list(bytes.fromhex(n)) + [256, tn[t]] + list(bytes.fromhex(tg)) + [257, p]
        l += [258] + list(unhx(i)) + ([260] if raw == "-" else [259] + list(unhx(raw))) + [int(ck)]
        exp.append(core.py_cksum(l))
    return src, exp
