"""C01 - content hashes: every route gives the git blob id and the same digests
(swh/model/hashutil.py, model.Content/SkippedContent.from_data,
from_disk.Content.from_bytes/from_file/from_symlink, git_objects.content_git_object,
cli.swhid_of_file/swhid_of_file_content).

Tie.  Three kinds of cases:
  routes  one byte string through EVERY entry point of /repo (MultiHash.from_data,
          from_file on a BytesIO / a real file / a short-reading file object, from_path,
          chunked update, hash_git_data, content_git_object, model.Content.from_data,
          model.SkippedContent.from_data, from_disk.Content.from_bytes / from_file (regular
          file, symlink, fifo), `swh identify <file>` and `swh identify -` through click's
          CliRunner, and one real `python -m swh.model.cli` subprocess per run)
  names   MultiHash entry points with an arbitrary list of names (subsets of ALGORITHMS,
          "length", duplicates, unknown names) and an arbitrary declared length (real,
          None, wrong)
  script  operation sequences on a store of hashers: new / update / copy / digest, including 2-3
          hashers with different names and contents whose update() calls are interleaved, chunks
          optionally passed through one reused caller-side bytearray / memoryview
  overlap two or three complete computations that OVERLAP in one process: a re-entrant stream
          (read / readinto of the outer stream runs other hashutil computations before returning
          its block), nested re-entrant streams, and one thread per computation with a token
          handed round-robin inside every read()/readinto() so that the blocks of the
          computations strictly alternate (deterministic, no sleeps, bounded waits)
          ... and steps where the caller edits a dict that digest()/hexdigest()/bytehexdigest()
          returned earlier (the returned-container channel)
  rehash  one path hashed 2-4 times through every path-taking entry point while its bytes are
          replaced in between (in place with size and mtime preserved, by rename, through links),
          and two paths of identical stat shape hashed alternately
  shape   the TYPES and defaults of the arguments: hash_names as list / set / frozenset / tuple /
          dict / keys view / generator / iterator / left at its default, names and lengths of str /
          int subclasses (and True for 1), data and chunks as bytes / bytearray / memoryview / a
          bytes subclass, read() returning those, paths as str / bytes / pathlib.Path / relative /
          with `..` / through a directory symlink / with a non-UTF-8 name
  hgd     hashutil.hash_git_data for every git object type x base algorithm, unknown types
  handout a hasher handed out by from_data / from_file / from_path / copy / from_state is fed further by
          its caller; then the same / an equal / a shorter / the extended input is hashed again
          through every entry point (the returned-object channel)
  seq     2-5 contents of the same length differing in one byte hashed one after another (and
          again) through the in-memory entry points, optionally re-filling ONE BytesIO object
  stream  MultiHash.from_file on every stream class (BytesIO, BytesIO subclass, real file buffered /
          unbuffered, BufferedReader over a raw stream, raw stream, duck types, mmap) brought to a
          position other than 0 by read / read1 / readinto / readline / seek / seek from the end /
          write without rewinding; the reference is the REMAINING bytes
and the same through the extracted model.  The model is run with the FREE hash
oracle Hsym (its "digest" is  algo ":" bytes-fed); the harness applies hashlib to
what the model says was fed, so hashlib is the oracle H on both sides - which is
exactly what the theorems are agnostic about (they hold for every H).  For
sha1/sha1_git the model is ALSO run end to end with the Gallina SHA-1 (Hexec).

Oracle on the implementation alone (no model): every route equals hashlib applied
to data / to "blob <len>\\0"+data, the exact length, `git hash-object --stdin`;
scripts: an independent simulation of "a copy is an independent hasher continuing
from the same point".
"""
import atexit
import hashlib
import io
import os
import random
import shutil
import subprocess
import sys
import tempfile
import time

from .core import exc_class, hx, unhx

ID = "C01"
PROPS = "Props/C01.v"
EXTRACT = "extract/ExC01.v"
OBLIGATION = "content-hashes"
CASE_TIMEOUT = 60
THEOREMS = ["C01_chunking", "C01_chunking_digest", "C01_from_file_total", "C01_block_zero",
            "C01_block_size_positive", "C01_routes_agree", "C01_blob_manifest", "C01_subsets",
            "C01_subsets_independent", "C01_new_errors", "C01_copy_independent", "C01_copy_refuted_old",
            "C01_wrong_length_example", "C01_view_sound", "C01_satisfiable", "C01_hash_git_data_any",
            "C01_git_types_space_free"]
RULE = ("lengths {0,1,2} + {k*32768+d | k in 0..3, d in -2..2} + random <= 100 kB (half of them <= 2 kB); contents "
        "random / all-zero / all-0xff; chunkings: random cuts with forced empty chunks, 1-byte chunks, cuts exactly at "
        "block multiples, whole, none-then-whole; readers: BytesIO, real temporary file, short-reading file object "
        "following a random schedule (never empty before EOF); name lists: sampled (quick) / all 2^8 (thorough) subsets "
        "of ALGORITHMS + 'length', in random order, with duplicates, plus unknown names and missing/wrong length; "
        "scripts new/update*/copy/update* on both/digest both, and scripts with 2-3 hashers (own names, lengths, contents) "
        "whose updates are interleaved (strictly alternating or random), copies taken mid-stream, chunks optionally passed "
        "through one reused and overwritten caller-side bytearray/memoryview.  OVERLAP cases (interference between two "
        "computations is not excused by the property): 2-3 parts of pairwise different lengths (1 byte .. 100 kB, around "
        "block multiples), each with its own entry point (from_file on a stream offering read only / read+readinto / a raw "
        "io.RawIOBase with readinto only / io.BufferedReader over it, with or without short reads; from_data, from_path, "
        "chunked update, hash_git_data, model.Content.from_data, from_disk.Content.from_bytes/from_file) and names; modes: "
        "re-entrant (every k-th read()/readinto() of the outer stream runs complete computations of the other parts, before "
        "and/or after its block has been produced), nested (part i's stream runs part i+1 whose stream runs part i+2), threads "
        "(one thread per part, a token handed round-robin inside every read()/readinto() so that blocks strictly alternate; "
        "non-stream parts run whole in one turn; no sleeps, every wait bounded, a time-out is reported as Deadlock); every "
        "execution (outer, each inner repetition, each thread) must give the digests/length of its own bytes and agree with the "
        "model's plain run of that part.  STREAM-STATE cases: MultiHash.from_file on a stream that is not (necessarily) at "
        "position 0: stream classes io.BytesIO, a BytesIO subclass, a real file opened 'rb' (buffered) and unbuffered (FileIO), "
        "io.BufferedReader over a raw stream, a raw io.RawIOBase (readinto only), duck types offering read only / read+readinto, "
        "mmap; position reached by read(p), read1, readinto, readline, seek(p), seek from the end, seek relative, seek beyond the "
        "end, after a write without rewinding (BytesIO / 'w+b' file opened empty, written: nothing remains) or write then seek(p); "
        "p in {0, 1, len-1, len, len/2, random, inside the second block for streams longer than one block}; declared length = "
        "the remaining size, the whole size, or None; optional name subsets and short reads.  The reference is the digests and "
        "length of the REMAINING bytes (what a plain fobj.read() would return); the model is unchanged - it hashes the byte "
        "string it is given, i.e. the remaining bytes; the stream must be exhausted afterwards (the model's loop runs up to the "
        "empty read; compared as correspondence, not as part of the property).  REHASH cases: one path whose bytes are replaced between 2-4 hashings - in place "
        "(same inode, open r+b or wb) with the same length and atime/mtime restored to the exact previous st_*_ns, in place with "
        "the mtime left to change, in place with another length and the mtime restored, by rename of a new file (new inode) "
        "carrying the old times - hashed directly, through a hard link, through a symbolic link, or alternately; and the mirror: "
        "two paths of identical size, atime and mtime with different bytes hashed alternately (optionally swapped in place); each "
        "hashing goes, in a random order, through MultiHash.from_path, from_disk.Content.from_file, "
        "Directory.from_disk(parent)[name], Content.from_file().to_model().with_data(), iter_directory(Directory.from_disk(parent)), "
        "`swh identify <path>` in process (CliRunner) and, for a few, in a subprocess; every result must be the digests/length "
        "of the bytes in the file AT THAT MOMENT (the model, a pure function of the bytes read, is run once per hashing on "
        "those bytes).  ARGUMENT SHAPES (kind shape): hash_names passed as list, set, frozenset, tuple, dict, dict keys view, generator, "
        "iterator (a fresh container per call; the library must leave it unmodified) or left at its default (the argument omitted: "
        "MultiHash(), from_data(d), from_file(f, length=n), from_path(p)), names as str subclasses, length as int / an int subclass / "
        "True-False for 1-0 bytes, data and update() chunks as bytes / bytearray / memoryview / a bytes subclass, a stream whose "
        "read() returns such objects, the path as str / bytes / pathlib.Path / relative to a changed cwd / './f' / 'sub/../f' / through "
        "a symlinked directory / with a non-UTF-8 file name, from_bytes modes, Content.from_data(status='hidden', ctime=...) with "
        "get_hash / to_dict / unique_key / swhid / hashes, SkippedContent.hashes / unique_key, cli.swhid_of_file(_content) called "
        "directly.  HASH_GIT_DATA (kind hgd): the 7 git object types and 4 unknown ones x 11 base algorithm spellings (default, upper "
        "case, blake2 sizes, sha3).  SEQUENCES (kind seq): 2-5 contents of one length that differ in one byte (first / middle / last / "
        "random position) visited in order and revisited, through one or rotating in-memory entry points, each data object fresh "
        "(the previous one freed: address reuse), optionally ONE BytesIO re-filled for every visit.  FAILURE: an overlap mode where the "
        "stream of the first part raises an OSError subclass at its k-th read; from_file must propagate it and the computations "
        "made afterwards must be unaffected.  Also: hashutil's module constants (ALGORITHMS, DEFAULT_ALGORITHMS, HASH_BLOCK_SIZE) are "
        "compared before/after every case; scripts clear the names list right after constructing the hasher; the routes call "
        "from_symlink directly, Content.from_file on /dev/null and on a directory, to_model() of visible and absent contents, and "
        "the four *_to_* conversion helpers on every digest; thorough adds two inputs of 0.6 and 1 MiB through the MultiHash entry points.  RETURNED-OBJECT channel (kind handout): a hasher handed out by "
        "MultiHash.from_data / from_file / from_path / copy() / from_state (default or given names) - or, seen from the other side, a "
        "fresh MultiHash() streaming x then an extension - is fed 1-3 further chunks by its caller with digest()/hexdigest()/"
        "bytehexdigest() calls in between; x was optionally hashed before through one or two entry points; afterwards the very same "
        "bytes object, an equal but distinct object, a prefix, the extended string and the extension alone are hashed through "
        "from_data (default and given names), from_file, from_path, chunked update, hash_git_data, model.Content/"
        "SkippedContent.from_data, from_disk.Content.from_bytes / from_file / a symlink with that target, "
        "cli.swhid_of_file(_content); x is <= 64 bytes, 4095-4097, around the block size, or a source integer; every call must "
        "give the digests of the bytes IT was given, the hasher the copy came from must still be at x, and the handed-out hasher "
        "must continue from x (the model is unchanged: a chunked run for the handed-out hasher, a plain run for every other call); x carries a per-case "
        "salt and a case failing in process is re-decided in a fresh interpreter, so that a reported case fails on its own.  "
        "SOURCE-DERIVED values: about 8 % of "
        "the data lengths (routes, names, shape, stream kinds), a chunking style and some declared lengths are integer constants "
        "occurring in swh/model/*.py of the tree under test (each with -1/+1; up to 100 kB where the model is evaluated, up to 2 MiB "
        "for the MultiHash routes, those above 150 kB being checked by the property oracle only, the model not run), and about 8 % "
        "of the contents start and/or end with a byte literal harvested from that source (plus b'blob ', NUL, a BOM, ...), and "
        "every bytes literal of that source is placed once at the start and once at the end of a small content run through all "
        "entry points: a "
        "threshold or a prefix special case introduced by a change is in the source, hence drawn.  RETURNED-CONTAINER channel: "
        "the dicts returned "
        "by digest()/hexdigest()/bytehexdigest() (and by model.Content.hashes()) are edited by the caller (clear, pop, overwrite "
        "every value, add keys, rotate values; a read-only container is tolerated) - in the chunked route after each of four "
        "successive accessor calls, in scripts ('m' steps) between further update()/copy() calls, between two successive calls "
        "without update, on the hasher, on its copy(), and before a fresh hasher is fed the same bytes; every later result must "
        "be that of the bytes fed (the model has no such step: its digests are a pure function of the bytes fed so far).  "
        "non-trivial = data >= 1 byte and (>= 2 chunks or an entry point other than "
        "MultiHash.from_data), scripts: >= 1 byte fed and (>= 1 copy or >= 2 hashers), overlap: >= 2 non-empty parts, stream: position > 0, rehash: >= 2 distinct contents; "
        "distinct = distinct case")
TRUSTED = ["hashlib objects behave as 'bytes fed so far' (update appends, digest is a function of the bytes fed, copy() "
           "is independent) - the modelling convention of DESIGN.md section 3",
           "file objects honour the reader contract (non-empty prefixes of the REMAINING bytes - from the stream's current "
           "position -, at most the requested size, empty only at EOF); the file is not modified between "
           "os.path.getsize/lstat and the reads of ONE hashing (between two hashings the rehash cases change it on purpose)",
           "lib/Sha1.v is only an instance of the hash oracle (validated against hashlib end to end on every run)",
           "that git's blob id is sha1('blob <len>\\0' + data) is validated with `git hash-object --stdin`, not proved"]
ASSUMPTIONS = ["the length declared to MultiHash(length=) is the real length on the routes the property speaks about "
               "(the library's own entry points pass it; a wrong user-supplied length changes sha1_git: "
               "C01_wrong_length_example); declared lengths are >= 0",
               "hashlib accepts the base algorithm of every member of ALGORITHMS (checked at run time: pre_checks)",
               "CoreSWHID's 20-byte validation of the object id is not modelled (H is uninterpreted); the printed "
               "SWHID is compared as text",
               "argument TYPES do not exist in the model (it sees byte strings, lists of names, numbers): that the code treats every "
               "accepted Python type alike is checked by the shape cases only.  Outside the domain and not exercised: a memoryview "
               "with itemsize > 1 as chunk (len() counts items, so the tracked length is not the byte count), negative or float "
               "declared lengths, text-mode streams, files whose st_size is not the number of bytes read (/proc), "
               "model.Content.from_data on bytearray/memoryview (rejected by the attrs validator), base algorithms hashlib lacks",
               "the model is a pure function of the bytes of ONE computation (a MultiHash cell shares nothing with another "
               "cell: C01_chunking's frame clause, C01_copy_independent); that the implementation has no state shared between "
               "two computations (module-level buffers, caches of hashlib objects, ...) is not a theorem about the code but is "
               "checked by the overlap cases: interference is exactly a deviation of an overlapped execution from the model's "
               "plain run.  Overlaps explored: same-thread re-entrancy at read()/readinto() boundaries and token-passing threads "
               "switching at those boundaries; preemption at arbitrary bytecode boundaries (free-running threads) is not explored"]

BLOCK = 32768
MULTIHASH_ROUTES = ("fd", "ff", "ffr", "ffs", "fp", "fpl", "ch")

# ------------------------------------------------------------------ the hash oracle of the harness


def HL(algo, data):
    """hashlib as the oracle H: hashlib algorithm name -> bytes -> digest"""
    algo = algo.lower()
    if algo.startswith("blake2"):
        return getattr(hashlib, algo[:7])(data, digest_size=int(algo[7:]) // 8).digest()
    return hashlib.new(algo, data).digest()


def spec_digest(name, declared_len, data):
    """the property: digest of entry `name` of a MultiHash that has consumed data"""
    if name.endswith("_git"):
        return HL(name[:-4], b"blob %d\0" % declared_len + data)
    return HL(name, data)


# ------------------------------------------------------------------ case materialisation
_cache = {}


def data_of(spec):
    key = (spec["t"], spec.get("n"), spec.get("s"), spec.get("b"), spec.get("v"), spec.get("h"), spec.get("p"), spec.get("e"))
    if key in _cache:
        return _cache[key]
    if spec["t"] == "hex":
        d = bytes.fromhex(spec["v"])
    elif spec["t"] == "fill":
        d = bytes([spec["b"]]) * spec["n"]
    elif spec["t"] == "rep":       # head + pattern repeated + tail, exactly n bytes
        head, pat, tail = (bytes.fromhex(spec[k]) for k in ("h", "p", "e"))
        body = max(0, spec["n"] - len(head) - len(tail))
        d = (head + (pat * (body // len(pat) + 1))[:body])[:max(0, spec["n"] - len(tail))] + tail     # the tail survives truncation
        d = d[len(d) - spec["n"]:] if len(d) > spec["n"] else d
    else:
        d = random.Random(spec["s"]).randbytes(spec["n"])
    if len(_cache) > 8:
        _cache.clear()
    _cache[key] = d
    return d


def chunks_of(data, cuts):
    """cuts = successive chunk lengths; what remains is the last chunk"""
    res, pos = [], 0
    for c in cuts:
        res.append(data[pos:pos + c])
        pos += c
    if pos < len(data):
        res.append(data[pos:])
    return res


class ShortReader:
    """a file object that returns fewer bytes than asked, following a schedule, never empty before EOF"""

    def __init__(self, data, sched):
        self.data, self.pos, self.sched, self.k = data, 0, sched, 0

    def read(self, n=-1):
        if n is None or n < 0:
            n = len(self.data)
        want = n
        if self.k < len(self.sched):
            want = min(self.sched[self.k] + 1, n)
        self.k += 1
        out = self.data[self.pos:self.pos + want]
        self.pos += len(out)
        return out


_tmp = None


def tmpdir():
    global _tmp
    if _tmp is None:
        _tmp = tempfile.mkdtemp(prefix="c01-")
        atexit.register(shutil.rmtree, _tmp, True)
    return _tmp


def write_tmp(data, name="f"):
    p = os.path.join(tmpdir(), name)
    with open(p, "wb") as f:
        f.write(data)
    return p


# ------------------------------------------------------------------ implementation side
def _hexv(v):
    return v.hex() if isinstance(v, (bytes, bytearray)) else "not-bytes:" + repr(v)[:40]


def mh_res(d):
    return {"length": d.get("length"), "d": {str(k): _hexv(v) for k, v in d.items() if k != "length"}}


def mh_res_form(d, form):
    """canonical form of what digest() / hexdigest() / bytehexdigest() returned (a snapshot: later edits of d do not show)"""
    if form == "hex":
        return {"length": d.get("length"), "d": {k: str(v) for k, v in d.items() if k != "length"}}
    if form == "bytehex":
        return {"length": d.get("length"), "d": {k: bytes(v).decode("ascii") if isinstance(v, (bytes, bytearray)) else
                                                 "not-bytes:" + repr(v)[:40] for k, v in d.items() if k != "length"}}
    return mh_res(d)


def call_form(h, form):
    return {"hex": h.hexdigest, "bytehex": h.bytehexdigest}.get(form, h.digest)()


EDITS = ["clear", "pop", "set", "add", "swap"]


def scribble(d, kind):
    """what a caller may do to a dict it got back; a read-only or otherwise defensive container is fine: errors are ignored"""
    try:
        if kind == "clear":
            d.clear()
        elif kind == "pop":
            d.pop(next(iter(d)))
        elif kind == "set":
            for k in list(d):
                v = d[k]
                d[k] = -1 if isinstance(v, int) else "0" * len(v) if isinstance(v, str) else b"\0" * len(v)
        elif kind == "add":
            d["sha1"] = b"x"
            d["length"] = 12345
            d["extra"] = None
        elif kind == "swap":
            ks = list(d)
            vs = [d[k] for k in ks]
            for k, v in zip(ks, vs[1:] + vs[:1]):
                d[k] = v
    except Exception:
        pass


def guard(f):
    try:
        return f()
    except Exception as e:
        return {"error": exc_class(e)}


def content_res(get, length, extra=None):
    d = {k: get(k).hex() for k in ("sha1", "sha1_git", "sha256", "blake2s256")}
    if extra:
        d.update(extra)
    return {"length": length, "d": d}


def impl_routes(c):
    from click.testing import CliRunner
    from swh.model import from_disk, git_objects, hashutil, model
    from swh.model.cli import identify
    MH = hashutil.MultiHash
    data = data_of(c["data"])
    n = len(data)
    names = c.get("names")
    names = list(hashutil.DEFAULT_ALGORITHMS) + ["length"] if names is None else list(names)
    declared = n if c.get("length", "real") == "real" else c["length"]
    path = write_tmp(data)
    res = {}
    res["fd"] = guard(lambda: mh_res(MH.from_data(data, hash_names=names).digest()))
    res["ff"] = guard(lambda: mh_res(MH.from_file(io.BytesIO(data), hash_names=names, length=declared).digest()))

    def real():
        with open(path, "rb") as f:
            return mh_res(MH.from_file(f, hash_names=names, length=declared).digest())
    res["ffr"] = guard(real)
    if c.get("sched"):
        res["ffs"] = guard(lambda: mh_res(MH.from_file(ShortReader(data, c["sched"]), hash_names=names,
                                                       length=declared).digest()))
    res["fp"] = guard(lambda: mh_res(MH.from_path(path, hash_names=names).digest()))
    # ... and the same path reached through a symbolic link (open() and the size both follow it)
    lpath = os.path.join(tmpdir(), "link-to-file")
    try:
        if os.path.lexists(lpath):
            os.unlink(lpath)
        os.symlink(os.path.basename(path) if os.path.dirname(path) == tmpdir() else path, lpath)
        res["fpl"] = guard(lambda: mh_res(MH.from_path(lpath, hash_names=names).digest()))
    except OSError:
        pass

    def chunked():
        h = MH(hash_names=names, length=declared)
        for ch in chunks_of(data, c["cuts"]):
            h.update(ch)
        again = []
        for k, form in enumerate(("bin", "hex", "bytehex", "bin")):      # every accessor, each result edited by the caller
            d = call_form(h, form)
            again.append(mh_res_form(d, form))
            scribble(d, EDITS[(len(data) + k) % len(EDITS)])
        r = mh_res(h.digest())
        r["again"] = again
        return r
    res["ch"] = guard(chunked)
    if c["kind"] == "names":
        return res
    res["hg"] = guard(lambda: {"length": None, "d": {"sha1_git": hashutil.hash_git_data(data, "blob").hex()}})

    def cgo():
        o = model.Content.from_data(data)
        m = git_objects.content_git_object(o)
        try:                                          # a content whose data is not attached has no git object: MissingData
            import attr
            git_objects.content_git_object(attr.evolve(o, data=None))
            nodata = "returned"
        except Exception as e:
            nodata = exc_class(e)
        return {"length": None, "d": {"manifest": hashlib.sha256(m).hexdigest()}, "sha1": hashlib.sha1(m).hexdigest(), "nodata": nodata}
    res["cg"] = guard(cgo)

    def mc():
        o = model.Content.from_data(data)
        h1 = o.hashes()
        first = {k: v.hex() for k, v in h1.items()}
        scribble(h1, EDITS[len(data) % len(EDITS)])                       # the caller edits the dict hashes() returned
        r = content_res(lambda k: getattr(o, k), o.length)
        r["hashes"] = [first, {k: v.hex() for k, v in o.hashes().items()}]
        bad = []                                                          # the *_to_* helpers (lru_cache'd) on these very digests
        for k in ("sha1", "sha1_git", "sha256", "blake2s256"):
            dg = getattr(o, k)
            hx_, bhx = dg.hex(), dg.hex().encode()
            if not (hashutil.hash_to_hex(dg) == hx_ and hashutil.hash_to_hex(hx_) == hx_ and hashutil.hash_to_bytehex(dg) == bhx
                    and hashutil.hash_to_bytes(hx_) == dg and hashutil.hash_to_bytes(dg) == dg and hashutil.bytehex_to_hash(bhx) == dg):
                bad.append(k)
        r["cv_bad"] = bad
        return r
    res["mc"] = guard(mc)

    def ms():
        o = model.SkippedContent.from_data(data, reason="r")
        return content_res(lambda k: getattr(o, k), o.length)
    res["ms"] = guard(ms)

    def db():
        o = from_disk.Content.from_bytes(mode=0o100644, data=data)
        r = content_res(lambda k: o.data[k], o.data["length"])
        r["hash"] = o.hash.hex()
        return r
    res["db"] = guard(db)

    def df():
        o = from_disk.Content.from_file(path=path.encode(), max_content_length=c.get("maxlen"))
        r = content_res(lambda k: o.data[k], o.data["length"],
                        {"absent": "01" if o.data["status"] == "absent" else "00"})
        r["hash"] = o.hash.hex()
        m = o.to_model()                                                  # Content or, beyond max_content_length, SkippedContent
        r["hashes"] = [{k: v.hex() for k, v in m.hashes().items()}]
        r["model_length"] = m.length
        return r
    res["df"] = guard(df)
    if c.get("symlink"):
        lp = os.path.join(tmpdir(), "lnk")
        try:
            if os.path.lexists(lp):
                os.unlink(lp)
            os.symlink(data, lp.encode())
            made = True
        except (OSError, ValueError):
            made = False
        if made:
            def dl():
                o = from_disk.Content.from_file(path=lp.encode(), max_content_length=c.get("maxlen"))
                return content_res(lambda k: o.data[k], o.data["length"])
            res["dl"] = guard(dl)
            if c.get("maxlen") is None:
                def dls():                                                # the documented constructor for links, called directly
                    o = from_disk.Content.from_symlink(path=lp.encode(), mode=os.lstat(lp).st_mode)
                    return content_res(lambda k: o.data[k], o.data["length"])
                res["dls"] = guard(dls)
    if c.get("fifo"):
        fp = os.path.join(tmpdir(), "fifo")
        if not os.path.exists(fp):
            os.mkfifo(fp)

        def do():
            o = from_disk.Content.from_file(path=fp.encode(), max_content_length=c.get("maxlen"))
            return content_res(lambda k: o.data[k], o.data["length"])
        res["do"] = guard(do)
        for code, other in (("do2", b"/dev/null"), ("do3", tmpdir().encode())):       # a character device, a directory
            def doo(other=other):
                o = from_disk.Content.from_file(path=other, max_content_length=c.get("maxlen"))
                return content_res(lambda k: o.data[k], o.data["length"])
            res[code] = guard(doo)
    runner = CliRunner()

    def cli(args, **kw):
        r = runner.invoke(identify, args, **kw)
        if r.exit_code != 0:
            return {"error": exc_class(r.exception) if r.exception else "Exit(%d)" % r.exit_code}
        return {"length": None, "d": {"swhid": r.output.rstrip("\n").encode().hex()}}
    res["cf"] = guard(lambda: cli(["--no-filename", path]))
    res["cs"] = guard(lambda: cli(["--no-filename", "-"], input=data))
    if c.get("subproc"):
        def sp():
            p = subprocess.run([sys.executable, "-m", "swh.model.cli", "--no-filename", path],
                               capture_output=True, timeout=50,
                               env=dict(os.environ, PYTHONPATH=os.environ.get("VERIF_REPO", "/repo")))
            if p.returncode != 0:
                return {"error": "Exit(%d)" % p.returncode, "stderr": p.stderr.decode("utf-8", "replace")[-300:]}
            return {"length": None, "d": {"swhid": p.stdout.rstrip(b"\n").hex()}}
        res["sp"] = guard(sp)
    if c.get("git"):
        try:
            p = subprocess.run(["git", "hash-object", "--stdin"], input=data, capture_output=True, timeout=50)
            res["git"] = p.stdout.decode().strip() if p.returncode == 0 else None
        except Exception:
            res["git"] = None
    return res


def impl_script(c):
    from swh.model.hashutil import MultiHash
    vs, evs, returned = [], [], []
    scratch = bytearray(64)
    for op in c["ops"]:
        try:
            if op[0] == "n":
                nm = list(op[1])
                vs.append(MultiHash(hash_names=nm, length=op[2]))
                nm.clear()                # the caller's list is its own: the hasher must not depend on it any more
                evs.append("done")
            elif op[0] == "u":
                ch = bytes.fromhex(op[2])
                if c.get("buf"):          # the caller reuses ONE buffer for every chunk of every hasher (legal: update copies)
                    if len(scratch) < len(ch):
                        scratch.extend(bytes(len(ch) - len(scratch)))
                    scratch[:len(ch)] = ch
                    vs[op[1]].update(memoryview(scratch)[:len(ch)] if c["buf"] == "view" else scratch[:len(ch)])
                    scratch[:len(ch)] = b"\xa5" * len(ch)
                else:
                    vs[op[1]].update(ch)
                evs.append("done")
            elif op[0] == "c":
                vs.append(vs[op[1]].copy())
                evs.append("done")
            elif op[0] == "m":            # the caller edits the dict an earlier digest()/hexdigest()/bytehexdigest() returned
                if op[1] < len(returned):
                    scribble(returned[op[1]], op[2])
                evs.append("done")
            else:
                form = op[2] if len(op) > 2 else "bin"
                d = call_form(vs[op[1]], form)
                returned.append(d)
                evs.append(mh_res_form(d, form))
        except Exception as e:
            evs.append({"error": exc_class(e)})
            break
    return {"events": evs}


# ---- overlapping computations: re-entrant streams, alternating threads --------------------------
class Deadlock(Exception):
    pass


class _Stream:
    """Short-reading stream over data with a hook called before the block is produced and after it
    has been produced (readinto: after it has been written into the caller's buffer), i.e. just
    before returning.  What the hook does (run another hashing / hand over to another thread) is
    the overlap."""

    def __init__(self, data, sched, hook):
        self._d, self._pos, self._sched, self._k, self._hook = data, 0, list(sched or []), 0, hook

    def _take(self, n):
        want = n
        if self._k < len(self._sched):
            want = min(self._sched[self._k] + 1, n)
        self._k += 1
        out = self._d[self._pos:self._pos + want]
        self._pos += len(out)
        return out

    def _read(self, n):
        if n is None or n < 0:
            n = len(self._d)
        self._hook("before")
        out = self._take(n)
        self._hook("after")
        return out

    def _readinto(self, b):
        self._hook("before")
        out = self._take(len(b))
        b[:len(out)] = out
        self._hook("after")
        return len(out)


class ReadStream(_Stream):                 # read() only
    def read(self, n=-1):
        return self._read(n)


class BothStream(_Stream):                 # read() and readinto(), a plain object
    def read(self, n=-1):
        return self._read(n)

    def readinto(self, b):
        return self._readinto(b)


class RawStream(io.RawIOBase):             # a raw stream (pipe/socket like): readinto() only, read() inherited
    def __init__(self, data, sched, hook):
        super().__init__()
        self._s = _Stream(data, sched, hook)

    def readable(self):
        return True

    def readinto(self, b):
        return self._s._readinto(b)


def make_stream(kind, data, sched, hook):
    if kind == "read":
        return ReadStream(data, sched, hook)
    if kind == "both":
        return BothStream(data, sched, hook)
    if kind == "raw":
        return RawStream(data, sched, hook)
    if kind == "buffered":                 # io.BufferedReader over the raw stream
        return io.BufferedReader(RawStream(data, sched, hook), buffer_size=rng_free_bufsize(len(data)))
    raise ValueError(kind)


def rng_free_bufsize(n):
    return 4096 if n % 2 else 65536        # deterministic in the case, no PRNG at run time


def part_names(part):
    from swh.model import hashutil
    names = part.get("names")
    return list(hashutil.DEFAULT_ALGORITHMS) + ["length"] if names is None else list(names)


def run_part(part, idx, hook):
    """one complete computation of one part through its entry point; result in the shape of impl_routes"""
    from swh.model import from_disk, hashutil, model
    MH = hashutil.MultiHash
    data = data_of(part["data"])
    names = part_names(part)
    code = part["route"]
    if code == "ff":
        return guard(lambda: mh_res(MH.from_file(make_stream(part.get("stream", "both"), data, part.get("sched"), hook),
                                                 hash_names=names, length=len(data)).digest()))
    if code == "fd":
        return guard(lambda: mh_res(MH.from_data(data, hash_names=names).digest()))
    if code == "fp":
        return guard(lambda: mh_res(MH.from_path(os.path.join(tmpdir(), "ov%d" % idx), hash_names=names).digest()))
    if code == "ch":
        def chunked():
            h = MH(hash_names=names, length=len(data))
            for ch in chunks_of(data, part.get("cuts", [])):
                h.update(ch)
            return mh_res(h.digest())
        return guard(chunked)
    if code == "hg":
        return guard(lambda: {"length": None, "d": {"sha1_git": hashutil.hash_git_data(data, "blob").hex()}})
    if code == "mc":
        def mc():
            o = model.Content.from_data(data)
            return content_res(lambda k: getattr(o, k), o.length)
        return guard(mc)
    if code == "db":
        def db():
            o = from_disk.Content.from_bytes(mode=0o100644, data=data)
            return content_res(lambda k: o.data[k], o.data["length"])
        return guard(db)
    if code == "df":
        def df():
            o = from_disk.Content.from_file(path=os.path.join(tmpdir(), "ov%d" % idx).encode())
            return content_res(lambda k: o.data[k], o.data["length"],
                               {"absent": "01" if o.data["status"] == "absent" else "00"})
        return guard(df)
    raise ValueError(code)


MAX_INNER = 16


def impl_overlap(c):
    import threading
    parts = c["parts"]
    for k, p in enumerate(parts):
        if p["route"] in ("fp", "df"):
            write_tmp(data_of(p["data"]), "ov%d" % k)
    res = {"p%d" % k: [] for k in range(len(parts))}
    when = c.get("when", "after")
    every = max(1, c.get("every", 1))
    nohook = lambda phase: None
    if c["mode"] == "reentrant":
        # the outer stream (part 0) runs, inside its read()/readinto(), complete computations of the other parts in rotation
        state = {"calls": 0, "runs": 0}

        def hook(phase):
            if phase == "before":
                state["calls"] += 1
            if (when == phase or when == "both") and (state["calls"] - 1) % every == 0 and state["runs"] < MAX_INNER:
                k = 1 + state["runs"] % (len(parts) - 1)
                state["runs"] += 1
                res["p%d" % k].append(run_part(parts[k], k, nohook))
        res["p0"].append(run_part(parts[0], 0, hook))
    elif c["mode"] == "nested":
        # part k's stream runs part k+1 (whose stream runs part k+2 ...) inside its first two calls
        def hook_for(k):
            state = {"calls": 0}

            def hook(phase):
                if phase == "before":
                    state["calls"] += 1
                if (when == phase or when == "both") and state["calls"] <= 2 and k + 1 < len(parts):
                    res["p%d" % (k + 1)].append(run_part(parts[k + 1], k + 1, hook_for(k + 1)))
            return hook
        res["p0"].append(run_part(parts[0], 0, hook_for(0)))
    elif c["mode"] == "failure":
        # the stream of part 0 fails (raises) at its fail_at-th call; the other parts are hashed afterwards
        state = {"calls": 0, "raised": False}

        def hook(phase):
            if phase == "before":
                state["calls"] += 1
                if state["calls"] - 1 == c["fail_at"]:
                    state["raised"] = True
                    raise Boom("injected read error")
        res["p0"].append(run_part(parts[0], 0, hook))
        for k in range(1, len(parts)):
            res["p%d" % k].append(run_part(parts[k], k, nohook))
        res["raised"] = state["raised"]
    elif c["mode"] == "threads":
        # one thread per part; a token is passed round-robin: a stream part hands over inside each read()/readinto()
        # (so the blocks of the computations strictly alternate), a non-stream part runs whole in one turn.  No sleeps;
        # every wait is bounded and a time-out is reported as Deadlock.
        n = len(parts)
        cv = threading.Condition()
        st = {"cur": 0, "live": [True] * n, "broken": False}
        WAIT = 10

        def advance(frm):
            for d in range(1, n + 1):
                j = (frm + d) % n
                if st["live"][j]:
                    st["cur"] = j
                    return
            st["cur"] = None

        def wait_turn(me):
            if not cv.wait_for(lambda: st["cur"] == me or st["broken"], WAIT) or st["broken"]:
                st["broken"] = True
                cv.notify_all()
                raise Deadlock()

        def worker(me):
            def hook(phase):
                if when == phase or when == "both":
                    with cv:
                        advance(me)
                        cv.notify_all()
                        wait_turn(me)
            try:
                with cv:
                    wait_turn(me)
                r = run_part(parts[me], me, hook)
            except Exception as e:
                r = {"error": exc_class(e)}
            finally:
                with cv:
                    st["live"][me] = False
                    if st["cur"] == me:
                        advance(me)
                    cv.notify_all()
            res["p%d" % me].append(r)
        ths = [threading.Thread(target=worker, args=(k,), daemon=True) for k in range(n)]
        for t in ths:
            t.start()
        deadline = time.monotonic() + 2 * WAIT + 5
        for k, t in enumerate(ths):
            t.join(max(0.0, deadline - time.monotonic()))
            if t.is_alive():
                with cv:
                    st["broken"] = True
                    cv.notify_all()
                res["p%d" % k].append({"error": "Other(Deadlock)"})
    else:
        raise ValueError(c["mode"])
    return res


# ---- stream state: from_file on a stream that is NOT at position 0 -------------------------------
class SubBytesIO(io.BytesIO):              # a user subclass of BytesIO (no override)
    pass


# which ways of reaching a position each stream class supports
STREAM_HOWS = {
    "bytesio": ["read", "seek", "seek_end", "seek_cur", "read1", "readline", "readinto", "write", "write_seek"],
    "bytesio_sub": ["read", "seek", "seek_end", "seek_cur", "read1", "readline", "readinto", "write", "write_seek"],
    "file": ["read", "seek", "seek_end", "seek_cur", "read1", "readline", "readinto", "write", "write_seek"],
    "file_unbuf": ["read", "seek", "seek_end", "readline", "readinto"],
    "buffered": ["read", "read1", "readline", "readinto"],          # io.BufferedReader over a raw stream, not seekable
    "raw": ["read", "readline", "readinto"],
    "read": ["read"],
    "both": ["read", "readinto"],
    "mmap": ["read", "seek", "seek_end", "readline"],
}


def remaining_of(c, data):
    """the bytes a plain fobj.read() would return once the stream of the case has been positioned: a pure function
    of the case (every positioning below is made deterministic)"""
    how, p = c["how"], c["p"]
    if how == "write":
        return b""
    if how == "readline":
        i = data.find(b"\n")
        return data[i + 1:] if i >= 0 else b""
    return data[p:]


def open_stream(c, data):
    """build the stream of the case and bring it to its position; returns (stream, closer)"""
    import mmap
    cls, how, p = c["cls"], c["how"], c["p"]
    closers = []
    written = how in ("write", "write_seek")           # opened empty, written, not rewound
    if cls in ("bytesio", "bytesio_sub"):
        K = io.BytesIO if cls == "bytesio" else SubBytesIO
        f = K() if written else K(data)
    elif cls in ("file", "file_unbuf", "mmap"):
        path = os.path.join(tmpdir(), "st")
        if written:
            f = open(path, "w+b")
        else:
            with open(path, "wb") as o:
                o.write(data)
            f = open(path, "rb", buffering=0) if cls == "file_unbuf" else open(path, "rb")
        closers.append(f.close)
        if cls == "mmap":
            f = mmap.mmap(f.fileno(), 0, access=mmap.ACCESS_READ)
            closers.insert(0, f.close)
    else:
        f = make_stream(cls, data, c.get("sched"), lambda phase: None)
    if written:
        f.write(data)
        if how == "write_seek":
            f.seek(p)
    elif how == "seek":
        f.seek(p)
    elif how == "seek_end":
        f.seek(p - len(data), 2)
    elif how == "seek_cur":
        f.seek(0)
        f.seek(p, 1)
    elif how == "readline":
        f.readline()
    elif how in ("read", "read1", "readinto"):
        got = 0
        while got < p:                                 # loop: short reads are legal, the position reached is exactly min(p, len)
            if how == "readinto":
                k = f.readinto(bytearray(p - got))
            else:
                k = len(getattr(f, how)(p - got))
            if not k:
                break
            got += k

    def close():
        for cl in closers:
            try:
                cl()
            except Exception:
                pass
    return f, close


def stream_declared(c, rem, data):
    d = c.get("length", "real")
    return len(rem) if d == "real" else len(data) if d == "whole" else d


def impl_stream(c):
    from swh.model import hashutil
    data = data_of(c["data"])
    rem = remaining_of(c, data)
    names = part_names(c)
    f, close = open_stream(c, data)
    try:
        r = guard(lambda: mh_res(hashutil.MultiHash.from_file(f, hash_names=names, length=stream_declared(c, rem, data)).digest()))
        try:
            r["rest_after"] = len(f.read())            # what is left in the stream after the call
        except Exception as e:
            r["rest_after"] = exc_class(e)
    finally:
        close()
    return {"ff": r}


# ---- rehash: the same path hashed again after its bytes were replaced ----------------------------
def rehash_steps(c):
    """[(file, content index, via-link?)] for every hashing of the case, in order: a pure function of the case"""
    if c["shape"] == "mirror":
        steps = []
        for r in range(c["rounds"]):
            swapped = c.get("swap") and r >= 1
            steps += [("f", 1 if swapped else 0, False), ("g", 0 if swapped else 1, False)]
        return steps
    via = c.get("via", "real")
    return [("f", k, via in ("hardlink", "symlink") or via.startswith("alt-") and k % 2 == 1) for k in range(len(c["contents"]))]


def replace_file(path, data, mode):
    """replace the bytes of the file at path.  mode = <letter>[:<open mode>]
       a  in place (same inode), atime/mtime restored to the exact previous values     (same length expected)
       b  in place, times not restored
       c  in place, times restored                                                     (another length expected)
       d  a new file (new inode) renamed over the path, the old times copied onto it"""
    letter, _, om = mode.partition(":")
    st = os.stat(path)
    if letter == "d":
        tmp = path + ".new"
        with open(tmp, "wb") as f:
            f.write(data)
        os.utime(tmp, ns=(st.st_atime_ns, st.st_mtime_ns))
        os.replace(tmp, path)
        return
    with open(path, om or "r+b") as f:
        f.write(data)
        f.truncate()
    if letter in ("a", "c"):
        os.utime(path, ns=(st.st_atime_ns, st.st_mtime_ns))


def hash_path_routes(P, parent, name, order, single):
    """every path-taking entry point on the path P (bytes of the file NOW)"""
    from click.testing import CliRunner
    from swh.model import from_disk, hashutil
    from swh.model.cli import identify
    res = {}
    for code in order:
        if code == "fp":
            names = list(hashutil.DEFAULT_ALGORITHMS) + ["length"]
            res[code] = guard(lambda: mh_res(hashutil.MultiHash.from_path(P, hash_names=names).digest()))
        elif code == "df":
            def df():
                o = from_disk.Content.from_file(path=P.encode())
                r = content_res(lambda k: o.data[k], o.data["length"], {"absent": "01" if o.data["status"] == "absent" else "00"})
                r["hash"] = o.hash.hex()
                return r
            res[code] = guard(df)
        elif code == "dd":
            def dd():
                o = from_disk.Directory.from_disk(path=parent.encode())[name.encode()]
                r = content_res(lambda k: o.data[k], o.data["length"], {"absent": "01" if o.data["status"] == "absent" else "00"})
                r["hash"] = o.hash.hex()
                return r
            res[code] = guard(dd)
        elif code == "tm":
            def tm():
                o = from_disk.Content.from_file(path=P.encode()).to_model().with_data()
                r = content_res(lambda k: getattr(o, k), o.length, {"absent": "00"})
                r["data_sha256"] = hashlib.sha256(o.data).hexdigest()
                return r
            res[code] = guard(tm)
        elif code == "id" and single:
            def it():
                cs, sk, ds = from_disk.iter_directory(from_disk.Directory.from_disk(path=parent.encode()))
                if len(cs) != 1 or sk:
                    return {"error": "Other(%d contents, %d skipped)" % (len(cs), len(sk))}
                o = cs[0]
                r = content_res(lambda k: getattr(o, k), o.length, {"absent": "00"})
                r["data_sha256"] = hashlib.sha256(o.data).hexdigest()
                return r
            res[code] = guard(it)
        elif code == "cf":
            def cf():
                r = CliRunner().invoke(identify, ["--no-filename", P])
                if r.exit_code != 0:
                    return {"error": exc_class(r.exception) if r.exception else "Exit(%d)" % r.exit_code}
                return {"length": None, "d": {"swhid": r.output.rstrip("\n").encode().hex()}}
            res[code] = guard(cf)
        elif code == "sp":
            def sp():
                p = subprocess.run([sys.executable, "-m", "swh.model.cli", "--no-filename", P], capture_output=True, timeout=50,
                                   env=dict(os.environ, PYTHONPATH=os.environ.get("VERIF_REPO", "/repo")))
                if p.returncode != 0:
                    return {"error": "Exit(%d)" % p.returncode}
                return {"length": None, "d": {"swhid": p.stdout.rstrip(b"\n").hex()}}
            res[code] = guard(sp)
    return res


def impl_rehash(c):
    base = tempfile.mkdtemp(prefix="rh", dir=tmpdir())
    try:
        real, via = os.path.join(base, "real"), os.path.join(base, "via")
        os.mkdir(real)
        os.mkdir(via)
        contents = [data_of(sp) for sp in c["contents"]]
        steps = rehash_steps(c)
        out = []
        pf, pg, pl = os.path.join(real, "f"), os.path.join(real, "g"), os.path.join(via, "l")
        if c["shape"] == "mirror":
            # two paths with the same stat shape (size, atime, mtime), different bytes, hashed alternately
            for pth, d in ((pf, contents[0]), (pg, contents[1])):
                with open(pth, "wb") as f:
                    f.write(d)
            st = os.stat(pf)
            os.utime(pg, ns=(st.st_atime_ns, st.st_mtime_ns))
            for k, (fname, idx, _) in enumerate(steps):
                if c.get("swap") and k == 2:           # swap the bytes of the two files in place, times restored
                    replace_file(pf, contents[1], "a:r+b")
                    replace_file(pg, contents[0], "a:r+b")
                out.append(hash_path_routes(pf if fname == "f" else pg, real, fname, c["orders"][k], False))
        else:
            with open(pf, "wb") as f:
                f.write(contents[0])
            kind = c.get("via", "real").replace("alt-", "")
            if kind == "hardlink":
                os.link(pf, pl)
            elif kind == "symlink":
                os.symlink(pf, pl)
            for k, (fname, idx, linked) in enumerate(steps):
                if k > 0:
                    replace_file(pf, contents[idx], c["modes"][k - 1])
                if linked:
                    out.append(hash_path_routes(pl, via, "l", c["orders"][k], True))
                else:
                    out.append(hash_path_routes(pf, real, "f", c["orders"][k], True))
        return {"steps": out}
    finally:
        shutil.rmtree(base, True)


# ---- argument shapes ---------------------------------------------------------------------------
class StrSub(str):
    pass


class BytesSub(bytes):
    pass


class IntSub(int):
    pass


class Boom(OSError):
    """the error injected into a stream"""


def as_dtype(b, dtype):
    return {"bytearray": bytearray, "memoryview": memoryview, "sub": BytesSub}.get(dtype, bytes)(b)


def names_container(names, ncont, sname):
    """a FRESH container of the requested type for one call (generators and iterators are one-shot)"""
    ns = [StrSub(a) for a in names] if sname else list(names)
    if ncont == "set":
        return set(ns)
    if ncont == "frozenset":
        return frozenset(ns)
    if ncont == "tuple":
        return tuple(ns)
    if ncont == "dict":
        return {a: k for k, a in enumerate(ns)}
    if ncont == "keys":
        return {a: k for k, a in enumerate(ns)}.keys()
    if ncont == "gen":
        return (a for a in ns)
    if ncont == "iter":
        return iter(ns)
    return ns


class TypedReader:
    """read() returns bytes-like objects of another type than bytes"""

    def __init__(self, data, rtype):
        self.f, self.rtype = io.BytesIO(data), rtype

    def read(self, n=-1):
        return as_dtype(self.f.read(n), self.rtype)


def shape_paths(c, data):
    """the file of the case reached through the path type of the case; returns (path for from_path, cleanup)"""
    import pathlib
    d = tempfile.mkdtemp(prefix="sh", dir=tmpdir())
    pt = c.get("ptype", "str")
    name = b"f\xff\xfe .bin" if pt == "nonutf8" else b"f"
    full = os.path.join(d.encode(), name)
    with open(full, "wb") as f:
        f.write(data)
    old = os.getcwd()
    if pt == "bytes" or pt == "nonutf8":
        P = full
    elif pt == "path":
        P = pathlib.Path(os.fsdecode(full))
    elif pt == "rel":
        os.chdir(d)
        P = "f"
    elif pt == "reldot":
        os.chdir(d)
        P = b"./f"
    elif pt == "dotdot":
        os.mkdir(os.path.join(d, "sub"))
        P = os.path.join(d, "sub", "..", "f")
    elif pt == "dirlink":                       # through a symbolic link to the directory
        os.symlink(d, d + "-l")
        P = os.path.join(d + "-l", "f")
    else:
        P = os.fsdecode(full)

    def cleanup():
        os.chdir(old)
        shutil.rmtree(d, True)
        if os.path.lexists(d + "-l"):
            os.unlink(d + "-l")
    return P, cleanup


def shape_names(c):
    from swh.model import hashutil
    return sorted(hashutil.DEFAULT_ALGORITHMS) if c.get("names") is None else list(c["names"])


def impl_shape(c):
    import datetime
    from swh.model import cli, from_disk, hashutil, model
    MH = hashutil.MultiHash
    data = data_of(c["data"])
    n = len(data)
    default = c.get("names") is None                   # hash_names left at its default: the argument is not passed at all
    names = shape_names(c)
    ncont, sname, dtype = c.get("ncont", "list"), c.get("sname", False), c.get("dtype", "bytes")
    L = {"bool": bool, "intsub": IntSub}.get(c.get("ltype"), int)(n)
    res, mutated = {}, []

    def kw():
        if default:
            return {}
        cont = names_container(names, ncont, sname)
        if ncont not in ("gen", "iter"):
            conts.append((cont, list(cont) if ncont != "keys" else list(cont)))
        return {"hash_names": cont}
    conts = []
    P, cleanup = shape_paths(c, data)
    try:
        res["fd"] = guard(lambda: mh_res(MH.from_data(as_dtype(data, dtype), **kw()).digest()))
        res["ff"] = guard(lambda: mh_res(MH.from_file(TypedReader(data, c.get("rtype", "bytes")), length=L, **kw()).digest()))
        res["fp"] = guard(lambda: mh_res(MH.from_path(P, **kw()).digest()))

        def chunked():
            h = MH(length=L, **kw())
            for ch in chunks_of(data, c["cuts"]):
                h.update(as_dtype(ch, dtype))
            return mh_res(h.digest())
        res["ch"] = guard(chunked)
        for cont, before in conts:
            if list(cont) != before:
                mutated.append(type(cont).__name__)
        res["hg"] = guard(lambda: {"length": None, "d": {"sha1_git": hashutil.hash_git_data(as_dtype(data, dtype), "blob").hex()}})

        def db():
            o = from_disk.Content.from_bytes(mode=c.get("mode", 0o100644), data=as_dtype(data, dtype))
            r = content_res(lambda k: o.data[k], o.data["length"])
            r["hash"] = o.hash.hex()
            return r
        res["db"] = guard(db)

        def df():
            o = from_disk.Content.from_file(path=P)
            r = content_res(lambda k: o.data[k], o.data["length"], {"absent": "01" if o.data["status"] == "absent" else "00"})
            r["hash"] = o.hash.hex()
            return r
        res["df"] = guard(df)
        res["cf"] = guard(lambda: {"length": None, "d": {"swhid": str(cli.swhid_of_file(P)).encode().hex()}})
        res["cs"] = guard(lambda: {"length": None, "d": {"swhid": str(cli.swhid_of_file_content(as_dtype(data, dtype))).encode().hex()}})
        if dtype in ("bytes", "sub"):                  # model.Content only takes bytes (validated)
            def mc():
                o = model.Content.from_data(as_dtype(data, dtype), status="hidden",
                                            ctime=datetime.datetime(2020, 1, 2, 3, 4, 5, tzinfo=datetime.timezone.utc))
                r = content_res(lambda k: getattr(o, k), o.length)
                bad = [k for k in ("sha1", "sha1_git", "sha256", "blake2s256") if o.get_hash(k) != getattr(o, k) or o.to_dict()[k] != getattr(o, k)]
                if o.unique_key() != o.sha1 or str(o.swhid()) != "swh:1:cnt:" + o.sha1_git.hex() or o.to_dict()["length"] != o.length:
                    bad.append("unique_key/swhid/to_dict")
                r["extras_bad"] = bad
                r["hashes"] = [{k: v.hex() for k, v in o.hashes().items()}]
                return r
            res["mc"] = guard(mc)

        def ms():
            o = model.SkippedContent.from_data(as_dtype(data, dtype), reason="too big", ctime=None)
            r = content_res(lambda k: getattr(o, k), o.length)
            r["hashes"] = [{k: v.hex() for k, v in o.hashes().items()}, {k: v.hex() for k, v in o.unique_key().items()}]
            return r
        res["ms"] = guard(ms)
    finally:
        cleanup()
    if mutated:
        res["names_mutated"] = mutated
    return res


HGD_TYPES = ["blob", "tree", "commit", "tag", "snapshot", "raw_extrinsic_metadata", "extid"]


def impl_hgd(c):
    from swh.model import hashutil
    data = as_dtype(data_of(c["data"]), c.get("dtype", "bytes"))
    if c.get("base") is None:
        return {"hg": guard(lambda: {"length": None, "d": {"sha1_git": hashutil.hash_git_data(data, c["type"]).hex()}})}
    return {"hg": guard(lambda: {"length": None, "d": {"sha1_git": hashutil.hash_git_data(data, c["type"], c["base"]).hex()}})}


# ---- seq: near-identical contents one after another (memos keyed on length / prefix / object identity) ----
def seq_content(c, idx):
    base = bytearray(data_of(c["base"]))
    if idx > 0:
        p = c["pos"][idx - 1] % len(base)
        base[p] ^= idx
    return bytes(base)


def impl_seq(c):
    from swh.model import cli, from_disk, hashutil, model
    MH = hashutil.MultiHash
    names = list(hashutil.DEFAULT_ALGORITHMS) + ["length"]
    shared = io.BytesIO()                              # ONE stream object re-filled for every visit when c["reuse"]
    out = []
    for idx, routes in c["visits"]:
        data = seq_content(c, idx)                     # a fresh object every time; the previous one is garbage by now
        n = len(data)
        res = {}
        for code in routes:
            if code == "fd":
                res[code] = guard(lambda: mh_res(MH.from_data(data, hash_names=names).digest()))
            elif code == "ff":
                if c.get("reuse"):
                    shared.seek(0)
                    shared.truncate(0)
                    shared.write(data)
                    shared.seek(0)
                    f = shared
                else:
                    f = io.BytesIO(data)
                res[code] = guard(lambda: mh_res(MH.from_file(f, hash_names=names, length=n).digest()))
            elif code == "ch":
                def chunked():
                    h = MH(hash_names=names, length=n)
                    h.update(data[:n // 2])
                    h.update(data[n // 2:])
                    return mh_res(h.digest())
                res[code] = guard(chunked)
            elif code == "hg":
                res[code] = guard(lambda: {"length": None, "d": {"sha1_git": hashutil.hash_git_data(data, "blob").hex()}})
            elif code == "mc":
                def mc():
                    o = model.Content.from_data(data)
                    return content_res(lambda k: getattr(o, k), o.length)
                res[code] = guard(mc)
            elif code == "ms":
                def ms():
                    o = model.SkippedContent.from_data(data, reason="r")
                    return content_res(lambda k: getattr(o, k), o.length)
                res[code] = guard(ms)
            elif code == "db":
                def db():
                    o = from_disk.Content.from_bytes(mode=0o100644, data=data)
                    return content_res(lambda k: o.data[k], o.data["length"])
                res[code] = guard(db)
            elif code == "cs":
                res[code] = guard(lambda: {"length": None, "d": {"swhid": str(cli.swhid_of_file_content(data)).encode().hex()}})
        del data
        out.append(res)
    return {"visits": out}


# ---- handout: the caller keeps using a hasher a classmethod handed out, then the same input is hashed again ----
_SALT = [1 << 20]


def handout_x(c):
    """the byte string x of a handout case: its data with the case's salt xor-ed into the first bytes, so that two cases (and two
    shrinking candidates) evaluated in one process never share x - a memo polluted by one cannot decide the verdict of another,
    and a reported case fails on its own in a fresh process"""
    d = data_of(c["x"])
    salt = c.get("salt", 0)
    if not salt or not d:
        return d
    m = min(4, len(d))
    sb = (salt % (256 ** m)).to_bytes(m, "big")
    return bytes(a ^ b for a, b in zip(d[:m], sb)) + d[m:]


def fresh_salt():
    _SALT[0] += 1
    return _SALT[0]


def handout_variant(c, what, x):
    """the byte string of an `again` step: the very object x, an equal but distinct object, a prefix, the extension the caller
    streamed, the extension alone"""
    ys = b"".join(bytes.fromhex(h) for h in c["ys"])
    if what == "same":
        return x
    if what == "equal":
        return bytes(bytearray(x))
    if what.startswith("prefix"):
        return x[:max(0, len(x) - int(what[6:] or 1))]
    if what == "ext":
        return x + ys
    if what == "y":
        return ys
    raise ValueError(what)


def run_mem_route(route, v, tag):
    """one entry point on the byte string v; a trailing 0 = hash_names left at its default"""
    from swh.model import cli, from_disk, hashutil, model
    MH = hashutil.MultiHash
    default = route.endswith("0")
    code = route.rstrip("0")
    kw = {} if default else {"hash_names": list(hashutil.DEFAULT_ALGORITHMS) + ["length"]}
    n = len(v)
    if code == "fd":
        return guard(lambda: mh_res(MH.from_data(v, **kw).digest()))
    if code == "ff":
        return guard(lambda: mh_res(MH.from_file(io.BytesIO(v), length=n, **kw).digest()))
    if code in ("fp", "df", "cf"):
        path = write_tmp(v, "ho-" + tag)
        if code == "fp":
            return guard(lambda: mh_res(MH.from_path(path, **kw).digest()))
        if code == "cf":
            return guard(lambda: {"length": None, "d": {"swhid": str(cli.swhid_of_file(path.encode())).encode().hex()}})

        def df():
            o = from_disk.Content.from_file(path=path.encode())
            return content_res(lambda k: o.data[k], o.data["length"], {"absent": "00" if o.data["status"] == "visible" else "01"})
        return guard(df)
    if code == "ch":
        def chunked():
            h = MH(length=n, **kw)
            h.update(v[:n // 2])
            h.update(v[n // 2:])
            return mh_res(h.digest())
        return guard(chunked)
    if code == "hg":
        return guard(lambda: {"length": None, "d": {"sha1_git": hashutil.hash_git_data(v, "blob").hex()}})
    if code == "mc":
        def mc():
            o = model.Content.from_data(v)
            return content_res(lambda k: getattr(o, k), o.length)
        return guard(mc)
    if code == "ms":
        def ms():
            o = model.SkippedContent.from_data(v, reason="r")
            return content_res(lambda k: getattr(o, k), o.length)
        return guard(ms)
    if code == "db":
        def db():
            o = from_disk.Content.from_bytes(mode=0o100644, data=v)
            return content_res(lambda k: o.data[k], o.data["length"])
        return guard(db)
    if code == "dl":
        def dl():
            lp = os.path.join(tmpdir(), "ho-lnk-" + tag)
            if os.path.lexists(lp):
                os.unlink(lp)
            os.symlink(v, lp.encode())
            o = from_disk.Content.from_file(path=lp.encode())
            return content_res(lambda k: o.data[k], o.data["length"])
        return guard(dl)
    if code == "cs":
        return guard(lambda: {"length": None, "d": {"swhid": str(cli.swhid_of_file_content(v)).encode().hex()}})
    raise ValueError(route)


def handout_names(c):
    from swh.model import hashutil
    return sorted(hashutil.DEFAULT_ALGORITHMS) if c.get("hnames") is None else list(c["hnames"])


def impl_handout(c):
    """In process; but a case that FAILS in process is decided again in a fresh interpreter: state left in this process by
    earlier cases (a polluted memo) must not make a case fail that passes on its own - the case that pollutes fails on its own
    too and is the one reported, so the replay is self-contained."""
    res = impl_handout_here(c)
    if os.environ.get("C01_HANDOUT_CHILD"):
        return res
    try:
        failing = oracle_handout(c, res) is not None
    except Exception:
        failing = True
    if not failing:
        return res
    try:
        import json
        from . import core
        code = ("import sys, json; sys.path.insert(0, %r); sys.path.insert(0, %r); from harness import c01; "
                "print(json.dumps(c01.impl_handout_here(json.load(sys.stdin))))" % (core.VERIF, core.REPO))
        p = subprocess.run([sys.executable, "-c", code], input=json.dumps(c).encode(), capture_output=True, timeout=50,
                           env=dict(os.environ, C01_HANDOUT_CHILD="1"))
        return json.loads(p.stdout.decode().strip().splitlines()[-1])
    except Exception:
        return res


def impl_handout_here(c):
    from swh.model import hashutil
    MH = hashutil.MultiHash
    x = handout_x(c)
    ys = [bytes.fromhex(h) for h in c["ys"]]
    kw = {} if c.get("hnames") is None else {"hash_names": list(c["hnames"])}
    res = {"pre": [], "events": [], "again": [], "origin": None}
    for k, route in enumerate(c.get("pre", [])):
        res["pre"].append(run_mem_route(route, x, "pre%d" % k))
    origin = None
    try:
        mk = c["maker"]
        if mk == "from_data":
            h = MH.from_data(x, **kw)
        elif mk == "from_file":
            h = MH.from_file(io.BytesIO(x), length=len(x), **kw)
        elif mk == "from_path":
            h = MH.from_path(write_tmp(x, "ho-maker"), **kw)
        elif mk in ("copy", "from_state"):
            origin = MH(length=len(x), **kw)
            origin.update(x)
            if mk == "copy":
                h = origin.copy()
            else:
                h = MH.from_state({a: (o.copy() if a != "length" else o) for a, o in origin.state.items()}, origin.track_length)
        else:                                          # "fresh": the other side - a fresh hasher streams x then the extension
            h = MH(length=c["declared"], **kw)
            h.update(x)
        for op in c["after"]:                          # the caller goes on using the object it was handed
            if op[0] == "u":
                h.update(ys[op[1]])
            else:
                res["events"].append(mh_res_form(call_form(h, op[1]), op[1]))
        if origin is not None:
            res["origin"] = mh_res(origin.digest())    # the hasher the copy was taken from has only seen x
    except Exception as e:
        res["events"].append({"error": exc_class(e)})
    for k, (what, route) in enumerate(c["again"]):
        res["again"].append(run_mem_route(route, handout_variant(c, what, x), "ag%d" % k))
    return res


def handout_streams(c):
    """the bytes the handed-out object has consumed at each of its digest events"""
    x = handout_x(c)
    ys = [bytes.fromhex(h) for h in c["ys"]]
    cur, out = [x], []
    for op in c["after"]:
        if op[0] == "u":
            cur.append(ys[op[1]])
        else:
            out.append(list(cur))
    return out


def module_constants():
    from swh.model import hashutil
    return (sorted(hashutil.ALGORITHMS), sorted(hashutil.DEFAULT_ALGORITHMS), hashutil.HASH_BLOCK_SIZE)


def impl(c):
    before = module_constants()
    res = impl_kind(c)
    after = module_constants()
    if after != before and isinstance(res, dict):
        res["globals_changed"] = "%s -> %s" % (before, after)
    return res


def impl_kind(c):
    if c["kind"] == "script":
        return impl_script(c)
    if c["kind"] == "shape":
        return impl_shape(c)
    if c["kind"] == "hgd":
        return impl_hgd(c)
    if c["kind"] == "seq":
        return impl_seq(c)
    if c["kind"] == "handout":
        return impl_handout(c)
    if c["kind"] == "overlap":
        return impl_overlap(c)
    if c["kind"] == "stream":
        return impl_stream(c)
    if c["kind"] == "rehash":
        return impl_rehash(c)
    return impl_routes(c)


# ------------------------------------------------------------------ model side
def enc_names(names):
    return ",".join(hx(n.encode()) for n in names) if names else "~"


def enc_len(v):
    return "-" if v is None else str(v)


ALL_ROUTES = ["fd", "ff", "fp", "ch", "hg", "cg", "mc", "ms", "db", "df", "cf", "cs"]


def requests(c):
    if c.get("nomodel"):
        return []                 # too large for the extracted model: implementation + property oracle only
    if c["kind"] == "script":
        ops = []
        for op in c["ops"]:
            if op[0] == "n":
                ops.append("n:%s:%s" % (enc_names(op[1]), enc_len(op[2])))
            elif op[0] == "u":
                ops.append("u:%d:%s" % (op[1], hx(bytes.fromhex(op[2]))))
            elif op[0] == "m":
                continue                  # digests are a pure function of the bytes fed: edits of returned dicts do not exist in the model
            else:
                ops.append("%s:%d" % (op[0], op[1]))
        return ["script sym new " + ("/".join(ops) if ops else "~")]
    if c["kind"] == "shape":
        data = data_of(c["data"])
        chunks = chunks_of(data, c["cuts"])
        routes = "fd,ff,fp,ch,hg,db,df,cf,cs,ms" + (",mc" if c.get("dtype", "bytes") in ("bytes", "sub") else "")
        return ["run sym %s %s %d %s ~ -" % (routes, enc_names(shape_names(c)), len(data),
                                              "|".join(hx(ch) for ch in chunks) if chunks else "~")]
    if c["kind"] == "hgd":
        return ["hgd sym %s %s %s" % (hx(c["type"].encode()), hx((c.get("base") or "sha1").encode()), hx(data_of(c["data"])))]
    if c["kind"] == "handout":
        # the model is unchanged: the handed-out object is a hasher that has consumed x, then what the caller fed it (a chunked
        # run with the declared length it was created with); every other hashing is a plain run on the bytes it was given
        from swh.model.hashutil import DEFAULT_ALGORITHMS
        x = handout_x(c)
        declared = c["declared"] if c["maker"] == "fresh" else len(x)
        reqs = ["run sym ch %s %d %s ~ -" % (enc_names(handout_names(c)), declared, "|".join(hx(p) for p in parts))
                for parts in handout_streams(c)]
        if c["maker"] in ("copy", "from_state"):
            reqs.append("run sym ch %s %d %s ~ -" % (enc_names(handout_names(c)), len(x), hx(x)))
        for route, v in [(r, x) for r in c.get("pre", [])] + [(r, handout_variant(c, w, x)) for w, r in c["again"]]:
            names = sorted(DEFAULT_ALGORITHMS) if route.endswith("0") else ["length"] + sorted(DEFAULT_ALGORITHMS)
            reqs.append("run sym %s %s %d %s ~ -" % (route.rstrip("0"), enc_names(names), len(v), hx(v) if v else "~"))
        return reqs
    if c["kind"] == "seq":
        from swh.model.hashutil import DEFAULT_ALGORITHMS
        names = enc_names(["length"] + sorted(DEFAULT_ALGORITHMS))
        reqs = []
        for idx, routes in c["visits"]:
            d = seq_content(c, idx)
            n = len(d)
            reqs.append("run sym %s %s %d %s ~ -" % (",".join(routes), names, n, "|".join(hx(x) for x in (d[:n // 2], d[n // 2:]))))
        return reqs
    if c["kind"] == "rehash":
        # the model is a pure function of the bytes read: one plain run per hashing, on the bytes the file holds at that moment
        from swh.model.hashutil import DEFAULT_ALGORITHMS
        names = enc_names(["length"] + sorted(DEFAULT_ALGORITHMS))
        reqs = []
        for fname, idx, linked in rehash_steps(c):
            d = data_of(c["contents"][idx])
            reqs.append("run sym fp,df,cf %s %d %s ~ -" % (names, len(d), hx(d) if d else "~"))
        return reqs
    if c["kind"] == "stream":
        # the model hashes the byte string it is given: here the bytes that REMAIN in the stream
        data = data_of(c["data"])
        rem = remaining_of(c, data)
        names = c.get("names")
        if names is None:
            from swh.model.hashutil import DEFAULT_ALGORITHMS
            names = ["length"] + sorted(DEFAULT_ALGORITHMS)
        return ["run sym ff %s %s %s ~ -" % (enc_names(names), enc_len(stream_declared(c, rem, data)), hx(rem) if rem else "~")]
    if c["kind"] == "overlap":
        # the model is a pure function of each part's bytes: one plain run per part is the reference for every
        # (outer, inner, concurrent) execution of that part
        reqs = []
        for p in c["parts"]:
            data = data_of(p["data"])
            names = p.get("names")
            if names is None:
                from swh.model.hashutil import DEFAULT_ALGORITHMS
                names = ["length"] + sorted(DEFAULT_ALGORITHMS)
            chunks = chunks_of(data, p.get("cuts", [])) if p["route"] == "ch" else ([data] if data else [])
            ctok = "|".join(hx(ch) for ch in chunks) if chunks else "~"
            sched = ",".join(map(str, p["sched"])) if p.get("sched") and p["route"] == "ff" else "~"
            reqs.append("run sym %s %s %d %s %s -" % (p["route"], enc_names(names), len(data), ctok, sched))
        return reqs
    data = data_of(c["data"])
    names = c.get("names")
    if names is None:
        from swh.model.hashutil import DEFAULT_ALGORITHMS
        names = ["length"] + sorted(DEFAULT_ALGORITHMS)
    declared = len(data) if c.get("length", "real") == "real" else c["length"]
    chunks = chunks_of(data, c["cuts"])
    ctok = "|".join(hx(ch) for ch in chunks) if chunks else "~"
    if c["kind"] == "names":
        routes = ["fd", "ff", "fp", "ch"]
    else:
        routes = list(ALL_ROUTES) + (["dl"] if c.get("symlink") else []) + (["do"] if c.get("fifo") else [])
    tail = "%s %s %s" % (enc_names(names), enc_len(declared), ctok)
    reqs = ["run sym %s %s ~ %s" % (",".join(routes), tail, enc_len(c.get("maxlen")))]
    if c.get("sched"):
        reqs.append("run sym ff %s %s -" % (tail, ",".join(map(str, c["sched"]))))
    if c.get("exec"):
        reqs.append("run exec %s %s ~ -" % (",".join(c["exec"]), tail))
    return reqs


def parse_dict(s):
    """<len|->:k=v,k=v  ->  (length, {key(str): view(str)})"""
    ln, _, rest = s.partition(":")
    vals = {}
    if rest:
        for kv in rest.split(","):
            k, _, v = kv.partition("=")
            vals[unhx(k).decode("latin-1")] = v
    return (None if ln == "-" else int(ln)), vals


ERR_MAP = {"MissingData": "Other(MissingData)"}


def parse_run(line):
    if not line.startswith("ok "):
        return {"model_failure": line}
    res = {}
    for part in line[3:].split(";"):
        code, _, r = part.partition("=")
        if r.startswith("E:"):
            res[code] = {"error": ERR_MAP.get(r[2:], r[2:])}
        else:
            ln, vals = parse_dict(r[2:])
            res[code] = {"length": ln, "v": vals}
    return res


def model(c, resp):
    if c.get("nomodel"):
        return {"nomodel": True}
    if c["kind"] == "script":
        line = resp[0]
        if not line.startswith("ok"):
            return {"model_failure": line}
        evs = []
        for e in (line[3:].split(";") if len(line) > 3 else []):
            if e == "done":
                evs.append("done")
            elif e.startswith("E:"):
                evs.append({"error": e[2:]})
            else:
                ln, vals = parse_dict(e[2:])
                evs.append({"length": ln, "v": vals})
        return {"events": evs}
    if c["kind"] == "overlap":
        return {"parts": [parse_run(r) for r in resp]}
    if c["kind"] == "stream":
        return {"sym": parse_run(resp[0])}
    if c["kind"] == "rehash":
        return {"steps": [parse_run(r) for r in resp]}
    if c["kind"] in ("shape", "hgd"):
        return {"sym": parse_run(resp[0])}
    if c["kind"] == "seq":
        return {"visits": [parse_run(r) for r in resp]}
    if c["kind"] == "handout":
        return {"runs": [parse_run(r) for r in resp]}
    out = {"sym": parse_run(resp[0])}
    k = 1
    if c.get("sched"):
        out["short"] = parse_run(resp[k])
        k += 1
    if c.get("exec"):
        out["exec"] = parse_run(resp[k])
    return out


# ------------------------------------------------------------------ comparison model <-> implementation
def view_bytes(v, data):
    return unhx(v[:-1]) + data if v.endswith("+") else unhx(v)


def sym_digest(val):
    """a value produced under Hsym:  algo ":" fed  ->  (algo, hashlib digest of fed)"""
    algo, sep, fed = val.partition(b":")
    if not sep:
        raise ValueError("not a symbolic digest")
    return algo.decode(), HL(algo.decode(), fed)


def expected_of_model(key, v, data):
    """the implementation-level observable the model's value stands for (hex string)"""
    val = view_bytes(v, data)
    if key == "manifest":
        return hashlib.sha256(val).hexdigest()
    if key == "absent":
        return val.hex()
    if key == "swhid":
        pre = b"swh:1:cnt:"
        if not val.startswith(pre):
            raise ValueError("swhid prefix")
        return (pre + sym_digest(bytes.fromhex(val[len(pre):].decode()))[1].hex().encode()).hex()
    return sym_digest(val)[1].hex()


def cmp_route(code, m, i, data, mode="sym"):
    if "error" in m or "error" in i:
        if m.get("error") != i.get("error"):
            return "route %s: model %s, implementation %s" % (code, m.get("error", "returns"), i.get("error", "returns"))
        return None
    if mode == "exec":
        for key in ("sha1", "sha1_git", "swhid"):
            if key in m["v"]:
                got = view_bytes(m["v"][key], data).hex()
                if got != i["d"].get(key):
                    return "route %s, end to end with the Gallina SHA-1: %s model %s implementation %s" % (
                        code, key, got[:60], str(i["d"].get(key))[:60])
        return None
    if sorted(m["v"]) != sorted(i["d"]):
        return "route %s: keys differ: model %s implementation %s" % (code, sorted(m["v"]), sorted(i["d"]))
    if m["length"] != i["length"]:
        return "route %s: length: model %s implementation %s" % (code, m["length"], i["length"])
    for key, v in m["v"].items():
        try:
            exp = expected_of_model(key, v, data)
        except Exception as e:
            return "route %s: cannot interpret the model's %s: %r" % (code, key, e)
        if exp != i["d"][key]:
            return "route %s: %s: model (hashlib applied to what the model fed) %s, implementation %s" % (
                code, key, exp[:60], i["d"][key][:60])
    return None


REHASH_TO_MODEL = {"fp": "fp", "df": "df", "dd": "df", "tm": "df", "id": "df", "cf": "cf", "sp": "cf"}
IMPL_TO_MODEL = {"ffr": "ff", "sp": "cf", "fpl": "fp", "dls": "dl", "do2": "do", "do3": "do"}


def compare(c, ires, mres):
    if mres.get("nomodel"):
        return None
    if "model_failure" in mres:
        return "model failed: " + mres["model_failure"][:200]
    if c["kind"] == "script":
        ie, me = ires["events"], mres["events"]
        ie = [ev for ev, op in zip(ie, c["ops"]) if op[0] != "m"]
        if len(ie) != len(me):
            return "script: %d events in the implementation, %d in the model (%s / %s)" % (len(ie), len(me), ie[-1:], me[-1:])
        for k, (a, b) in enumerate(zip(ie, me)):
            if a == "done" or b == "done":
                if a != b:
                    return "script step %d: implementation %s, model %s" % (k, a, b)
                continue
            why = cmp_route("step %d" % k, b, a, b"")
            if why:
                return why
        return None
    if c["kind"] in ("shape", "hgd"):
        m = mres["sym"]
        if "model_failure" in m:
            return "model failed: " + m["model_failure"][:200]
        data = data_of(c["data"])
        for code, i in ires.items():
            if isinstance(i, dict) and ("d" in i or "error" in i):
                why = cmp_route(code, m[code], i, data)
                if why:
                    return why
        return None
    if c["kind"] == "handout":
        x = handout_x(c)
        runs = list(mres["runs"])
        for m in runs:
            if "model_failure" in m:
                return "model failed: " + m["model_failure"][:200]
        streams = handout_streams(c)
        if len(ires["events"]) != len(streams):
            return "the handed-out hasher produced %d digest events, %d expected (%s)" % (len(ires["events"]), len(streams), ires["events"][-1:])
        for k, (parts, ev) in enumerate(zip(streams, ires["events"])):
            why = cmp_route("digest %d of the hasher handed out by %s" % (k, c["maker"]), runs.pop(0)["ch"], ev, b"".join(parts))
            if why:
                return why
        if c["maker"] in ("copy", "from_state"):
            why = cmp_route("the hasher the copy was taken from", runs.pop(0)["ch"], ires["origin"], x)
            if why:
                return why
        items = [(r, x, i) for r, i in zip(c.get("pre", []), ires["pre"])] + \
                [(r, handout_variant(c, w, x), i) for (w, r), i in zip(c["again"], ires["again"])]
        for route, v, i in items:
            why = cmp_route(route, runs.pop(0)[route.rstrip("0")], i, v)
            if why:
                return why
        return None
    if c["kind"] == "seq":
        for k, ((idx, routes), m, i) in enumerate(zip(c["visits"], mres["visits"], ires["visits"])):
            if "model_failure" in m:
                return "model failed: " + m["model_failure"][:200]
            for code, r in i.items():
                why = cmp_route("%s at visit %d (content #%d)" % (code, k, idx), m[code], r, seq_content(c, idx))
                if why:
                    return why
        return None
    if c["kind"] == "rehash":
        for k, ((fname, idx, linked), m, i) in enumerate(zip(rehash_steps(c), mres["steps"], ires["steps"])):
            if "model_failure" in m:
                return "model failed: " + m["model_failure"][:200]
            for code, r in i.items():
                why = cmp_route("%s at hashing %d of the path (content #%d)" % (code, k, idx),
                                m[REHASH_TO_MODEL[code]], r, data_of(c["contents"][idx]))
                if why:
                    return why
        return None
    if c["kind"] == "overlap":
        for k, p in enumerate(c["parts"]):
            m = mres["parts"][k]
            if "model_failure" in m:
                return "model failed: " + m["model_failure"][:200]
            for j, i in enumerate(ires["p%d" % k]):
                if c["mode"] == "failure" and k == 0 and ires.get("raised"):
                    continue              # the model has no failing reader; the propagated exception is checked by the oracle
                why = cmp_route("%s of part %d (execution %d, %s)" % (p["route"], k, j, c["mode"]), m[p["route"]], i,
                                data_of(p["data"]))
                if why:
                    return why
        return None
    if "model_failure" in mres["sym"]:
        return "model failed: " + mres["sym"]["model_failure"][:200]
    if c["kind"] == "stream":
        rem = remaining_of(c, data_of(c["data"]))
        why = cmp_route("ff on a %s positioned by %s(%d)" % (c["cls"], c["how"], c["p"]), mres["sym"]["ff"], ires["ff"], rem)
        if why:
            return why
        if "error" not in ires["ff"] and ires["ff"].get("rest_after") != 0:
            return ("from_file left the stream unexhausted (read() afterwards: %s); the model's loop runs up to the empty read"
                    % ires["ff"].get("rest_after"))
        return None
    data = data_of(c["data"])
    sym = mres["sym"]
    for code, i in ires.items():
        if code in ("git", "globals_changed"):
            continue
        if code == "ffs":
            m = mres.get("short", {}).get("ff")
        else:
            m = sym.get(IMPL_TO_MODEL.get(code, code))
        if m is None:
            return "route %s was not run by the model" % code
        why = cmp_route(code, m, i, data)
        if why:
            return why
    for code, m in mres.get("exec", {}).items():
        if code == "model_failure":
            return "model failed: " + str(m)[:200]
        why = cmp_route(code, m, ires[code], data, mode="exec")
        if why:
            return why
    return None


# ------------------------------------------------------------------ the property on the implementation alone
def known_algo(a):
    from swh.model.hashutil import ALGORITHMS
    return a in ALGORITHMS


def oracle_overlap(c, ires):
    """interference-freedom: whatever else is being hashed inside or alongside, every execution of every part gives the
    digests / length of its own bytes"""
    for k, p in enumerate(c["parts"]):
        data = data_of(p["data"])
        rs = ires["p%d" % k]
        if c["mode"] == "failure" and k == 0 and ires.get("raised"):
            if rs[0].get("error") != "Other(Boom)":
                return ("the stream raised an OSError subclass at its read call #%d but from_file %s" % (
                    c["fail_at"], "returned digests" if "error" not in rs[0] else "raised " + rs[0]["error"]))
            continue
        if k == 0 and not rs or c["mode"] == "threads" and len(rs) != 1:
            return "part %d was executed %d times" % (k, len(rs))
        for j, r in enumerate(rs):
            why = oracle({"kind": "names" if p.get("names") is not None else "routes", "data": p["data"],
                          "names": p.get("names"), "cuts": p.get("cuts", [])}, {p["route"]: r}, None)
            if why:
                return "%s mode, part %d (%d bytes, %s), execution %d, while %d other computation(s) overlap: %s" % (
                    c["mode"], k, len(data), "stream " + p.get("stream", "both") if p["route"] == "ff" else "plain",
                    j, len(c["parts"]) - 1, why)
    return None


def oracle_shape(c, ires):
    """the same digests whatever the TYPE of the arguments: container of names, str/int/bytes subclasses, bytes-like data
    and chunks, path types, parameters left at their default"""
    if ires.get("names_mutated"):
        return "the library modified the hash_names container it was given (%s)" % ires["names_mutated"]
    names = shape_names(c)
    shape = "names %s as %s%s, length as %s, data/chunks as %s, read() returning %s, path as %s" % (
        "left at the default" if c.get("names") is None else names, c.get("ncont", "list"), " of str subclasses" if c.get("sname") else "",
        c.get("ltype", "int"), c.get("dtype", "bytes"), c.get("rtype", "bytes"), c.get("ptype", "str"))
    for code, r in ires.items():
        if not (isinstance(r, dict) and ("d" in r or "error" in r)):
            continue
        why = oracle({"kind": "names" if code in MULTIHASH_ROUTES else "routes", "data": c["data"], "names": names, "cuts": c["cuts"]},
                     {code: r}, None)
        if not why and r.get("extras_bad"):
            why = "get_hash / to_dict / unique_key / swhid disagree with the attributes: %s" % r["extras_bad"]
        if why:
            return "%s [%s]" % (why, shape)
    return None


def oracle_hgd(c, ires):
    r = ires["hg"]
    data = data_of(c["data"])
    if c["type"] not in HGD_TYPES:
        return None if r.get("error") == "ValueError" else "hash_git_data(.., %r) %s, expected ValueError" % (
            c["type"], "raised " + r["error"] if "error" in r else "returned a digest")
    if "error" in r:
        return "hash_git_data(<%d bytes>, %r, %r) raised %s" % (len(data), c["type"], c.get("base"), r["error"])
    want = HL(c.get("base") or "sha1", b"%s %d\0" % (c["type"].encode(), len(data)) + data).hex()
    if r["d"]["sha1_git"] != want:
        return "hash_git_data(<%d bytes>, %r, %r) is %s, expected %s" % (len(data), c["type"], c.get("base"), r["d"]["sha1_git"], want)
    return None


def oracle_handout(c, ires):
    """a hasher handed out by a classmethod belongs to the caller: feeding it changes nothing for anybody else, and it
    continues from the bytes it was created on"""
    from swh.model.hashutil import DEFAULT_ALGORITHMS
    dflt = sorted(DEFAULT_ALGORITHMS)
    x = handout_x(c)
    names = set(handout_names(c))
    declared = c["declared"] if c["maker"] == "fresh" else len(x)
    who = "the hasher returned by %s(<%d bytes>%s)" % (c["maker"] if c["maker"] != "fresh" else "MultiHash", len(x),
                                                       "" if c.get("hnames") is None else ", hash_names=%s" % c["hnames"])
    for k, r in enumerate(ires.get("pre", [])):
        why = oracle({"kind": "names", "data": {"t": "hex", "v": x.hex()}, "names": dflt if c["pre"][k].endswith("0") else None, "cuts": []},
                     {c["pre"][k].rstrip("0"): r}, None)
        if why:
            return "before anything was handed out: " + why
    streams = handout_streams(c)
    if len(ires["events"]) != len(streams):
        return "%s: %d digest events, %d expected (%s)" % (who, len(ires["events"]), len(streams), ires["events"][-1:])
    checks = [(b"".join(parts), ev, "%s, digest call %d after %d update(s)" % (who, k, len(parts) - 1))
              for k, (parts, ev) in enumerate(zip(streams, ires["events"]))]
    if ires.get("origin") is not None:
        checks.append((x, ires["origin"], "the hasher that %s was copied from, after the copy was fed" % who))
    for fed, ev, label in checks:
        if "error" in ev:
            return "%s raised %s" % (label, ev["error"])
        for a, dg in ev["d"].items():
            if a.endswith("_git") and declared != len(fed):
                continue           # the declared length is that of x: *_git of an extended stream is outside the domain
            if dg != spec_digest(a, declared, fed).hex():
                return "%s: %s is %s, expected %s (%d bytes fed)" % (label, a, dg, spec_digest(a, declared, fed).hex(), len(fed))
        if set(ev["d"]) != names - {"length"} or ev["length"] != (len(fed) if "length" in names else None):
            return "%s: names %s, length %s after %d bytes" % (label, sorted(ev["d"]), ev["length"], len(fed))
    for k, ((what, route), r) in enumerate(zip(c["again"], ires["again"])):
        v = handout_variant(c, what, x)
        code = route.rstrip("0")
        why = oracle({"kind": "names", "data": {"t": "hex", "v": v.hex()}, "cuts": [],
                      "names": dflt if route.endswith("0") else None},
                     {code: r}, None)
        if why:
            stale = ""
            if "error" not in r:
                got = r["d"].get("sha1") or r["d"].get("sha1_git") or ""
                for parts in streams:
                    fed = b"".join(parts)
                    if fed != v and got in (hashlib.sha1(fed).hexdigest(), hashlib.sha1(b"blob %d\0" % len(x) + fed).hexdigest()):
                        stale = " - these are the digests of the %d bytes the caller streamed into its own hasher" % len(fed)
            return ("after %s was fed %d more byte(s) by its caller, hashing %s (%d bytes) through %s: %s%s" % (
                who, sum(len(bytes.fromhex(h)) for h in c["ys"]), {"same": "the same bytes object", "equal": "an equal, distinct bytes object",
                "ext": "the extended byte string", "y": "the extension alone"}.get(what, "a prefix"), len(v), route, why, stale))
    return None


def oracle_seq(c, ires):
    """contents of the same length that differ in one byte, hashed one after another (and again): each its own digests"""
    if len(ires["visits"]) != len(c["visits"]):
        return "%d visits executed" % len(ires["visits"])
    for k, ((idx, routes), res) in enumerate(zip(c["visits"], ires["visits"])):
        d = seq_content(c, idx)
        for code, r in res.items():
            why = oracle({"kind": "routes", "data": {"t": "hex", "v": d.hex()}, "cuts": []}, {code: r}, None)
            if why:
                stale = [j for j in range(len(c["pos"]) + 1) if j != idx and "error" not in r and
                         r["d"].get("sha1", r["d"].get("sha1_git")) in (hashlib.sha1(seq_content(c, j)).hexdigest(),
                                                                        hashlib.sha1(b"blob %d\0" % len(d) + seq_content(c, j)).hexdigest())]
                return "visit %d (content #%d of %d same-length contents differing in one byte%s): %s%s" % (
                    k, idx, len(c["pos"]) + 1, ", one BytesIO object re-filled" if c.get("reuse") else "", why,
                    " - these are the digests of content #%d hashed earlier" % stale[0] if stale else "")
    return None


def oracle(c, ires, mres):
    if isinstance(ires, dict) and ires.get("globals_changed"):
        return "a module-level constant of hashutil was modified by the call: " + ires["globals_changed"][:300]
    if c["kind"] == "script":
        return oracle_script(c, ires)
    if c["kind"] == "shape":
        return oracle_shape(c, ires)
    if c["kind"] == "hgd":
        return oracle_hgd(c, ires)
    if c["kind"] == "seq":
        return oracle_seq(c, ires)
    if c["kind"] == "handout":
        return oracle_handout(c, ires)
    if c["kind"] == "overlap":
        return oracle_overlap(c, ires)
    if c["kind"] == "stream":
        return oracle_stream(c, ires)
    if c["kind"] == "rehash":
        return oracle_rehash(c, ires)
    data = data_of(c["data"])
    n = len(data)
    r = ires.get("ch", {})
    for j, a in enumerate(r.get("again", [])):
        if a != {"length": r["length"], "d": r["d"]}:
            return ("chunked update: call %d of digest()/hexdigest()/bytehexdigest()/digest() on the same hasher disagrees with the "
                    "final digest() (each returned dict was edited by the caller): %s" % (j, str(a)[:200]))
    if c.get("length", "real") != "real" and c["length"] != n:
        return None        # a wrong / missing declared length is outside the property's domain
    names = c.get("names")
    if names is not None and not all(a == "length" or known_algo(a) for a in names):
        return None        # unknown algorithm: only the exception class is compared (compare())
    blob_id = hashlib.sha1(b"blob %d\0" % n + data).hexdigest()
    for code, r in ires.items():
        if code == "globals_changed":
            continue
        if code == "git":
            if r is not None and r != blob_id:
                return "git hash-object gives %s but the blob manifest hashes to %s" % (r, blob_id)
            continue
        if code == "dl" and c.get("maxlen") is not None and n > c["maxlen"]:
            continue       # documented: a symlink longer than max_content_length raises (class compared with the model)
        if "error" in r:
            return "entry point %s raised %s on %d bytes" % (code, r["error"], n)
        if code in MULTIHASH_ROUTES:
            want_names = set(names) if names is not None else None
            for a, dg in r["d"].items():
                if dg != spec_digest(a, n, data).hex():
                    return "entry point %s: %s is %s, expected %s" % (code, a, dg, spec_digest(a, n, data).hex())
            if want_names is not None:
                if set(r["d"]) != want_names - {"length"}:
                    return "entry point %s: digests %s for names %s" % (code, sorted(r["d"]), sorted(want_names))
                want_len = n if "length" in want_names else None
            else:
                if set(r["d"]) != {"sha1", "sha1_git", "sha256", "blake2s256"}:
                    return "entry point %s: digests %s" % (code, sorted(r["d"]))
                want_len = n
            if r["length"] != want_len:
                return "entry point %s: length %s, expected %s" % (code, r["length"], want_len)
            for j, a in enumerate(r.get("again", [])):
                if a != {"length": r["length"], "d": r["d"]}:
                    return ("entry point %s: call %d of digest()/hexdigest()/bytehexdigest()/digest() on the same hasher disagrees with "
                            "the final digest() (each returned dict was edited by the caller): %s" % (code, j, str(a)[:200]))
        elif code == "hg":
            if r["d"]["sha1_git"] != blob_id:
                return "hash_git_data(data, 'blob') is %s, git's blob id is %s" % (r["d"]["sha1_git"], blob_id)
        elif code == "cg":
            if r["sha1"] != blob_id:
                return "sha1(content_git_object) is %s, git's blob id is %s" % (r["sha1"], blob_id)
            if r.get("nodata", "Other(MissingData)") != "Other(MissingData)":
                return "content_git_object of a content without data %s (the model: MissingData)" % r["nodata"]
        elif code in ("cf", "cs", "sp"):
            if bytes.fromhex(r["d"]["swhid"]).decode("ascii", "replace") != "swh:1:cnt:" + blob_id:
                return "identify (%s) printed %r, expected swh:1:cnt:%s" % (code, bytes.fromhex(r["d"]["swhid"])[:80], blob_id)
        else:
            src = b"" if code in ("do", "do2", "do3") else data
            for a in ("sha1", "sha1_git", "sha256", "blake2s256"):
                if r["d"][a] != spec_digest(a, len(src), src).hex():
                    return "entry point %s: %s is %s, expected %s" % (code, a, r["d"][a], spec_digest(a, len(src), src).hex())
            if r["length"] != len(src):
                return "entry point %s: length %s, expected %s" % (code, r["length"], len(src))
            for j, hh in enumerate(r.get("hashes", [])):
                if hh != {a: r["d"][a] for a in ("sha1", "sha1_git", "sha256", "blake2s256")}:
                    return "entry point %s: hashes() call %d (the first result was edited by the caller) is %s" % (code, j, str(hh)[:200])
            if "hash" in r and r["hash"] != r["d"]["sha1_git"]:
                return "entry point %s: node hash differs from sha1_git" % code
            if r.get("cv_bad"):
                return "hash_to_hex / hash_to_bytehex / hash_to_bytes / bytehex_to_hash do not round-trip the digests %s" % r["cv_bad"]
            if "model_length" in r and r["model_length"] != len(src):
                return "entry point %s: to_model() has length %s" % (code, r["model_length"])
            if code == "df":
                ml = c.get("maxlen")
                if r["d"]["absent"] != ("01" if ml is not None and n > ml else "00"):
                    return "from_disk.Content.from_file: status does not reflect max_content_length"
    return None


REHASH_ROUTE_NAME = {"fp": "MultiHash.from_path", "df": "from_disk.Content.from_file", "dd": "from_disk.Directory.from_disk(parent)[name]",
                     "tm": "Content.from_file(path).to_model().with_data()", "id": "iter_directory(Directory.from_disk(parent))",
                     "cf": "swh identify <path> (in process)", "sp": "swh identify <path> (subprocess)"}


def oracle_rehash(c, ires):
    """every hashing of a path gives the digests / length of the bytes that are in the file at that moment"""
    steps = rehash_steps(c)
    if len(ires["steps"]) != len(steps):
        return "%d hashings executed, %d expected" % (len(ires["steps"]), len(steps))
    for k, ((fname, idx, linked), res) in enumerate(zip(steps, ires["steps"])):
        d = data_of(c["contents"][idx])
        for code, r in res.items():
            why = oracle({"kind": "routes", "data": c["contents"][idx], "cuts": []}, {code: r}, None)
            if not why and "data_sha256" in r and r["data_sha256"] != hashlib.sha256(d).hexdigest():
                why = "the data attached to the model object is not the file's current content"
            if why:
                how = ("two paths of identical size and times" if c["shape"] == "mirror" else
                       "after replacements %s%s" % (c["modes"][:k], ", through a " + c["via"] if c.get("via", "real") != "real" else ""))
                stale = [j for j, sp in enumerate(c["contents"]) if j != idx and "error" not in r and
                         r["d"].get("sha1") == hashlib.sha1(data_of(sp)).hexdigest()]
                return "hashing %d of the path (%s), %s: %s%s" % (
                    k, how, REHASH_ROUTE_NAME[code], why, " - these are the digests of content #%d, no longer/not in this file" % stale[0] if stale else "")
    return None


def oracle_stream(c, ires):
    """hashing a content from a file object = hashing the bytes the file object still has to deliver"""
    data = data_of(c["data"])
    rem = remaining_of(c, data)
    declared = stream_declared(c, rem, data)
    names = set(part_names(c))
    r = ires["ff"]
    where = "from_file on a %s of %d bytes positioned at %d by %s (%d bytes remain)" % (c["cls"], len(data), len(data) - len(rem),
                                                                                       c["how"], len(rem))
    if "error" in r:
        return "%s raised %s" % (where, r["error"])
    if set(r["d"]) != names - {"length"}:
        return "%s: digests %s for names %s" % (where, sorted(r["d"]), sorted(names))
    for a, dg in r["d"].items():
        if a.endswith("_git") and declared != len(rem):
            continue       # a declared length that is not the real one: *_git digests are outside the domain
        if dg != spec_digest(a, len(rem), rem).hex():
            whole = " (it is the digest of the WHOLE buffer)" if dg == spec_digest(a, declared or 0, data).hex() and rem != data else ""
            return "%s: %s is %s, expected %s%s" % (where, a, dg, spec_digest(a, len(rem), rem).hex(), whole)
    if r["length"] != (len(rem) if "length" in names else None):
        return "%s: length %s, expected %s" % (where, r["length"], len(rem) if "length" in names else None)
    return None


def oracle_script(c, ires):
    """a copy is an independent hasher that continues from the same point"""
    sim, evs = [], ires["events"]
    for k, op in enumerate(c["ops"]):
        if k >= len(evs):
            return "script stopped after %d of %d steps" % (len(evs), len(c["ops"]))
        ev = evs[k]
        valid_new = op[0] != "n" or (all(a == "length" or known_algo(a) for a in op[1])
                                      and (op[2] is not None or not any(a.endswith("_git") for a in op[1])))
        if isinstance(ev, dict) and "error" in ev:
            if not valid_new:
                return None if ev["error"] == "ValueError" else "MultiHash() raised %s, expected ValueError" % ev["error"]
            return "step %d (%s) raised %s" % (k, op[0], ev["error"])
        if not valid_new:
            return "MultiHash(%s, length=%s) was accepted" % (op[1], op[2])
        if op[0] == "m":
            continue
        if op[0] == "n":
            sim.append({"names": set(op[1]), "len": op[2], "data": b""})
        elif op[0] == "u":
            sim[op[1]]["data"] += bytes.fromhex(op[2])
        elif op[0] == "c":
            sim.append(dict(sim[op[1]]))
        else:
            s = sim[op[1]]
            skip = set()
            if s["len"] is not None and s["len"] != len(s["data"]):
                skip = {a for a in s["names"] if a.endswith("_git")}   # declared length not (yet) the real one: outside the domain
            want = {a: spec_digest(a, s["len"] or 0, s["data"]).hex() for a in s["names"] if a != "length"}
            if set(ev["d"]) == set(want):
                for a in skip:
                    want[a] = ev["d"][a]
            if ev["d"] != want:
                bad = sorted(a for a in set(want) | set(ev["d"]) if want.get(a) != ev["d"].get(a))
                edited = " (a dict returned earlier was edited by the caller)" if any(o[0] == "m" for o in c["ops"][:k]) else ""
                return "step %d: %s of hasher %d differs on %s after %d bytes%s" % (
                    k, {"hex": "hexdigest()", "bytehex": "bytehexdigest()"}.get(op[2] if len(op) > 2 else "", "digest()"),
                    op[1], bad, len(s["data"]), edited)
            if ev["length"] != (len(s["data"]) if "length" in s["names"] else None):
                return "step %d: length %s after %d bytes" % (k, ev["length"], len(s["data"]))
    return None


# ------------------------------------------------------------------ generators
def src_ints(cap):
    """integer constants of the source under test (each with -1/+1) usable as a length: 0 <= v <= cap; never raises"""
    try:
        from .gitobj_common import source_ints
        return [v for v in source_ints() if 0 <= v <= cap] or [0]
    except Exception:
        return [0, 1, BLOCK - 1, BLOCK, BLOCK + 1]


def src_tokens():
    try:
        from .gitobj_common import source_tokens
        return list(source_tokens("bytes")) + [b"blob ", b"blob 0\0", b"\0", b"\xef\xbb\xbf", b"tree ", b"commit ", b"\x1f\x8b", b"#!"]
    except Exception:
        return [b"blob ", b"\0", b"\xef\xbb\xbf"]


_BYTE_LITERALS = []


def src_byte_literals():
    """the bytes literals (1..20 long) of swh/model/*.py of the tree under test: what a content special case would be keyed on"""
    if _BYTE_LITERALS:
        return _BYTE_LITERALS
    found = set()
    try:
        import ast
        import glob
        from . import core
        for f in sorted(glob.glob(os.path.join(core.REPO, "swh", "model", "*.py"))):
            try:
                tree = ast.parse(open(f, encoding="utf-8").read())
            except Exception:
                continue
            for nd in ast.walk(tree):
                if isinstance(nd, ast.Constant) and isinstance(nd.value, bytes) and 1 <= len(nd.value) <= 20:
                    found.add(nd.value)
    except Exception:
        pass
    _BYTE_LITERALS.extend(sorted(found) or [b"blob"])
    return _BYTE_LITERALS


def pick_len(rng, n, cap=100000, p=0.08):
    """n, or (about 8 % of the time) a length that is an integer constant of the source under test"""
    return rng.choice(src_ints(cap)) if rng.random() < p else n


def gen_data(rng, n, style):
    if n >= 2 and rng.random() < 0.08:     # a byte literal of the source under test at the start / end / both ends of the content
        tok = rng.choice(src_byte_literals()) if rng.random() < 0.6 else rng.choice(src_tokens())
        where = rng.choice(["start", "start", "end", "both"])
        return {"t": "rep", "n": n, "h": tok.hex() if where != "end" else "", "p": rng.randbytes(61).hex(),
                "e": tok.hex() if where != "start" else ""}
    if style == "zero":
        return {"t": "fill", "n": n, "b": 0}
    if style == "ff":
        return {"t": "fill", "n": n, "b": 255}
    if style == "text":            # where strip() / text mode / newline translation would bite
        edge = [b"\n", b"\r\n", b"\r", b" ", b"\t", b"/", b"\0", b"\n\n", b"\x1a", b"\xef\xbb\xbf", b"\xff", b""]
        pat = b"".join(rng.choice([b"a", b"line", b" ", b"\n", b"\r\n", b"\t", b"/", b"\xc3\xa9", b"0"]) for _ in range(rng.randrange(1, 12)))
        return {"t": "rep", "n": n, "h": rng.choice(edge).hex(), "p": pat.hex(), "e": rng.choice(edge[:8]).hex()}
    if n <= 64:
        return {"t": "hex", "v": rng.randbytes(n).hex()}
    return {"t": "rand", "n": n, "s": rng.randrange(1 << 30)}


def gen_cuts(rng, n, style):
    if style == "source-ints":
        cuts, pos = [], 0
        sizes = src_ints(max(1, n))
        while pos < n and len(cuts) < 400:
            c = rng.choice(sizes)
            cuts.append(c)
            pos += c
        return cuts
    if style == "whole":
        return [n] if n else []
    if style == "none":
        return []                      # the remainder rule gives one chunk (or no update at all for n = 0)
    if style == "empties":
        return [0, 0] + ([n] if n else []) + [0]
    if style == "bytes":
        return [1] * n
    if style == "blocks":
        return [BLOCK] * (n // BLOCK) + ([0] if rng.random() < 0.5 else [])
    if style == "around-blocks":
        cuts, pos = [], 0
        while pos < n:
            c = rng.choice([BLOCK - 1, BLOCK, BLOCK + 1, 1, 0])
            cuts.append(c)
            pos += c
        return cuts
    cuts, pos = [], 0                  # random cuts with forced empty chunks
    k = rng.choice([1, 2, 3, 5, 9, 17])
    for _ in range(k):
        if rng.random() < 0.3:
            cuts.append(0)
        c = rng.randrange(0, max(1, 2 * (n - pos) // k + 1)) if pos < n else 0
        cuts.append(c)
        pos += c
    return [0] + cuts if rng.random() < 0.3 else cuts


def gen_sched(rng, n):
    if n == 0:
        return rng.choice([[], [0], [5]])
    k = rng.choice([1, 2, 3, 8, 40])
    return [rng.choice([0, 0, 1, 2, 99, BLOCK - 2, BLOCK - 1, BLOCK, BLOCK + 5, rng.randrange(0, BLOCK)]) for _ in range(k)]


def link_ok(d):
    return 0 < len(d) < 4000 and b"\0" not in d


BAD_NAMES = ["sha3", "SHA1", "sha1_gi", "_git", "md5_git", "sha256_git", "length ", "", "blake2s", "sha1 "]


def gen(rng, tier):
    from swh.model.hashutil import ALGORITHMS, DEFAULT_ALGORITHMS
    algos = sorted(ALGORITHMS)
    quick = tier != "thorough"
    cases = []
    edge = sorted({n for n in [0, 1, 2] + [k * BLOCK + d for k in range(4) for d in range(-2, 3)] if n >= 0})
    cut_styles = ["random", "empties", "blocks", "around-blocks", "bytes", "whole", "none", "random", "random", "random", "random",
                  "source-ints"]
    data_styles = ["rand", "zero", "ff", "text"]
    lengths = []
    for i, n in enumerate(edge):
        for j, ds in enumerate(data_styles if not quick else [data_styles[i % 4]]):
            for cs in (cut_styles if not quick else [cut_styles[(i + j) % len(cut_styles)], cut_styles[(i + 3) % len(cut_styles)]]):
                lengths.append((n, ds, cs))
    n_random = 150 if quick else 1800
    for k in range(n_random):
        r = rng.random()
        n = rng.randrange(0, 2000) if r < 0.5 else rng.randrange(2000, 100001)
        n = pick_len(rng, n)
        if not quick and r > 0.9:
            n = rng.choice(edge)
        lengths.append((n, rng.choice(data_styles + ["rand", "text"]), rng.choice(cut_styles)))
    big_exec = 0
    for idx, (n, ds, cs) in enumerate(lengths):
        if cs == "bytes" and n > 3000:
            cs = "around-blocks"
        c = {"kind": "routes", "data": gen_data(rng, n, ds), "cuts": gen_cuts(rng, n, cs), "sched": gen_sched(rng, n)}
        d = None
        if n < 4000:
            d = data_of(c["data"])
            if link_ok(d) and rng.random() < 0.7:
                c["symlink"] = True
        if rng.random() < 0.05:
            c["fifo"] = True
        if rng.random() < 0.25:
            c["maxlen"] = max(0, n + rng.choice([-1, 0, 1, 1000, -1000]))
        if not quick or idx % 6 == 0:
            c["git"] = True
        if n <= 3000:
            c["exec"] = [rng.choice(["mc", "db", "ms", "fd", "ch"]), rng.choice(["cf", "cs", "hg"])]
        elif n <= 70000 and big_exec < (14 if quick else 120) and (quick or rng.random() < 0.2):
            c["exec"] = [rng.choice(["mc", "cs", "cf", "db"])]
            big_exec += 1
        cases.append(c)
    for c in cases:
        if len(data_of(c["data"])) >= 1:
            c["subproc"] = True            # exactly one real `python -m swh.model.cli` subprocess per run
            break
    # link targets: symlinks need NUL-free data; make sure some are exercised
    for k in range(6 if quick else 60):
        tgt = bytes(rng.choice(b"abc/._-xyz\xc3\xa9 ") for _ in range(rng.choice([1, 2, 7, 40, 300])))
        tgt = rng.choice([b"", b"/", b" ", b"../", b"./"]) + tgt + rng.choice([b"", b"/", b"//", b" ", b"\n", b"/.", b"\xff"])
        cases.append({"kind": "routes", "data": {"t": "hex", "v": tgt.hex()}, "cuts": gen_cuts(rng, len(tgt), "random"),
                      "sched": gen_sched(rng, len(tgt)), "symlink": True, "exec": ["db"], "git": True})
    # names: subsets of ALGORITHMS + "length"
    universe = algos + ["length"]
    subsets = []
    if quick:
        subsets = [[], ["length"], list(universe), sorted(DEFAULT_ALGORITHMS)]
        while len(subsets) < 16:
            subsets.append([a for a in universe if rng.random() < 0.5])
    else:
        for mask in range(1 << len(universe)):
            subsets.append([a for b, a in enumerate(universe) if mask >> b & 1])
    for s in subsets:
        for rep in range(1 if quick else 2):
            names = list(s)
            rng.shuffle(names)
            if names and rng.random() < 0.2:
                names.append(rng.choice(names))          # a duplicate
            n = rng.choice([0, 1, 3, 100, 1000, BLOCK - 1, BLOCK, BLOCK + 1, 2 * BLOCK + 1]) if rep == 0 else rng.randrange(0, 5000)
            n = pick_len(rng, n, cap=2 << 20)
            c = {"kind": "names", "data": gen_data(rng, n, rng.choice(data_styles)), "names": names,
                 "length": "real", "cuts": gen_cuts(rng, n, rng.choice(["random", "empties", "around-blocks", "source-ints"])),
                 "sched": gen_sched(rng, n)}
            if n <= 2000 and names and len(names) <= 3:
                c["exec"] = ["ch"]
            if n > 150000:
                c["nomodel"] = True
            cases.append(c)
    # lengths in (150 kB, 2 MiB] that are constants of the source (a threshold such as 1 << 20 or 10**6): MultiHash routes,
    # implementation + property oracle only
    large = [v for v in src_ints(2 << 20) if v > 150000]
    for v in (rng.sample(large, min(len(large), 2 if quick else 12)) if large else []):
        cases.append({"kind": "names", "data": gen_data(rng, v, rng.choice(["rand", "text"])), "names": ["length"] + sorted(DEFAULT_ALGORITHMS),
                      "length": "real", "cuts": gen_cuts(rng, v, rng.choice(["blocks", "source-ints", "random"])), "sched": gen_sched(rng, v),
                      "nomodel": True})
    if not quick:                                       # two large inputs through the MultiHash entry points
        for n, ds, cs in (((1 << 20) + 1, "rand", "blocks"), (600000, "text", "around-blocks")):
            cases.append({"kind": "names", "data": gen_data(rng, n, ds), "names": ["length"] + sorted(DEFAULT_ALGORITHMS),
                          "length": "real", "cuts": gen_cuts(rng, n, cs), "sched": []})
    for k in range(24 if quick else 400):
        names = [a for a in universe if rng.random() < 0.4]
        kind = k % 4
        if kind == 0:
            names.insert(rng.randrange(len(names) + 1), rng.choice(BAD_NAMES))
        n = pick_len(rng, rng.choice([0, 1, 5, 300, BLOCK + 3]), cap=60000, p=0.15)
        length = "real"
        if kind == 1:
            length = None
        elif kind == 2:
            length = rng.choice([0, n + 1, max(0, n - 1), 10 ** 12, n * 10 + 7, rng.choice(src_ints(2 << 20))])
        elif kind == 3:
            names = [a for a in names if not a.endswith("_git")]
            length = None
        rng.shuffle(names)
        cases.append({"kind": "names", "data": gen_data(rng, n, "rand"), "names": names, "length": length,
                      "cuts": gen_cuts(rng, n, "random"), "sched": gen_sched(rng, n)})
    # scripts: update* ; copy ; update* on both ; digest both  (and freer interleavings)
    for k in range(300 if quick else 2500):
        names = [a for a in universe if rng.random() < 0.45] or ["sha1"]
        rng.shuffle(names)
        chunks = [rng.randbytes(rng.choice([0, 0, 1, 2, 5, 64, 200])) for _ in range(rng.randrange(1, 9))]
        total = sum(map(len, chunks))
        declared = total if rng.random() < 0.7 else rng.choice([None, 0, total + 1])
        if declared is None and any(a.endswith("_git") for a in names) and rng.random() < 0.8:
            declared = total
        ops = [["n", names, declared]]
        nv = 1
        if k % 3 == 0:      # the canonical shape; both branches receive the same remaining chunks
            cut = rng.randrange(len(chunks) + 1)
            ops += [["u", 0, ch.hex()] for ch in chunks[:cut]] + [["c", 0]]
            rest = chunks[cut:]
            order = [(v, ch) for v in (0, 1) for ch in rest]
            if rng.random() < 0.5:
                order = [(v, ch) for ch in rest for v in (1, 0)]
            ops += [["u", v, ch.hex()] for v, ch in order] + [["d", 0], ["d", 1]]
        else:
            for ch in chunks:
                r = rng.random()
                if r < 0.25:
                    ops.append(["c", rng.randrange(nv)])
                    nv += 1
                if r > 0.8:
                    ops.append(["d", rng.randrange(nv)])
                ops.append(["u", rng.randrange(nv), ch.hex()])
            if rng.random() < 0.15:
                ops.append(["n", [rng.choice(universe)], rng.choice([None, 3])])
                nv += 1
            ops += [["d", v] for v in range(nv)]
        cases.append({"kind": "script", "ops": ops})
    # interleaved incremental use: 2-3 hashers with their own names / lengths / contents, update() calls interleaved,
    # copies taken in between, chunks optionally handed over through ONE caller-side buffer that is reused and scribbled on
    for k in range(40 if quick else 700):
        nh = rng.choice([2, 2, 3])
        ops, streams = [], []
        for v in range(nh):
            names = [a for a in universe if rng.random() < 0.35][:4] or [rng.choice(universe)]
            rng.shuffle(names)
            chunks = [rng.randbytes(rng.choice([0, 1, 2, 64, 200, 2047, 2048, 3000])) for _ in range(rng.randrange(1, 6))]
            ops.append(["n", names, sum(map(len, chunks))])
            streams.append([(v, ch) for ch in chunks])
        nv = nh
        while any(streams):
            if k % 2 == 0:                                  # strict alternation
                order = [v for v in range(len(streams)) if streams[v]]
            else:
                order = [rng.choice([v for v in range(len(streams)) if streams[v]])]
            for v in order:
                if rng.random() < 0.2 and nv < 6:
                    ops.append(["c", streams[v][0][0]])     # copy mid-stream: the copy receives the same remaining chunks
                    streams.append([(nv, ch) for _, ch in streams[v]])
                    nv += 1
                var, ch = streams[v].pop(0)
                ops.append(["u", var, ch.hex()])
        ops += [["d", v] for v in range(nv)]
        c = {"kind": "script", "ops": ops}
        b = rng.choice([None, "view", "slice"])
        if b:
            c["buf"] = b
        cases.append(c)
    cases += gen_overlap(rng, quick, universe)
    cases += gen_streams(rng, quick, universe)
    cases += gen_result_edits(rng, quick, universe)
    cases += gen_rehash(rng, quick)
    cases += gen_shapes(rng, quick, universe)
    cases += gen_handouts(rng, quick, universe)
    # every bytes literal of the source under test once at the start and once at the end of a small content, all entry points
    sweep = [(tok, where) for tok in src_byte_literals() for where in ("start", "end")]
    if quick and len(sweep) > 90:
        sweep = rng.sample(sweep, 90)
    for tok, where in sweep:
        n = len(tok) + rng.choice([0, 1, 7, 100])
        c = {"kind": "routes", "data": {"t": "rep", "n": n, "h": tok.hex() if where == "start" else "", "p": rng.randbytes(61).hex(),
                                        "e": tok.hex() if where == "end" else ""},
             "cuts": gen_cuts(rng, n, rng.choice(["random", "whole", "bytes"])), "sched": gen_sched(rng, n)}
        if link_ok(data_of(c["data"])) and rng.random() < 0.5:
            c["symlink"] = True
        cases.append(c)
    return cases


NCONTS = ["list", "set", "frozenset", "tuple", "dict", "keys", "gen", "iter"]
DTYPES = ["bytes", "bytearray", "memoryview", "sub"]
PTYPES = ["str", "bytes", "path", "rel", "reldot", "dotdot", "dirlink", "nonutf8"]
HGD_BASES = [None, "sha1", "sha256", "md5", "sha512", "blake2s256", "blake2b512", "BLAKE2S256", "blake2s128", "SHA1", "sha3_256"]


def gen_handouts(rng, quick, universe):
    """returned-OBJECT channel: a hasher handed out by from_data / from_file / from_path / copy() / from_state (or a fresh one:
    the sequence seen from the other side) is fed further by its caller; then the same input is hashed again everywhere"""
    cases = []
    sizes = [0, 1, 3, 17, 64, 65, 300, 4095, 4096, 4097, BLOCK - 1, BLOCK, BLOCK + 1]
    makers = ["from_data", "from_data", "from_file", "from_path", "copy", "from_state", "fresh"]
    mem0 = ["fd0", "mc", "ms", "db", "cs", "ff0", "ch0", "dl"]            # entry points that end in from_data / default names
    other = ["fd", "ff", "fp", "fp0", "ch", "hg", "df", "cf"]
    for k in range(70 if quick else 1800):
        n = pick_len(rng, rng.choice(sizes[:10] if quick and rng.random() < 0.8 else sizes), cap=40000)
        x = gen_data(rng, n, rng.choice(["rand", "rand", "text", "zero"]))
        ys = [rng.randbytes(rng.choice([1, 1, 5, 64, 3000])).hex() for _ in range(rng.choice([1, 1, 2, 3]))]
        after = []
        if rng.random() < 0.3:
            after.append(["d", rng.choice(["bin", "hex", "bytehex"])])
        for j in range(len(ys)):
            after.append(["u", j])
            if rng.random() < 0.7 or j == len(ys) - 1:
                after.append(["d", rng.choice(["bin", "bin", "hex", "bytehex"])])
        c = {"kind": "handout", "x": x, "ys": ys, "maker": makers[k % len(makers)], "after": after, "salt": k + 1}
        if k % 3 == 2:
            names = [a for a in universe if rng.random() < 0.5] or ["sha1"]
            rng.shuffle(names)
            c["hnames"] = names
        if c["maker"] == "fresh":
            c["declared"] = n + sum(len(h) // 2 for h in ys)
        if rng.random() < 0.6:
            c["pre"] = rng.sample(mem0 + other, rng.choice([1, 2]))
        again = [["same", "fd0"], ["equal", rng.choice(mem0)]]
        for _ in range(rng.randrange(2, 6)):
            again.append([rng.choice(["same", "equal", "equal", "prefix1", "prefix2", "ext", "y"]), rng.choice(mem0 + mem0 + other)])
        rng.shuffle(again)
        xb = handout_x(c)
        ok = []
        for what, route in again + [[w, r] for w, r in [["same", r] for r in c.get("pre", [])]][:0]:
            v = handout_variant(c, what, xb)
            if route == "dl" and not link_ok(v):
                route = "db"
            ok.append([what, route])
        c["again"] = ok
        if "pre" in c:
            c["pre"] = [r if r != "dl" or link_ok(xb) else "db" for r in c["pre"]]
        cases.append(c)
    return cases


def gen_shapes(rng, quick, universe):
    """argument SHAPES (types, defaults), hash_git_data's type x base matrix, near-identical contents in sequence, failing streams"""
    cases = []
    sizes = [0, 1, 1, 2, 3, 100, 2047, 2048, 5000, BLOCK, BLOCK + 1, 2 * BLOCK + 17]
    for k in range(64 if quick else 1600):
        n = pick_len(rng, rng.choice(sizes[:9] if quick and rng.random() < 0.85 else sizes), cap=70000)
        c = {"kind": "shape", "data": gen_data(rng, n, rng.choice(["rand", "rand", "text", "zero"])),
             "cuts": gen_cuts(rng, n, rng.choice(["random", "empties", "whole", "none"]))}
        if k % 4 != 0:                                  # k % 4 == 0: hash_names left at its default everywhere
            names = [a for a in universe if rng.random() < 0.5]
            rng.shuffle(names)
            c["names"] = names
            c["ncont"] = NCONTS[(k // 4) % len(NCONTS)]
            if rng.random() < 0.3:
                c["sname"] = True
        c["dtype"] = DTYPES[k % len(DTYPES)] if rng.random() < 0.8 else rng.choice(DTYPES)
        c["rtype"] = rng.choice(DTYPES)
        c["ptype"] = PTYPES[(k // 2) % len(PTYPES)]
        c["ltype"] = "bool" if n <= 1 and rng.random() < 0.7 else rng.choice(["int", "int", "intsub"])
        c["mode"] = rng.choice([0o100644, 0o100755, 0o120000, 0o040000, 644, 0])
        cases.append(c)
    # hash_git_data: every type x base algorithm, unknown types
    combos = [(t, b) for t in HGD_TYPES + ["blobb", "", "Blob", "blob "] for b in HGD_BASES]
    rng.shuffle(combos)
    for t, b in (combos[:40] if quick else combos * 3):
        n = rng.choice([0, 1, 3, 100, 5000])
        c = {"kind": "hgd", "type": t, "base": b, "data": gen_data(rng, n, "rand")}
        if rng.random() < 0.3:
            c["dtype"] = rng.choice(DTYPES)
        cases.append(c)
    # near-identical contents in sequence
    routes = ["fd", "ff", "ch", "hg", "mc", "ms", "db", "cs"]
    for k in range(30 if quick else 800):
        n = rng.choice([1, 2, 64, 300, 4096, 5000] + ([BLOCK + 1] if not quick or k % 10 == 0 else []))
        nc = rng.choice([2, 3, 4, 5])
        where = rng.choice(["middle", "first", "last", "any"])
        pos = [{"middle": n // 2, "first": 0, "last": n - 1}.get(where, rng.randrange(n)) for _ in range(nc - 1)]
        order = list(range(nc)) + [rng.randrange(nc) for _ in range(rng.randrange(1, 4))]      # every content, then revisits
        if rng.random() < 0.5:
            rng.shuffle(order)
        same = rng.random() < 0.5                         # the same entry point every time / rotating entry points
        r0 = rng.sample(routes, rng.choice([1, 2, 3]))
        visits = [[idx, r0 if same else rng.sample(routes, rng.choice([1, 2]))] for idx in order]
        cases.append({"kind": "seq", "base": gen_data(rng, n, rng.choice(["rand", "zero", "text"])), "pos": pos, "visits": visits,
                      "reuse": rng.random() < 0.5})
    # a stream that fails in the middle, then other computations
    for k in range(12 if quick else 300):
        n = rng.choice([1, 300, BLOCK + 1, 2 * BLOCK + 17] if not quick else [1, 300, 5000, BLOCK + 1])
        p0 = gen_part(rng, n, universe, force_stream=True)
        others = [gen_part(rng, rng.choice([1, 17, 300, 2048]), universe) for _ in range(rng.choice([1, 2]))]
        for o in others:
            if o["route"] == "ff":
                o.pop("sched", None)
        cases.append({"kind": "overlap", "mode": "failure", "parts": [p0] + others, "fail_at": rng.choice([0, 1, 1, 2, 3, 50])})
    return cases


def gen_rehash(rng, quick):
    """one path hashed 2-4 times while its bytes are replaced in between; two paths of identical stat shape"""
    cases = []
    sizes = [1, 2, 17, 300, 4096, 5000, BLOCK - 1, BLOCK, BLOCK + 1, 2 * BLOCK + 17]
    n_sp = 0
    for k in range(48 if quick else 1200):
        if k % 6 == 5:
            n = rng.choice(sizes[:5] if quick else sizes[:7])
            contents = [gen_data(rng, n, "rand"), gen_data(rng, n, rng.choice(["rand", "zero", "text"]))]
            if data_of(contents[0]) == data_of(contents[1]):
                contents[1] = {"t": "fill", "n": n, "b": 7}
            rounds = rng.choice([2, 2, 3])
            c = {"kind": "rehash", "shape": "mirror", "contents": contents, "rounds": rounds, "swap": rng.random() < 0.4}
            nsteps, allowed = 2 * rounds, ["fp", "df", "dd", "tm", "cf"]
        else:
            via = rng.choice(["real", "real", "real", "hardlink", "alt-hardlink", "symlink", "alt-symlink"])
            nc = rng.choice([2, 2, 3, 4])
            n = rng.choice((sizes[:5] if quick and rng.random() < 0.8 else sizes) if rng.random() < 0.7 else [rng.randrange(1, 9000)])
            contents, modes = [gen_data(rng, n, rng.choice(["rand", "rand", "text", "zero"]))], []
            for j in range(1, nc):
                letter = rng.choice(["a", "a", "a", "b", "c", "d"] if "hardlink" not in via else ["a", "a", "b", "c"])
                if letter == "c" or letter == "d" and rng.random() < 0.5:
                    n = max(0, n + rng.choice([-1, 1, 7, -n // 2]))                   # another length
                modes.append(letter if letter == "d" else letter + ":" + rng.choice(["r+b", "r+b", "wb"]))
                nxt = gen_data(rng, n, rng.choice(["rand", "rand", "text", "ff"]))
                if data_of(nxt) == data_of(contents[-1]) and n:
                    nxt = {"t": "fill", "n": n, "b": 100 + j}
                contents.append(nxt)
            c = {"kind": "rehash", "shape": "sequence", "contents": contents, "modes": modes, "via": via}
            nsteps = nc
            allowed = ["fp", "df", "dd", "tm", "id", "cf"]
        orders = []
        for j, (fname, idx, linked) in enumerate(rehash_steps(c)):
            rs = list(allowed)
            if linked and "symlink" in c.get("via", ""):
                rs = ["fp", "cf"]                  # through a symbolic link only the entry points that follow it hash the file
            rng.shuffle(rs)
            if rng.random() < 0.4:
                rs = rs[:rng.randrange(1, len(rs) + 1)]
            orders.append(rs)
        if n_sp < (2 if quick else 24) and c["shape"] == "sequence" and rng.random() < 0.2:
            orders[-1].append("sp")
            n_sp += 1
        c["orders"] = orders
        cases.append(c)
    return cases


def gen_result_edits(rng, quick, universe):
    """returned-container channel: the dicts digest()/hexdigest()/bytehexdigest() return are edited by the caller (pop,
    overwrite, clear, add, swap) between further update()/copy()/digest calls; later results - on the same hasher, on a
    copy, on a fresh hasher fed the same bytes - must be those of the bytes fed"""
    cases = []
    forms = ["bin", "hex", "bytehex"]
    for k in range(60 if quick else 1500):
        names = [a for a in universe if rng.random() < 0.4][:5] or [rng.choice(universe)]
        rng.shuffle(names)
        chunks = [rng.randbytes(rng.choice([0, 1, 2, 64, 200, 2048])).hex() for _ in range(rng.randrange(1, 6))]
        total = sum(len(ch) // 2 for ch in chunks)
        ops = [["n", names, total]]
        live, nd = [0], 0
        for ch in chunks:
            for v in live:
                ops.append(["u", v, ch])
            if rng.random() < 0.65:
                form = rng.choice(forms)
                ops.append(["d", rng.choice(live), form])
                nd += 1
                if rng.random() < 0.85:
                    ops.append(["m", rng.randrange(nd), rng.choice(EDITS)])      # usually the one just returned, sometimes an older one
                if rng.random() < 0.6:                                            # a successive call without any update in between
                    ops.append(["d", rng.choice(live), rng.choice([form, rng.choice(forms)])])
                    nd += 1
                    if rng.random() < 0.5:
                        ops.append(["m", nd - 1, rng.choice(EDITS)])
            if len(live) == 1 and rng.random() < 0.35:
                ops.append(["c", 0])
                live.append(1)
                if rng.random() < 0.5 and nd:
                    ops.append(["m", rng.randrange(nd), rng.choice(EDITS)])
        for v in live:                                                            # at the end: every accessor on every hasher, each result edited
            fs = forms[:]
            rng.shuffle(fs)
            for form in fs + [rng.choice(forms)]:
                ops.append(["d", v, form])
                ops.append(["m", nd, rng.choice(EDITS)])
                nd += 1
        tv = len(live)                                                            # a fresh hasher fed the same bytes
        ops.append(["n", names, total])
        ops += [["u", tv, ch] for ch in chunks]
        ops += [["d", tv, rng.choice(forms)], ["d", 0, "bin"]]
        cases.append({"kind": "script", "ops": ops})
    return cases


def gen_streams(rng, quick, universe):
    """from_file on every stream class x every way of not being at position 0"""
    cases = []
    combos = [(cls, how) for cls, hows in sorted(STREAM_HOWS.items()) for how in hows]       # 44 combinations
    big = [BLOCK, BLOCK + 1, 2 * BLOCK - 1, 2 * BLOCK + 17, 76808, 100000]
    small = [0, 1, 2, 3, 9, 100, 4097]
    for k in range((2 if quick else 40) * len(combos)):
        cls, how = combos[k % len(combos)]
        n = rng.choice(big) if rng.random() < (0.3 if quick else 0.5) else rng.choice(small + [rng.randrange(0, 9000)])
        n = pick_len(rng, n)
        if cls == "mmap" and n == 0:
            n = 1                                           # an empty file cannot be mapped
        style = "text" if how == "readline" and rng.random() < 0.8 else rng.choice(["rand", "rand", "zero", "text"])
        positions = [0, 1, n - 1, n, n // 2, rng.randrange(0, n + 1)]
        if n > BLOCK:
            positions += [BLOCK, BLOCK + 1, BLOCK + rng.randrange(1, n - BLOCK + 1), BLOCK - 1]   # inside the second block
        if how in ("seek", "seek_cur", "write_seek") and cls != "mmap":
            positions.append(n + rng.choice([1, 5, BLOCK]))                                        # beyond the end
        p = max(0, rng.choice(positions))
        if how == "seek_end" or cls == "mmap":
            p = min(p, n)
        c = {"kind": "stream", "data": gen_data(rng, n, style), "cls": cls, "how": how, "p": p}
        if cls in ("raw", "buffered", "read", "both") and rng.random() < 0.4:
            c["sched"] = gen_sched(rng, n)
        r = rng.random()
        if r < 0.3:
            names = [a for a in universe if rng.random() < 0.5] or ["sha1"]
            rng.shuffle(names)
            c["names"] = names
        r = rng.random()
        if r < 0.15:
            c["length"] = "whole"                           # the caller declares the size of the whole buffer
        elif r < 0.25 and not any(a.endswith("_git") for a in (c.get("names") or ["sha1_git"])):
            c["length"] = None
        cases.append(c)
    return cases


def gen_part(rng, n, universe, force_stream=False):
    route = "ff" if force_stream else rng.choice(["ff", "ff", "ff", "fd", "fp", "ch", "mc", "db", "df", "hg"])
    part = {"data": gen_data(rng, n, rng.choice(["rand", "rand", "zero", "ff", "text"])), "route": route}
    if route == "ff":
        part["stream"] = rng.choice(["both", "raw", "both", "raw", "read", "buffered"])
        if rng.random() < 0.35:
            part["sched"] = gen_sched(rng, n)
    if route == "ch":
        part["cuts"] = gen_cuts(rng, n, rng.choice(["random", "around-blocks", "empties"]))
    if route in ("ff", "fd", "fp", "ch") and rng.random() < 0.3:
        names = [a for a in universe if rng.random() < 0.5] or ["sha256"]
        rng.shuffle(names)
        part["names"] = names
    return part


def gen_overlap(rng, quick, universe):
    """two or more hashing computations that OVERLAP in one process"""
    cases = []
    big = [BLOCK - 1, BLOCK, BLOCK + 1, 2 * BLOCK, 2 * BLOCK + 17, 3 * BLOCK + 2, 76800, 100000]
    modes = ["reentrant", "threads", "reentrant", "threads", "nested", "threads"]
    for k in range(42 if quick else 900):
        mode = modes[k % len(modes)]
        nparts = rng.choice([2, 2, 3]) if mode != "nested" else rng.choice([2, 3])
        sizes = []
        while len(sizes) < nparts:
            n = rng.choice(big) if rng.random() < (0.45 if quick else 0.6) else rng.choice([1, 2, 17, 300, 2047, 2048, 5000, rng.randrange(1, 9000)])
            if n not in sizes:                              # different contents of different lengths
                sizes.append(n)
        parts = []
        for j, n in enumerate(sizes):
            force = j == 0 or mode == "nested" and j < nparts - 1 or mode == "threads" and rng.random() < 0.5
            parts.append(gen_part(rng, n, universe, force_stream=force))
        c = {"kind": "overlap", "mode": mode, "parts": parts, "when": rng.choice(["after", "after", "after", "both", "before"])}
        if mode == "reentrant" and rng.random() < 0.3:
            c["every"] = 2
        cases.append(c)
    return cases


# ------------------------------------------------------------------ bookkeeping
def nontrivial(c):
    if c["kind"] == "script":
        fed = sum(len(op[2]) // 2 for op in c["ops"] if op[0] == "u")
        return fed >= 1 and (any(op[0] == "c" for op in c["ops"]) or sum(1 for op in c["ops"] if op[0] == "n") >= 2)
    if c["kind"] == "overlap":
        return len(c["parts"]) >= 2 and all(len(data_of(p["data"])) >= 1 for p in c["parts"])
    if c["kind"] == "stream":
        d = data_of(c["data"])
        return len(remaining_of(c, d)) < len(d)             # the stream is not at position 0
    if c["kind"] == "rehash":
        return len({data_of(sp) for sp in c["contents"]}) >= 2
    if c["kind"] == "seq":
        return len(c["visits"]) >= 2
    if c["kind"] == "handout":
        return len(handout_x(c)) >= 1 and any(op[0] == "u" for op in c["after"])
    if c["kind"] == "hgd":
        return True
    n = len(data_of(c["data"]))
    return n >= 1


def case_bytes(c):
    if c["kind"] == "script":
        return sum(len(op[2]) // 2 for op in c["ops"] if op[0] == "u")
    if c["kind"] == "overlap":
        return sum(len(data_of(p["data"])) for p in c["parts"])
    if c["kind"] == "rehash":
        return sum(len(data_of(sp)) for sp in c["contents"]) * 2
    if c["kind"] == "seq":
        return len(data_of(c["base"])) * len(c["visits"])
    if c["kind"] == "handout":
        return (len(handout_x(c)) + sum(len(h) // 2 for h in c["ys"])) * (len(c["again"]) + len(c["after"]) + 2)
    return len(data_of(c["data"]))


def classify(c):
    ks = ["kind=" + c["kind"]]
    if c["kind"] == "script":
        ks.append("copies=%d" % min(3, sum(1 for op in c["ops"] if op[0] == "c")))
        if any(op[0] == "m" for op in c["ops"]):
            ks.append("returned-dict-edited")
        for f in sorted({op[2] for op in c["ops"] if op[0] == "d" and len(op) > 2 and op[2] != "bin"}):
            ks.append("accessor=" + f + "digest")
        if sum(1 for op in c["ops"] if op[0] == "n") >= 2:
            ks.append("interleaved-hashers")
        if c.get("buf"):
            ks.append("reused-caller-buffer")
        return ks
    if c["kind"] == "shape":
        ks += ["names-container=" + ("default-argument" if c.get("names") is None else c.get("ncont", "list")),
               "data-type=" + c.get("dtype", "bytes"), "read-returns=" + c.get("rtype", "bytes"), "path-type=" + c.get("ptype", "str"),
               "length-type=" + c.get("ltype", "int")]
        if c.get("sname"):
            ks.append("names-str-subclass")
        return ks
    if c["kind"] == "hgd":
        return ks + ["hgd-type=" + (c["type"] if c["type"] in HGD_TYPES else "unknown"), "hgd-base=" + str(c.get("base"))]
    if c["kind"] == "handout":
        n = len(handout_x(c))
        ks += ["handed-out-by=" + c["maker"], "handout-names=" + ("default" if c.get("hnames") is None else "given"),
               "handout-size=" + ("<=64" if n <= 64 else "<=4096" if n <= 4096 else "4097" if n == 4097 else "<block" if n < BLOCK else "block+")]
        for w, r in c["again"]:
            ks.append("again=" + ("prefix" if w.startswith("prefix") else w))
            ks.append("again-route=" + r)
        return ks
    if c["kind"] == "seq":
        return ks + ["seq-contents=%d" % (len(c["pos"]) + 1), "seq-stream-reused" if c.get("reuse") else "seq-fresh-streams"]
    if c["kind"] == "rehash":
        ks.append("rehash=" + c["shape"])
        if c["shape"] == "sequence":
            ks.append("rehash-via=" + c.get("via", "real"))
            for m in c["modes"]:
                ks.append("replace=" + {"a": "in-place,same-length,mtime-restored", "b": "in-place,mtime-changes",
                                        "c": "in-place,other-length,mtime-restored", "d": "rename,new-inode,times-copied"}[m[0]])
        elif c.get("swap"):
            ks.append("rehash-mirror-swap")
        for o in c["orders"]:
            for code in o:
                ks.append("rehash-route=" + code)
        return ks
    if c["kind"] == "stream":
        d = data_of(c["data"])
        rem = remaining_of(c, d)
        pos = len(d) - len(rem)
        ks += ["stream=" + c["cls"], "positioned-by=" + c["how"],
               "stream-pos=" + ("0" if pos == 0 and c["p"] == 0 else "beyond-end" if c["p"] > len(d) else "end" if not rem
                               else "second-block+" if pos >= BLOCK else "inside")]
        if c.get("length", "real") != "real":
            ks.append("stream-length=" + str(c["length"]))
        return ks
    if c["kind"] == "overlap":
        ks += ["overlap=" + c["mode"], "overlap-when=" + (c.get("when", "after") if c["mode"] != "failure" else "n/a"), "overlap-parts=%d" % len(c["parts"])]
        for p in c["parts"]:
            ks.append("overlap-part=" + (p["route"] if p["route"] != "ff" else "stream-" + p.get("stream", "both")))
        if any(len(data_of(p["data"])) > BLOCK for p in c["parts"]):
            ks.append("overlap-multi-block")
        return ks
    n = len(data_of(c["data"]))
    if n <= 2:
        ks.append("len=%d" % n)
    elif any(abs(n - k * BLOCK) <= 2 for k in (1, 2, 3)):
        ks.append("len=block-multiple+-2")
    elif n < BLOCK:
        ks.append("len<block")
    else:
        ks.append("len>block")
    chunks = chunks_of(data_of(c["data"]), c["cuts"])
    ks.append("chunks=%s" % (len(chunks) if len(chunks) < 3 else "3+"))
    if any(len(ch) == 0 for ch in chunks):
        ks.append("empty-chunk")
    if c.get("sched"):
        ks.append("short-reader")
    for f in ("symlink", "fifo", "git", "exec", "subproc"):
        if c.get(f):
            ks.append(f)
    if c.get("maxlen") is not None:
        ks.append("max_content_length")
    if c["kind"] == "names":
        if c["length"] is None:
            ks.append("length=None")
        elif c["length"] != "real":
            ks.append("length=wrong")
        if any(a in BAD_NAMES for a in c["names"]):
            ks.append("unknown-name")
        if len(set(c["names"])) < len(c["names"]):
            ks.append("duplicate-name")
    return ks


def shrink(c):
    if c["kind"] == "script":
        ops = c["ops"]
        for k in range(len(ops) - 1, 0, -1):
            if ops[k][0] in ("u", "m"):
                yield dict(c, ops=ops[:k] + ops[k + 1:])
            if ops[k][0] == "d":          # dropping a digest call renumbers the results the later edits refer to
                rank = sum(1 for o in ops[:k] if o[0] == "d")
                rest = [[o[0], o[1] - 1, o[2]] if o[0] == "m" and o[1] > rank else o for o in ops[k + 1:]
                        if not (o[0] == "m" and o[1] == rank)]
                yield dict(c, ops=ops[:k] + rest)
        for k, op in enumerate(ops):
            if op[0] == "u" and len(op[2]) > 2:
                yield dict(c, ops=ops[:k] + [["u", op[1], op[2][:2]]] + ops[k + 1:])
            if op[0] == "n" and len(op[1]) > 1:
                for a in op[1]:
                    yield dict(c, ops=ops[:k] + [["n", [a], op[2]]] + ops[k + 1:])
        return
    if c["kind"] == "handout":
        def cands():
            if c.get("pre"):
                yield {k: v for k, v in c.items() if k != "pre"}
            if len(c["again"]) > 1:
                for k in range(len(c["again"])):
                    yield dict(c, again=c["again"][:k] + c["again"][k + 1:])
            xb = handout_x(c)
            if len(xb) > 4 and all(r != "dl" for w, r in c["again"]):
                yield dict(c, x={"t": "hex", "v": xb[:4].hex()}, **({"declared": 4 + sum(len(h) // 2 for h in c["ys"])} if c["maker"] == "fresh" else {}))
            if len(c["ys"]) > 1 or len(c["ys"][0]) > 2:
                c2 = dict(c, ys=[c["ys"][0][:2]], after=[["u", 0], ["d", "bin"]])
                if c["maker"] == "fresh":
                    c2["declared"] = len(xb) + 1
                yield c2
            if c.get("hnames") is not None:
                yield dict(c, hnames=None)
        for cand in cands():           # a fresh salt = a fresh x: what earlier evaluations left in the process cannot matter
            yield dict(cand, salt=fresh_salt())
        return
    if c["kind"] == "hgd":
        d = data_of(c["data"])
        if len(d) > 1:
            yield dict(c, data={"t": "hex", "v": d[:1].hex()})
        if "dtype" in c:
            yield {k: v for k, v in c.items() if k != "dtype"}
        return
    if c["kind"] == "seq":
        if len(c["visits"]) > 2:
            for k in range(len(c["visits"])):
                yield dict(c, visits=c["visits"][:k] + c["visits"][k + 1:])
        for k, (idx, rs) in enumerate(c["visits"]):
            if len(rs) > 1:
                for r in rs:
                    yield dict(c, visits=c["visits"][:k] + [[idx, [x for x in rs if x != r]]] + c["visits"][k + 1:])
        d = data_of(c["base"])
        if len(d) > 2:
            yield dict(c, base={"t": "hex", "v": d[:2].hex()})
        if c.get("reuse"):
            yield dict(c, reuse=False)
        return
    if c["kind"] == "shape":
        d = data_of(c["data"])
        for m in (0, 1, 2, len(d) // 2):
            if m < len(d) and not (c.get("ltype") == "bool" and m > 1):
                yield dict(c, data={"t": "hex", "v": d[:m].hex()}, cuts=[])
        for f, v in (("ncont", "list"), ("dtype", "bytes"), ("rtype", "bytes"), ("ptype", "str"), ("ltype", "int"), ("sname", False)):
            if c.get(f, v) != v and not (f == "ltype" and False):
                yield dict(c, **{f: v})
        if c.get("names") and len(c["names"]) > 1:
            for a in c["names"]:
                yield dict(c, names=[a])
        return
    if c["kind"] == "rehash":
        cs = [data_of(sp) for sp in c["contents"]]
        if c["shape"] == "sequence" and len(cs) > 2:                       # drop the last content / the first replacement
            yield dict(c, contents=c["contents"][:-1], modes=c["modes"][:-1], orders=c["orders"][:-1])
            yield dict(c, contents=c["contents"][1:], modes=c["modes"][1:], orders=c["orders"][1:])
        if c["shape"] == "mirror" and c["rounds"] > 2:
            yield dict(c, rounds=2, orders=c["orders"][:4])
        if len({len(x) for x in cs}) == 1 and len(cs[0]) > 1:             # equal lengths: 1-byte contents, kept distinct
            yield dict(c, contents=[{"t": "hex", "v": "%02x" % (65 + j)} for j in range(len(cs))])
        for k, o in enumerate(c["orders"]):
            for code in o:
                if len(o) > 1:
                    yield dict(c, orders=c["orders"][:k] + [[x for x in o if x != code]] + c["orders"][k + 1:])
        if c.get("via", "real") != "real":
            yield dict(c, via="real", orders=[[x for x in o if x != "sp"] or ["df"] for o in c["orders"]])
        return
    if c["kind"] == "stream":
        d = data_of(c["data"])
        for m in (2, 3, len(d) // 2, BLOCK + 2):
            if (1 if c["cls"] == "mmap" else 0) < m < len(d):
                for p in (1, m - 1, min(c["p"], m)):
                    yield dict(c, data={"t": "hex", "v": d[:m].hex()} if m <= 4096 else
                               {"t": "rep", "n": m, "h": d[:1].hex(), "p": d[1:2].hex() or "00", "e": d[-1:].hex()}, p=p)
        for p in (1, c["p"] // 2):
            if 0 < p < c["p"]:
                yield dict(c, p=p)
        for f in ("sched", "names", "length"):
            if f in c:
                c2 = dict(c)
                del c2[f]
                yield c2
        if c["how"] != "seek" and "seek" in STREAM_HOWS[c["cls"]] and (c["cls"] != "mmap" or c["p"] <= len(d)):
            yield dict(c, how="seek")
        return
    if c["kind"] == "overlap":
        parts = c["parts"]
        if len(parts) > 2:
            for k in range(1, len(parts)):
                yield dict(c, parts=parts[:k] + parts[k + 1:])
        for k, p in enumerate(parts):
            d = data_of(p["data"])
            others = {len(data_of(q["data"])) for j, q in enumerate(parts) if j != k}
            for m in (1, 2, len(d) // 2, BLOCK + 1):
                if 0 < m < len(d) and m not in others:
                    yield dict(c, parts=parts[:k] + [dict(p, data={"t": "hex", "v": d[:m].hex()} if m <= 4096 else
                                                     {"t": "rep", "n": m, "h": d[:1].hex(), "p": d[1:2].hex() or "00", "e": d[-1:].hex()})]
                               + parts[k + 1:])
            for f in ("sched", "names", "cuts"):
                if p.get(f):
                    p2 = dict(p)
                    del p2[f]
                    yield dict(c, parts=parts[:k] + [p2] + parts[k + 1:])
            if k > 0 and p["route"] != "fd":
                yield dict(c, parts=parts[:k] + [{"data": p["data"], "route": "fd"}] + parts[k + 1:])
        if c.get("every"):
            yield dict(c, every=1)
        return
    data = data_of(c["data"])
    n = len(data)
    for m in sorted({0, 1, 2, n // 2, n - 1, BLOCK, BLOCK + 1} - {n}):
        if 0 <= m < n:
            for piece in (data[:m], data[n - m:], data[:m // 2] + data[n - (m - m // 2):]):
                c2 = dict(c)
                c2["data"] = {"t": "hex", "v": piece.hex()} if m <= 4096 else \
                             {"t": "rep", "n": m, "h": piece[:1].hex(), "p": piece[1:2].hex() or "00", "e": piece[-1:].hex()}
                for f in ("exec", "git", "subproc"):
                    c2.pop(f, None)
                yield c2
    if c["cuts"]:
        yield dict(c, cuts=[])
        yield dict(c, cuts=c["cuts"][:len(c["cuts"]) // 2])
    if c.get("sched"):
        yield dict(c, sched=[])
    for f in ("symlink", "fifo", "maxlen", "exec", "git"):
        if f in c:
            c2 = dict(c)
            del c2[f]
            yield c2
    if c["kind"] == "names" and len(c["names"]) > 1:
        for a in c["names"]:
            yield dict(c, names=[a])


def pre_checks(ctx):
    """run-time cross-checks of what the model takes from the source as data"""
    from swh.model import hashutil
    bad = []
    if not (isinstance(hashutil.HASH_BLOCK_SIZE, int) and hashutil.HASH_BLOCK_SIZE > 0):
        bad.append(("table:HASH_BLOCK_SIZE", "HASH_BLOCK_SIZE is %r: the read loop needs a positive block size" % (hashutil.HASH_BLOCK_SIZE,)))
    for a in sorted(hashutil.ALGORITHMS):
        try:
            got = hashutil._new_hash(a, 0)
            got.update(b"x")
            base = a[:-4] if a.endswith("_git") else a
            pre = b"blob 0\0" if a.endswith("_git") else b""
            if got.digest() != HL(base, pre + b"x"):
                bad.append(("table:ALGORITHMS", "_new_hash(%r) is not hashlib's %s" % (a, base)))
        except Exception as e:
            bad.append(("table:ALGORITHMS", "_new_hash(%r, 0) raised %r: a member of ALGORITHMS is not usable" % (a, e)))
    return bad


# functions of /repo whose executed-line coverage by this run is reported in the evidence
ANCHORS = [('swh/model/hashutil.py', 'MultiHash.*'),
           ('swh/model/hashutil.py', 'git_object_header'),
           ('swh/model/hashutil.py', '_new_hash'),
           ('swh/model/hashutil.py', 'hash_git_data'),
           ('swh/model/model.py', 'BaseContent._hash_data'),
           ('swh/model/model.py', 'Content.from_data'),
           ('swh/model/model.py', 'SkippedContent.from_data'),
           ('swh/model/from_disk.py', 'Content.from_bytes'),
           ('swh/model/from_disk.py', 'Content.from_file'),
           ('swh/model/from_disk.py', 'Content.from_symlink'),
           ('swh/model/git_objects.py', 'content_git_object'),
           ('swh/model/cli.py', 'swhid_of_file'),
           ('swh/model/cli.py', 'swhid_of_file_content')]


# the case stream is ordered by family (routes, names, scripts) and most route cases are large: coq_cases gets every case and
# keeps the first small ones of each family (it shrinks the list it is given IN PLACE: the evidence's `n` is the number evaluated)
COQ_SAMPLE = 1 << 30
COQ_PER_KIND = 10


def coq_cases(cases):
    """run_route (every route, oracles Hsym and Hexec = executable SHA-1) with `view`, and run_script with from_state_new,
    evaluated by vm_compute inside Coq vs the extracted driver, on cases of at most 300 bytes of data; one checksum per case
    over all its driver requests.  The Coq terms are built from the very request lines the driver receives."""
    from . import core
    chosen = []
    count = {}
    for c in cases:
        k = c["kind"]
        if count.get(k, 0) >= COQ_PER_KIND:
            continue
        if k != "script" and case_bytes(c) > 300:
            continue
        rqs = requests(c)
        if sum(len(r) for r in rqs) > 4000:
            continue
        count[k] = count.get(k, 0) + 1
        chosen.append((c, rqs))
    cases[:] = [c for c, _ in chosen]
    ROUTE = {"fd": "RFromData", "ff": "RFromFile", "fp": "RFromPath", "ch": "RChunked", "hg": "RHashGitData", "cg": "RContentGitObject",
             "mc": "RModelContent", "ms": "RModelSkipped", "db": "RDiskBytes", "df": "RDiskFile", "dl": "RDiskSymlink",
             "do": "RDiskOther", "cf": "RCliFile", "cs": "RCliStdin"}

    def nl(h):
        return "[" + "; ".join("%d" % b for b in core.unhx(h)) + "]%N"
    def lst(sep, f, s):
        return "[" + ("" if s == "~" else "; ".join(f(x) for x in s.split(sep))) + "]"
    def optn(s):
        return "None" if s == "-" else "(Some %d%%N)" % int(s)
    def nat(s):
        return "(N.to_nat %d%%N)" % int(s)
    def op(s):
        w = s.split(":")
        if w[0] == "n":
            return "ONew %s %s" % (lst(",", nl, w[1]), optn(w[2]))
        if w[0] == "u":
            return "OUpdate %s %s" % (nat(w[1]), nl(w[2]))
        return "%s %s" % ({"c": "OCopy", "d": "ODigest"}[w[0]], nat(w[1]))
    def term(rq):
        w = rq.split(" ")
        H = {"sym": "Hsym", "exec": "Hexec"}[w[1]]
        if w[0] == "hgd":
            return "hgd_case %s %s %s %s" % (H, nl(w[2]), nl(w[3]), nl(w[4]))
        if w[0] == "script":
            return "script_case %s %s" % (H, lst("/", op, w[3]))
        return ("run_case %s %s {| i_names := %s; i_length := %s; i_chunks := %s; i_sched := %s; i_maxlen := %s |}"
                % (H, lst(",", lambda r: ROUTE[r], w[2]), lst(",", nl, w[3]), optn(w[4]), lst("|", nl, w[5]), lst(",", nat, w[6]),
                   optn(w[7])))
    src = ("From Coq Require Import List NArith.\nFrom SWH.lib Require Import Bytes.\nFrom SWH.model Require Import Hashutil.\n"
           "Import ListNotations.\n" + core.COQ_CHECKSUM + """
Definition en (e : err) : N := match e with ValueError => 1 | TypeError => 2 | KeyError => 3 | AttributeError => 4 | MissingData => 5
  | OtherException => 6 | OutOfFuel => 7 | ReaderExhausted => 8 | BadHandle => 9 end%N.
Definition optn (o : option N) : list N := match o with Some x => [343%N; x] | None => [344%N] end.
Definition dict (show : list N -> list N) (d : digest_t) : list N :=
  optn (snd d) ++ concat (map (fun kv : list N * list N => fst kv ++ [340%N] ++ show (snd kv)) (fst d)).
Definition show_view (data x : list N) : list N := let (p, t) := view data x in p ++ [if t then 341%N else 342%N].
Definition run_case (H : list N -> list N -> list N) (rs : list route) (i : input) : list N :=
  concat (map (fun r => match run_route H r i with Ok d => 70%N :: dict (show_view (i_data i)) d | Err e => [71%N; en e] end) rs).
Definition hgd_case (H : list N -> list N -> list N) (ty base data : list N) : list N :=
  match hash_git_data H data ty base with Ok v => 70%N :: dict (show_view data) ([(SHA1_GIT, v)], None) | Err e => [71%N; en e] end.
Definition script_case (H : list N -> list N -> list N) (ops : list op) : list N :=
  concat (map (fun ev => match ev with EvDone => [72%N] | EvErr e => [71%N; en e]
                                     | EvDigest d => 73%N :: dict (fun x => x ++ [342%N]) d end)
              (run_script H from_state_new [] [] ops)).
""" + "Definition cases : list (list (list N)) := [" +
           ";\n ".join("[" + ";\n  ".join(term(r) for r in rqs) + "]" for _, rqs in chosen) + "].\n"
           "Eval vm_compute in map (fun rs => cksum (map cksum rs)) cases.\n")
    EN = {"ValueError": 1, "TypeError": 2, "KeyError": 3, "AttributeError": 4, "MissingData": 5, "Other(Exception)": 6, "OutOfFuel": 7,
          "ReaderExhausted": 8, "BadHandle": 9}
    def optn_py(s):
        return [344] if s == "-" else [343, int(s)]
    def dict_py(s):
        ln, kvs = s.split(":")
        out = optn_py(ln)
        for kv in (kvs.split(",") if kvs else []):
            k, v = kv.split("=")
            out += list(core.unhx(k)) + [340] + (list(core.unhx(v[:-1] or ".")) + [341] if v.endswith("+") else list(core.unhx(v)) + [342])
        return out
    def answer(rq, r):
        assert r.startswith("ok"), r
        body = r[3:]
        out = []
        if rq.startswith("script"):
            for ev in (body.split(";") if body else []):
                out += [72] if ev == "done" else [71, EN[ev[2:]]] if ev.startswith("E:") else [73] + dict_py(ev[2:])
            return out
        for item in body.split(";"):
            res = item.split("=", 1)[1]
            out += [71, EN[res[2:]]] if res.startswith("E:") else [70] + dict_py(res[2:])
        return out
    flat = [r for _, rqs in chosen for r in rqs]
    resp = iter(core.run_driver(ID, flat))
    exp = [core.py_cksum([core.py_cksum(answer(rq, next(resp))) for rq in rqs]) for _, rqs in chosen]
    return src, exp
