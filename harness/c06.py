"""C06 - a directory read from disk gets the id git gives the same tree
(from_disk.Directory.from_disk, Content.from_file, mode_to_perms, cli)."""
import hashlib
import os
import re
import subprocess
import tempfile
import warnings

from .core import exc_class, hx
from .fstree import (CONCURRENT_NOTE, REENTRANT_NOTE, concurrent_trees, gen_concurrent, run_together, trees_on_disk,
                     CHAIN_FILE, CHAIN_NAME, apply_ops, apply_ops_memory, ref_entries, wide_tree, collect_ids, count_nodes, enc_chain, enc_tree, gen_reread, gen_spelling,
                     gen_tree, has_kind, impl_chain, mutate_tree, on_disk, other_spelling, ref_chain, ref_ids, shrink_tree,
                     shuffled_scandir, spelled_root, subdirs)

ID = "C06"
PROPS = "Props/C06.v"
EXTRACT = "extract/ExC06.v"
OBLIGATION = "Directory.from_disk"
CASE_TIMEOUT = 60
SHRINK_BUDGET = 25
THEOREMS = ["C06_is_git_tree", "C06_walk_refines", "C06_walk_refines_paths", "C06_walk_total", "C06_listing_order_free",
            "C06_trailing_slash", "C06_trailing_slash_root", "C06_norm_path_only_strips_slashes",
            "C06_model_has_no_depth_limit", "C06_chain_id", "C06_symlink_never_followed", "C06_special_is_empty_file",
            "C06_exec_bit", "C06_perms_table", "C06_empty_ignored_is_git", "C06_satisfiable",
            "C06_iter_total", "C06_iter_refines_recursive", "C06_iter_same_ids", "C06_iter_satisfiable",
            "C06_leaf_ids_are_C01_blob_ids"]
RULE = ("random file-system trees (depth <= 5, <= 120 nodes) materialised in a temporary directory: adversarial byte names "
        "(non-UTF-8, spaces, newlines, names colliding with directories in sort order), file sizes 0..1000 plus a few "
        "around the 32768-byte read block, ten permission patterns, relative/absolute/dangling/self symlinks and links to "
        "directories, fifos, empty directories; each tree is read 3 times under a wrapper that shuffles os.scandir, with "
        "0-3 trailing slashes, and through the CLI; the ROOT PATH given to from_disk is a case dimension (half of the cases): "
        "relative / './', '/./', 'x/../' through a real directory, doubled slashes inside, through a symbolic link to an "
        "ancestor, the root itself a symbolic link (also followed by '/', '/.'), '<dir>/<link>/../<name>' where the link "
        "points elsewhere so that the lexically collapsed path designates nothing or a DIFFERENT tree (decoy), relative "
        "versions of these, an absolute path whose first component is a symbolic link; the reference is always the tree "
        "that was materialised (what the OS designates), never a normalised path; DEEP CHAINS: a small tree at the bottom of "
        "N nested directories (optionally a file at every k-th level), N in {200, 500, 900} (must agree with an iterative "
        "bottom-up reference and with the model's root id, also with empty directories ignored, shuffled listing, a "
        "spelled root path and the CLI) and N in {1000, 1500} (above the interpreter's recursion limit: open known "
        "finding tree-deeper-than-recursion-limit, demonstrated), more depths and fan-out at the bottom in the thorough "
        "tier; built, encoded, hashed and removed iteratively, the recursion limit is never raised around the library; "
        "every tree is read with the default path_filter, with accept_all_paths and with the deprecated accept_all_directories "
        "given explicitly, once with a progress_callback (one positive count per non-empty directory, adding up to the number "
        "of entries); nodes are also fetched through nested '/' keys (d[b'a/b/c'], `in`, d[b''], a missing key is a "
        "KeyError) and the `entries` property of every directory is compared with the reference entries in git order and "
        "with to_model(); special files are fifos, unix sockets and character devices, modes include 0, set-uid/gid and "
        "sticky bits, names up to 255 bytes, one directory with 300 entries (thorough: up to 1000); IN-MEMORY EDITS (20 % "
        "of the cases): the edits below done on the Directory through its dict interface with nested keys "
        "(d[key] = Content.from_bytes(..) / Directory(), del d[key], move) after everything was hashed; "
        "CONCURRENT READS (5 cases, thorough 40): 2-4 trees (the small tree plus 2-4 files of 70 kB - 512 kB whose bytes differ per "
        "tree) read in as many threads released together behind a barrier, 3-5 rounds, bounded joins - or nested in one "
        "thread (a complete from_disk of tree B started from the path_filter / progress_callback of the scan of tree A); every "
        "result is compared with the reference ids of its own tree (independent hashlib reference; the model checks that "
        "reference on the base tree); "
        "RE-READ (30 % of the cases): after the reads above the tree is modified in place - files rewritten with other bytes "
        "of the same length and atime/mtime restored, exec bits flipped, file <-> symlink, directory -> file, entries added "
        "and removed, a directory renamed (same inode), two same-size files swapped - or removed and built again at the "
        "same path with other bytes of the same sizes and the old times, then read again in the same process under two "
        "spellings: the ids must be those of the tree as it is now (independent reference on the modified tree, and the model); "
        "non-trivial = >=1 sub-directory and >=1 non-regular or executable entry")
TRUSTED = ["the OS layer (scandir, lstat, readlink, mkfifo, chmod) is exercised, not modelled: the model receives the tree as data",
           "lib/Sha1.v as an instance of the hash oracle"]
ASSUMPTIONS = ["names within a directory are distinct, non-empty, free of '/' and NUL (what a POSIX directory can hold)",
               "depth: the model and the theorems have no depth limit (C06_model_has_no_depth_limit); the IMPLEMENTATION reads "
               "trees of depth < the interpreter's recursion limit only (measured: 986 nested directories work, 987 raise "
               "RecursionError) - open known finding tree-deeper-than-recursion-limit; a RecursionError on a chain of more "
               "than %d directories is reported as that finding, every other outcome (a wrong id at any depth, a "
               "RecursionError on a shallower tree, another exception) is a violation" % 940,
               "which directory a path designates (symbolic links, '..', '.', doubled slashes in it) is resolved by the operating "
               "system: the model only strips trailing slashes (C06_norm_path_only_strips_slashes); the spellings of the root "
               "path are exercised by the correspondence check, not modelled",
               "agreement with `git write-tree` is validation of the spec-level definition (thorough tier), not a theorem"]


def gen(rng, tier):
    n = 90 if tier == "quick" else 2500
    small = {"t": "D", "c": [["61", {"t": "D", "c": []}], ["612e62", {"t": "R", "d": "00", "m": 0o644}], ["6c", {"t": "L", "x": "61"}]]}
    cases = [{"tree": {"t": "D", "c": []}, "seed": 1, "slashes": 0},
             {"tree": small, "seed": 2, "slashes": 2},
             {"tree": small, "seed": 3, "slashes": 0, "spelling": "linkup_decoy"},
             {"tree": small, "seed": 4, "slashes": 1, "spelling": "linkup_none"},
             {"tree": small, "seed": 5, "slashes": 0, "spelling": "rootlink_dot"},
             # names are bytes: a decomposed name, its composed (NFC) twin, a singleton (ANGSTROM SIGN) next to its NFC form
             {"tree": {"t": "D", "c": [[b"e\xcc\x81".hex(), {"t": "R", "d": b"decomposed".hex(), "m": 0o644}],
                                      [b"\xc3\xa9".hex(), {"t": "D", "c": [[b"\xe2\x84\xab".hex(), {"t": "R", "d": "41", "m": 0o755}],
                                                                             [b"\xc3\x85".hex(), {"t": "L", "x": b"A\xcc\x8a".hex()}]]}]]},
              "seed": 9, "slashes": 0, "spelling": "real"},
             {"tree": small, "seed": 6, "slashes": 0, "spelling": "firstlink"}]
    for k in range(n):
        opts = {}
        if k % 15 == 0:
            opts["sizes"] = [32767, 32768, 32769, 70000, 0, 1]
        t = gen_tree(rng, opts=opts)
        while opts and coq_tree_bytes(t) > 200000:      # the extracted SHA-1 runs at ~100 kB/s and every request hashes the tree
            t = gen_tree(rng, budget=[rng.choice([3, 8, 20])], opts=opts)
        if k % 6 == 1:
            # the name of the root directory itself ("root") occurs again deeper, next to same-named siblings
            lib = {"t": "D", "c": [[b"root".hex(), {"t": "D", "c": [[b"docs".hex(), {"t": "D", "c": []}]]}],
                                   [b"docs".hex(), {"t": "D", "c": [[b"f".hex(), {"t": "R", "d": b"x".hex(), "m": 0o644}]]}]]}
            if b"lib".hex() not in [n for n, _ in t["c"]]:
                t["c"].append([b"lib".hex(), lib])
        rr = gen_reread(rng, 0.3)
        if opts:
            rr = None       # trees with files around / above the 32768-byte block: the extracted SHA-1 is slow, no second tree
        cases.append({"tree": t, "seed": rng.randrange(10**6), "slashes": rng.choice([0, 0, 1, 3]), "spelling": gen_spelling(rng),
                      "reread": rr})
        if rr is None and not opts and rng.random() < 0.3:
            # the same kind of edits done IN MEMORY through the dict interface of the Directory (nested '/' keys)
            cases[-1]["memedit"] = {"seed": rng.randrange(10**6), "n": rng.randrange(1, 6), "mode": "edit"}
    for _ in range(1 if tier == "quick" else 8):
        cases.insert(8, {"tree": wide_tree(rng, 300 if tier == "quick" else rng.choice([100, 300, 1000])), "seed": rng.randrange(10**6),
                         "slashes": 0, "spelling": "real"})
    cases[2:2] = [{"tree": small, "seed": 7, "slashes": 0, "spelling": "real", "reread": {"seed": s_, "n": 4, "mode": m_}}
                  for s_, m_ in ((1, "edit"), (2, "edit"), (3, "rebuild"))]
    deep3 = {"t": "D", "c": [["61", {"t": "D", "c": [["62", {"t": "D", "c": [["63", {"t": "D", "c": [["64", {"t": "R", "d": "78", "m": 0o4755}]]}],
                                                                               ["65", {"t": "S", "m": 0o644, "k": "sock"}]]}]]}],
                             ["66", {"t": "S", "m": 0o755, "k": "chr"}], ["67", {"t": "R", "d": "", "m": 0}]]}
    cases[2:2] = [{"tree": deep3, "seed": 8, "slashes": 0, "spelling": "real", "memedit": {"seed": s_, "n": 5, "mode": "edit"}} for s_ in (1, 2, 3)]
    # several trees read at the same time (threads) / nested in one thread (re-entrancy)
    for i in range(5 if tier == "quick" else 40):
        cases.insert(9 + i * max(1, len(cases) // 7), {"tree": small, "seed": rng.randrange(10**6), "slashes": 0, "spelling": "real",
                                                        "concurrent": gen_concurrent(rng, ["threads", "threads", "reentrant", "threads", "reentrant"][i % 5])})
    # deep chains: below the recursion limit (must pass) and above it (known finding)
    chains = [(200, 7, "linkup_rel", 1), (500, 0, "real", 0), (900, 250, "real", 0), (1000, 0, "real", 0), (1500, 400, "rootlink", 0)]
    if tier != "quick":
        chains += [(rng.randrange(50, 930), rng.choice([0, 3, 50]), gen_spelling(rng), rng.choice([0, 2])) for _ in range(12)]
        chains += [(1200, 0, "vialink", 0), (1400, 100, "real", 1)]
    for i, (n_, k_, sp, sl) in enumerate(chains):
        bottom = small if (tier == "quick" or i % 2 == 0) else _chain_bottom(gen_tree(rng, budget=[20]))
        cases.insert(6 + i * max(1, len(cases) // (len(chains) + 1)),
                     {"tree": bottom, "chain": n_, "chain_file": k_, "seed": rng.randrange(10**6), "slashes": sl, "spelling": sp})
    return cases


DEPTH_FINDING_FLOOR = 940       # measured on /repo: 986 nested directories are read, 987 raise (default limit, shallow stack)
FINDING_DEEP = "tree-deeper-than-recursion-limit"


def _is_chain(c):
    return bool(c.get("chain"))


def _chain_bottom(t):
    """the chain helpers follow the entry "d": the bottom tree must not have its own top-level d / f"""
    return {"t": "D", "c": [[n, ch] for n, ch in t["c"] if bytes.fromhex(n) not in (CHAIN_NAME, CHAIN_FILE)]}


def _exec_or_special(t):
    if t["t"] in ("L", "S"):
        return True
    if t["t"] == "R":
        return bool(t["m"] & 0o111)
    return any(_exec_or_special(c) for _, c in t["c"])


def nontrivial(c):
    if _is_chain(c) or c.get("concurrent"):
        return True
    t = c["tree"]
    return bool(subdirs(t)) and _exec_or_special(t)


def classify(c):
    t = c["tree"]
    n = count_nodes(t)
    ks = ["nodes=%s" % ("1" if n == 1 else "2-10" if n <= 10 else "11-40" if n <= 40 else ">40")]
    for k, name in (("L", "symlink"), ("S", "special"), ("D", "dir")):
        if has_kind({"t": "D", "c": [x for x in t["c"]]}, k) and (k != "D" or subdirs(t)):
            ks.append(name)
    if c["slashes"]:
        ks.append("trailing-slash")
    ks.append("root=" + c.get("spelling", "real"))
    if c.get("reread"):
        ks.append("reread-after-" + c["reread"].get("mode", "edit"))
    if c.get("memedit"):
        ks.append("in-memory-edits")
    if c.get("concurrent"):
        ks.append("concurrent-" + c["concurrent"]["mode"])
    if t["t"] == "D" and len(t["c"]) >= 100:
        ks.append("fan-out>=100")
    if _is_chain(c):
        ks.append("chain-depth=" + ("<=500" if c["chain"] <= 500 else "501-%d" % DEPTH_FINDING_FLOOR if c["chain"] <= DEPTH_FINDING_FLOOR
                                    else ">%d" % DEPTH_FINDING_FLOOR))
    return ks


def _impl_chain(c):
    """a deep chain: every observation is made iteratively (level by level); the recursion limit is left alone"""
    from swh.model.from_disk import Directory
    from swh.model import from_disk as _fd
    res = {}
    n = c["chain"]
    with spelled_root(c["tree"], c.get("spelling", "real"), c) as (spelled, _tmp, root):
        try:
            d = Directory.from_disk(path=root)
            res["chain"] = impl_chain(d, n)
            res["swhid"] = str(d.swhid())
            with shuffled_scandir(c["seed"]):
                d2 = Directory.from_disk(path=spelled + b"/" * c["slashes"])
            res["shuffled_equal"] = impl_chain(d2, n) == res["chain"]
            res["root_ignore_empty"] = Directory.from_disk(path=root, path_filter=_fd.ignore_empty_directories).hash.hex()
        except Exception as e:
            res["error"] = exc_class(e) + ":" + str(e)[:80]
            return res
        if n <= 900:
            try:
                from click.testing import CliRunner
                from swh.model import cli
                r = CliRunner().invoke(cli.identify, ["--no-filename", os.fsdecode(root) + "/" * c["slashes"]])
                res["cli"] = r.output.strip() if r.exit_code == 0 else "exit %d %s" % (r.exit_code, exc_class(r.exception) if r.exception else "")
            except Exception as e:
                res["cli"] = "error:" + exc_class(e)
    return res


def _access_facts(d, t):
    """nested '/' keys (d[b"a/b/c"], b"a/b" in d, d[b""]), the `entries` property / child_to_directory_entry of every directory"""
    bad = []
    ids = ref_ids(t)
    if d[b""] is not d:
        bad.append('d[b""] is not d')
    paths = sorted(ids)
    step = max(1, len(paths) // 60)
    for p in paths[::step]:
        if not p:
            continue
        try:
            if p not in d:
                bad.append("%r in d is False" % p)
            elif d[p].hash.hex() != ids[p]:
                bad.append("d[%r].hash is not the id of that node" % p)
            if (p + b"/zz-no-such-entry") in d if hasattr(d[p], "entries") else False:
                bad.append("a missing key is reported present below %r" % p)
        except Exception as e:
            bad.append("d[%r] raised %s" % (p, exc_class(e)))
    try:
        d[b"zz-no-such-entry/x"]
        bad.append("a missing nested key did not raise")
    except KeyError:
        pass
    except Exception as e:
        bad.append("a missing nested key raised %s, not KeyError" % exc_class(e))

    def dirs(n, prefix):
        yield prefix, n
        for nm, ch in n["c"]:
            if ch["t"] == "D":
                yield from dirs(ch, prefix + b"/" + bytes.fromhex(nm) if prefix else bytes.fromhex(nm))
    alld = list(dirs(t, b""))
    for prefix, n in alld[::max(1, len(alld) // 40)]:
        node = d[prefix]
        got = [(e["name"], str(e["type"]), int(e["perms"]), e["target"].hex()) for e in node.entries]
        if got != ref_entries(n, ids, prefix):
            bad.append("entries of %r are not the directory's entries in git order" % prefix)
        if got != [(e.name, str(e.type), int(e.perms), e.target.hex()) for e in node.to_model().entries]:
            bad.append("entries and to_model().entries of %r differ" % prefix)
    return bad[:5]


def _impl_concurrent(c):
    """k trees (big files, different bytes) read at the same time: in k threads, or nested in one thread"""
    from swh.model.from_disk import Directory
    cc = c["concurrent"]
    trees = concurrent_trees(c)
    want = [{hx(k): v for k, v in ref_ids(t).items()} for t in trees]
    res = {"wrong": [], "errors": [], "hang": False}
    with trees_on_disk(trees) as roots:
        def read(i, **kw):
            return {hx(k): v for k, v in collect_ids(Directory.from_disk(path=roots[i], **kw)).items()}
        for rnd in range(cc["rounds"]):
            if cc["mode"] == "threads":
                got, errs, hang = run_together([(lambda i=i: read(i)) for i in range(len(roots))])
            else:
                inner = {}

                def nested(*a):
                    if not inner:
                        inner["pending"] = True
                        inner["ids"] = read(1)
                    return True
                try:
                    outer = read(0, path_filter=nested) if cc["via"] == "filter" else read(0, progress_callback=nested)
                    got, errs, hang = [outer, inner.get("ids")], [], False
                except Exception as e:
                    got, errs, hang = [None, None], [exc_class(e) + ":" + str(e)[:80]], False
            res["errors"] += errs
            res["hang"] = res["hang"] or hang
            for i, g in enumerate(got):
                if g is not None and g != want[i]:
                    diff = sorted(k for k in set(g) | set(want[i]) if g.get(k) != want[i].get(k))[:3]
                    res["wrong"].append("round %d, tree %d: ids differ at %s" % (rnd, i, diff))
                elif g is None and not errs and not hang:
                    res["wrong"].append("round %d, tree %d: no result" % (rnd, i))
            if res["wrong"] or res["errors"] or res["hang"]:
                break
    res["wrong"] = res["wrong"][:4]
    return res


def impl(c):
    if c.get("concurrent"):
        return _impl_concurrent(c)
    if _is_chain(c):
        return _impl_chain(c)
    from swh.model.from_disk import Directory
    res = {}
    # root = the plain real path of the materialised tree (reference reads); spelled = the same directory as the case spells it
    with spelled_root(c["tree"], c.get("spelling", "real")) as (spelled, _tmp, root):
        try:
            d = Directory.from_disk(path=root)
            res["ids"] = {hx(k): v for k, v in collect_ids(d).items()}
            res["swhid"] = str(d.swhid())
            orders = []
            from swh.model import from_disk as _fd
            progress = []
            # the default path_filter above; here the two "accept everything" filters given explicitly (the second is the
            # deprecated accept_all_directories) and, once, a progress_callback: none of this may change an id
            for s, kw in enumerate(({"path_filter": _fd.accept_all_paths, "progress_callback": progress.append},
                                    {"path_filter": _fd.accept_all_directories, "max_content_length": None, "progress_callback": None})):
                with shuffled_scandir(c["seed"] + s), warnings.catch_warnings():
                    warnings.simplefilter("ignore")
                    d2 = Directory.from_disk(path=spelled + b"/" * c["slashes"], **kw)
                orders.append({hx(k): v for k, v in collect_ids(d2).items()})
            res["progress"] = [v if type(v) is int else repr(v) for v in progress]
            res["access_bad"] = _access_facts(d, c["tree"])
            with shuffled_scandir(c["seed"] + 7):
                res["root_ignore_empty"] = Directory.from_disk(path=root, path_filter=_fd.ignore_empty_directories).hash.hex()
            # the same directory designated by a RELATIVE path (with and without trailing slash)
            cwd = os.getcwd()
            try:
                os.chdir(os.path.dirname(root))
                rel = os.path.basename(root)
                res["relative_equal"] = (
                    {hx(k): v for k, v in collect_ids(Directory.from_disk(path=rel)).items()} == res["ids"]
                    and Directory.from_disk(path=rel + b"/" * c["slashes"], path_filter=_fd.ignore_empty_directories).hash.hex()
                    == res["root_ignore_empty"])
            finally:
                os.chdir(cwd)
            res["shuffled_equal"] = all(o == res["ids"] for o in orders)
            if not res["shuffled_equal"]:
                res["shuffled_ids"] = orders
        except Exception as e:
            res["error"] = exc_class(e) + ":" + str(e)[:80]
            return res
        try:
            from click.testing import CliRunner
            from swh.model import cli
            r = CliRunner().invoke(cli.identify, ["--no-filename", os.fsdecode(root) + "/" * c["slashes"]])
            res["cli"] = r.output.strip() if r.exit_code == 0 else "exit %d %s" % (r.exit_code, exc_class(r.exception) if r.exception else "")
        except Exception as e:
            res["cli"] = "error:" + exc_class(e)
        if c.get("memedit"):
            try:
                dm = Directory.from_disk(path=root)
                dm.hash                                  # everything is hashed (and cached) before the edits
                apply_ops_memory(dm, mutate_tree(c["tree"], c["memedit"])[1], c["tree"])
                res["reread_ids"] = {hx(k): v for k, v in collect_ids(dm).items()}
                res["reread_equal"] = True
            except Exception as e:
                res["reread_error"] = exc_class(e) + ":" + str(e)[:80]
        if c.get("reread"):
            # the tree is now modified IN PLACE (or removed and built again at the same path) and read again, in the same
            # process: nothing may be carried over from the reads above
            try:
                t2, ops = mutate_tree(c["tree"], c["reread"])
                apply_ops(ops, root, t2)
                r1 = {hx(k): v for k, v in collect_ids(Directory.from_disk(path=spelled + b"/" * c["slashes"])).items()}
                r2 = {hx(k): v for k, v in collect_ids(Directory.from_disk(path=other_spelling(spelled, root))).items()}
                res["reread_ids"] = r1
                res["reread_equal"] = r1 == r2
            except Exception as e:
                res["reread_error"] = exc_class(e) + ":" + str(e)[:80]
    return res


def requests(c):
    if c.get("concurrent"):     # the trees with the big files go to the independent reference only (the extracted SHA-1 hashes
        return ["spec " + enc_tree(c["tree"])]      # ~100 kB/s); the model validates that reference on the small base tree
    if _is_chain(c):
        t = enc_chain(c)
        if c["chain"] > DEPTH_FINDING_FLOOR:    # the implementation is expected to give up: the model's root id is all that is used
            return ["rootid all - id " + t]
        return ["rootid all - id " + t, "rootid all - rev " + t, "spec " + t, "pruned empty " + t, "rootid empty - id " + t]
    t = enc_tree(c["tree"])
    # the last request goes through the literal stack/queue model (from_disk_iter) with the listing reversed
    rq = ["ids all - id " + t, "ids all - rev " + t, "spec " + t, "pruned empty " + t, "ids empty - id " + t,
          "iterids empty - rev " + t]
    if c.get("reread") or c.get("memedit"):
        t2 = enc_tree(mutate_tree(c["tree"], c.get("reread") or c["memedit"])[0])
        rq += ["ids all - id " + t2, "spec " + t2]
    return rq


def model(c, resp):
    if c.get("concurrent"):
        p = resp[0].split(" ")
        return {"node_id": p[1], "git_node_id": p[2], "wf": p[3]}
    if _is_chain(c):
        def rid(r):
            return r[3:] if r.startswith("ok ") else r
        if len(resp) == 1:
            return {"rootid": rid(resp[0]), "root_only": True}
        p = resp[2].split(" ")
        return {"rootid": rid(resp[0]), "rootid_rev": rid(resp[1]), "node_id": p[1], "git_node_id": p[2], "wf": p[3],
                "pruned_empty_id": resp[3].split(" ")[1], "root_ignore_empty": rid(resp[4])}

    def ids(r):
        if not r.startswith("ok "):
            return r
        return dict(kv.split("=") for kv in r[3:].split(";"))
    res = {"ids": ids(resp[0]), "ids_rev": ids(resp[1])}
    p = resp[2].split(" ")
    res["node_id"], res["git_node_id"], res["wf"] = p[1], p[2], p[3]
    res["pruned_empty_id"] = resp[3].split(" ")[1]          # git id of the tree with empty directories physically removed
    e = ids(resp[4])
    res["root_ignore_empty"] = e.get(".") if isinstance(e, dict) else str(e)
    res["ids_empty"], res["iterids_empty"] = e, ids(resp[5])
    if c.get("reread") or c.get("memedit"):
        res["reread_ids"] = ids(resp[6])
        res["reread_git_node_id"] = resp[7].split(" ")[2]
    return res


def _oracle_chain(c, ires, mres):
    if "error" in ires:
        return "from_disk raised %s on a chain of %d nested directories" % (ires["error"], c["chain"])
    ref = ref_chain(c)
    if mres.get("root_only"):       # a chain above the floor that the implementation DID read: the reference decides
        mres = dict(mres, git_node_id=ref["levels"][0], pruned_empty_id=ires["root_ignore_empty"])
    if ires["chain"] != ref:
        a, b = ires["chain"]["levels"], ref["levels"]
        if len(a) != len(b):
            return "the chain read has %d levels, the tree has %d" % (len(a), len(b))
        lv = [i for i in range(len(a)) if a[i] != b[i]]
        return "ids differ from the bottom-up reference at levels %s / in the bottom tree" % lv[-3:]
    root = ires["chain"]["levels"][0]
    if root != mres["git_node_id"]:
        return "root id %s is not the git tree id %s of this tree" % (root, mres["git_node_id"])
    if not ires["shuffled_equal"]:
        return "ids of a deep chain depend on listing order, trailing slashes or the spelling of the path (%s)" % c.get("spelling", "real")
    if ires["root_ignore_empty"] != mres["pruned_empty_id"]:
        return "with empty directories ignored the root id of a deep chain is not the git tree id of the pruned tree"
    if ires["swhid"] != "swh:1:dir:" + root:
        return "swhid() does not carry the root id"
    if "cli" in ires and ires["cli"] != "swh:1:dir:" + root:
        return "the command line prints %r, the library computes swh:1:dir:%s" % (ires["cli"], root)
    return None


def finding_key(c, ires, mres, verdict):
    """open known finding: exactly a chain deeper than the measured threshold whose read ends in RecursionError while the
    model answers an id; anything else stays a violation"""
    if (_is_chain(c) and c["chain"] > DEPTH_FINDING_FLOOR and verdict.get("kind") == "property-violation"
            and str(ires.get("error", "")).startswith("Other(RecursionError)")
            and isinstance(mres, dict) and re.fullmatch(r"[0-9a-f]{40}", str(mres.get("rootid", "")))):
        return FINDING_DEEP
    return None


def _oracle_concurrent(c, ires):
    cc = c["concurrent"]
    note = CONCURRENT_NOTE % (cc["threads"], cc["rounds"]) if cc["mode"] == "threads" else REENTRANT_NOTE
    if ires.get("hang"):
        return "a read did not finish within 60 s " + note
    if ires.get("errors"):
        return "from_disk raised %s %s" % (ires["errors"][:2], note)
    if ires.get("wrong"):
        return "the ids of a tree are not the git ids of that tree: %s %s" % ("; ".join(ires["wrong"][:2]), note)
    return None


def oracle(c, ires, mres):
    if c.get("concurrent"):
        return _oracle_concurrent(c, ires)
    if _is_chain(c):
        return _oracle_chain(c, ires, mres)
    if "error" in ires:
        return "from_disk raised " + ires["error"]
    root = ires["ids"]["."]
    if root != mres["git_node_id"]:
        return "root id %s is not the git tree id %s of this tree (spec-level encoder with git's ordering rule)" % (root, mres["git_node_id"])
    if not ires.get("relative_equal", True):
        return "ids depend on whether the directory is given by an absolute or a relative path"
    if not ires["shuffled_equal"]:
        return ("ids depend on the order in which the OS lists entries, on trailing slashes, or on how the path of the directory "
                "is spelled (%s)" % c.get("spelling", "real"))
    if ires["root_ignore_empty"] != mres["pruned_empty_id"]:
        return ("with empty directories ignored the root id %s is not the git tree id %s of the tree without its (recursively) "
                "empty directories, i.e. what `git add -A && git write-tree` gives" % (ires["root_ignore_empty"], mres["pruned_empty_id"]))
    if ires["swhid"] != "swh:1:dir:" + root:
        return "swhid() does not carry the root id"
    if ires["cli"] != "swh:1:dir:" + root:
        return "the command line prints %r, the library computes swh:1:dir:%s" % (ires["cli"], root)
    if ires.get("access_bad"):
        return "; ".join(ires["access_bad"][:3])
    pg = ires.get("progress", [])
    if any(type(v) is not int or v <= 0 for v in pg) or sum(v for v in pg if type(v) is int) != count_nodes(c["tree"]) - 1:
        return ("progress_callback got %s: not one positive entry count per non-empty directory adding up to the %d entries of the tree"
                % (pg[:8], count_nodes(c["tree"]) - 1))
    if c.get("reread") or c.get("memedit"):
        how = "on disk, in place (%s)" % c["reread"].get("mode", "edit") if c.get("reread") else "in memory through the dict interface"
        if "reread_error" in ires:
            return "reading / editing the tree again (%s) raised %s" % (how, ires["reread_error"])
        want = {hx(k): v for k, v in ref_ids(mutate_tree(c["tree"], c.get("reread") or c["memedit"])[0]).items()}
        if ires["reread_ids"] != want:
            a = ires["reread_ids"]
            diff = sorted(k for k in set(a) | set(want) if a.get(k) != want.get(k))[:4]
            return ("after the tree was modified %s the ids are not those of the tree as it is now: "
                    "differs at paths %s" % (how, diff))
        if ires["reread_ids"]["."] != mres["reread_git_node_id"]:
            return "the root id of the second read is not the git tree id of the modified tree"
        if not ires["reread_equal"]:
            return "two spellings of the same root give different ids on the second read"
    return None


def compare(c, ires, mres):
    if c.get("concurrent"):
        if mres["wf"] != "1" or mres["node_id"] != mres["git_node_id"]:
            return "MODEL: base tree of a concurrent case (model / harness bug)"
        if ref_ids(c["tree"])[b""] != mres["git_node_id"]:
            return "the harness's reference id of the base tree differs from the model's git_node_id (reference bug)"
        return None
    if _is_chain(c):
        if mres.get("root_only"):
            return None if mres["rootid"] == ires["chain"]["levels"][0] else "root id of a deep chain differs between model and implementation"
        if mres["wf"] != "1":
            return "generated chain is not well-formed for the model (harness bug)"
        if mres["node_id"] != mres["git_node_id"] or mres["rootid"] != mres["rootid_rev"] or mres["rootid"] != mres["node_id"]:
            return "MODEL: rootid / node_id / git_node_id of a deep chain disagree (model bug)"
        if mres["rootid"] != ires["chain"]["levels"][0]:
            return "root id of a deep chain differs between model and implementation"
        if mres["root_ignore_empty"] != ires["root_ignore_empty"]:
            return "root id with ignore_empty_directories differs between model and implementation (deep chain)"
        return None
    if mres["wf"] != "1":
        return "generated tree is not well-formed for the model (harness bug)"
    if mres["node_id"] != mres["git_node_id"]:
        return "MODEL: node_id differs from git_node_id (model bug)"
    if not isinstance(mres["ids"], dict):
        return "model failed: " + str(mres["ids"])
    if mres["ids"] != mres["ids_rev"]:
        return "MODEL is listing-order dependent (model bug)"
    if mres["iterids_empty"] != mres["ids_empty"]:
        return "MODEL: the literal stack/queue model (from_disk_iter) and the recursive model disagree (model bug): %s" % str(mres["iterids_empty"])[:60]
    if mres["root_ignore_empty"] != ires["root_ignore_empty"]:
        return "root id with ignore_empty_directories differs between model and implementation"
    if mres["ids"] != ires["ids"]:
        a, b = mres["ids"], ires["ids"]
        diff = [k for k in set(a) | set(b) if a.get(k) != b.get(k)]
        return "node ids differ between model and implementation at paths %s" % sorted(diff)[:4]
    if (c.get("reread") or c.get("memedit")) and mres["reread_ids"] != ires.get("reread_ids"):
        return "node ids of the re-read (modified) tree differ between model and implementation"
    return None


def shrink(c):
    if c.get("concurrent"):
        cc = c["concurrent"]
        if len(cc["big"]) > 1:
            yield dict(c, concurrent=dict(cc, big=cc["big"][:-1]))
        if cc["threads"] > 2:
            yield dict(c, concurrent=dict(cc, threads=cc["threads"] - 1))
        return
    if _is_chain(c):
        yield dict(c, chain=c["chain"] // 2)
        yield dict(c, chain=c["chain"] - 1)
        if c.get("chain_file"):
            yield dict(c, chain_file=0)
    for t in shrink_tree(c["tree"]):
        yield dict(c, tree=t)
    if c["slashes"]:
        yield dict(c, slashes=0)
    if c.get("spelling", "real") != "real":
        yield dict(c, spelling="real")
    for k in ("reread", "memedit"):
        if c.get(k) and c[k].get("n", 1) > 1:
            yield dict(c, **{k: dict(c[k], n=c[k]["n"] - 1)})


def pre_checks(ctx):
    """spec validation against real git (thorough): for trees without special files whose
    executables are owner-executable, `git add -A && git write-tree` equals the id computed with
    empty directories ignored"""
    out = []
    if ctx.tier != "thorough":
        return out
    import random
    from swh.model import from_disk
    rng = random.Random(ctx.seed + 606)
    for k in range(150):
        t = gen_tree(rng, opts={"no_special": True})

        def fix(n):
            if n["t"] == "R":
                n["m"] = 0o755 if n["m"] & 0o111 else 0o644
            elif n["t"] == "D":
                n["c"] = [[nm, fix(ch)] for nm, ch in n["c"] if bytes.fromhex(nm) != b".git"]
            return n
        t = fix(t)
        with on_disk(t) as root:
            env = dict(os.environ, GIT_DIR=os.fsdecode(root) + "/../gitdir", GIT_WORK_TREE=os.fsdecode(root),
                       GIT_CONFIG_GLOBAL="/dev/null", GIT_CONFIG_SYSTEM="/dev/null")
            try:
                subprocess.run(["git", "init", "-q"], env=env, check=True, stdout=subprocess.DEVNULL, stderr=subprocess.DEVNULL)
                subprocess.run(["git", "-c", "core.filemode=true", "-c", "core.symlinks=true", "add", "-A"], env=env, check=True,
                               cwd=root, stdout=subprocess.DEVNULL, stderr=subprocess.DEVNULL)
                want = subprocess.run(["git", "write-tree"], env=env, check=True, cwd=root, stdout=subprocess.PIPE).stdout.decode().strip()
            except Exception as e:
                continue
            got = from_disk.Directory.from_disk(path=root, path_filter=from_disk.ignore_empty_directories).hash.hex()
            if want != got:
                out.append(("spec-validation:git-write-tree", "git write-tree gives %s, library %s for %s" % (want, got, enc_tree(t)[:300])))
                break
    return out


# functions of /repo whose executed-line coverage by this run is reported in the evidence
ANCHORS = [('swh/model/from_disk.py', 'mode_to_perms'),
           ('swh/model/from_disk.py', 'Content.from_file'),
           ('swh/model/from_disk.py', 'Content.from_symlink'),
           ('swh/model/from_disk.py', 'Content.from_bytes'),
           ('swh/model/from_disk.py', 'Directory.from_disk'),
           ('swh/model/from_disk.py', 'Directory.compute_hash'),
           ('swh/model/from_disk.py', 'Directory.to_model'),
           ('swh/model/merkle.py', 'MerkleNode.update_hash')]


# most generated trees are too large for the executable SHA-1 under vm_compute: coq_cases gets every case and keeps the first
# small ones (it shrinks the list it is given IN PLACE: the evidence's `n` is the number evaluated)
COQ_SAMPLE = 1 << 30


def coq_tree_bytes(t):
    if t["t"] == "D":
        return sum(len(n) // 2 + 30 + coq_tree_bytes(c) for n, c in t["c"])
    return len(t.get("d") or t.get("x") or "") // 2


def coq_from_disk(pid, chosen):
    """shared by c06.py and c13.py (drv_C13.ml is drv_C06.ml plus the pattern filter `pat:` and the `glob` / `oldpass2`
    requests, which this function does not use).  chosen = [(case, request lines of the case)];
    the Coq terms are built from the very request lines the driver receives; one checksum per case."""
    from . import core
    def nl(h):
        return "[" + "; ".join("%d" % b for b in core.unhx(h or ".")) + "]%N"
    def tree(t):
        if t["t"] == "R":
            return "Reg %s %d%%N" % (nl(t["d"]), t["m"])
        if t["t"] == "L":
            return "Lnk %s" % nl(t["x"])
        if t["t"] == "S":
            return "Special %d%%N" % t["m"]
        return "FDir [" + "; ".join("(%s, %s)" % (nl(n), tree(c)) for n, c in t["c"]) + "]"
    def filt(f):
        p = f.split(":")
        if p[0] in ("all", "empty"):
            return {"all": "FAll", "empty": "FEmpty"}[p[0]]
        return "(FNamed [%s] %s)" % ("; ".join(nl(n) for n in p[2].split(",")) if p[2] else "", "true" if p[1] == "1" else "false")
    def lim(s):
        return "None" if s == "-" else "(Some %d%%N)" % int(s)
    def term(rq):
        w = rq.split(" ")
        if w[0] == "ids":
            return "ids_case (from_disk (fun _ l => %s) %s %s t)" % ("rev l" if w[3] == "rev" else "l", filt(w[1]), lim(w[2]))
        if w[0] == "iterids":
            return "iter_case (from_disk_iter %s %s %s t)" % ("lrev" if w[3] == "rev" else "lid", filt(w[1]), lim(w[2]))
        if w[0] == "spec":
            return "node_id sha1 t ++ git_node_id sha1 t ++ [if wf_fs t then 1%N else 0%N]"
        if w[0] == "pruned":
            p = w[1].split(":")
            pr = "t" if p[0] == "all" else "(prune_empty t)" if p[0] == "empty" else \
                "(prune_named [%s] %s t)" % ("; ".join(nl(n) for n in p[2].split(",")) if p[2] else "", "true" if p[1] == "1" else "false")
            return "node_id sha1 %s" % pr
        if w[0] == "export":
            return "export_case (from_disk (fun _ l => l) %s %s t)" % (filt(w[1]), lim(w[2]))
        raise ValueError(rq)
    src = ("From Coq Require Import List NArith.\nFrom SWH.lib Require Import Bytes Sha1.\nFrom SWH.model Require Import Dir FromDisk FromDiskIter.\n"
           "Import ListNotations.\n" + core.COQ_CHECKSUM + """
Fixpoint all_nodes (prefix : list (list N)) (m : mtree) : list (list (list N) * mtree) :=
  (prefix, m) :: match m with
                 | MLeaf _ => []
                 | MNode ks => (fix go (l : list (list N * mtree)) : list (list (list N) * mtree) :=
                                  match l with [] => [] | (n, c) :: r => all_nodes (prefix ++ [n]) c ++ go r end) ks
                 end.
Definition join_path (p : list (list N)) : list N :=
  match p with [] => [] | x :: r => x ++ concat (map (fun y => 47%N :: y) r) end.
Definition show_ids (m : mtree) : list N :=
  concat (map (fun pn : list (list N) * mtree => join_path (fst pn) ++ [370%N] ++ mt_id sha1 (snd pn) ++ [371%N]) (all_nodes [] m)).
Definition ids_case (r : fd_result mtree) : list N := match r with FdOk m => 80%N :: show_ids m | FdSymlinkTooLarge => [81%N] end.
Definition iter_case (r : it_result mtree) : list N := match r with
  | ItOk m => 80%N :: show_ids m | ItSymlinkTooLarge => [81%N] | ItKeyError => [82%N] | ItAssert => [83%N] | ItOutOfFuel => [84%N] end.
Definition export_case (r : fd_result mtree) : list N := match r with
  | FdSymlinkTooLarge => [81%N]
  | FdOk m => 80%N :: concat (map (fun x => match x with
      | XDir i es => [85%N] ++ i ++ concat (map (fun e => e_target e ++ [372%N]) es) ++ [373%N]
      | XContent i d => [86%N] ++ i ++ sha1 d ++ [N.of_nat (length d)]
      | XSkipped i l => [87%N] ++ i ++ [l] end) (export sha1 m)) end.
""" + "Definition cases : list (list (list N)) := [" +
           ";\n ".join("(fun t : fsnode => [" + ";\n  ".join(term(r) for r in rqs) + "])\n  (" + tree(c["tree"]) + ")" for c, rqs in chosen)
           + "].\nEval vm_compute in map (fun rs => cksum (map cksum rs)) cases.\n")
    def hb(h):
        return list(core.unhx(h))
    def ids(r):
        if not r.startswith("ok "):
            return [{"err SymlinkTooLarge": 81, "err MODEL KeyError": 82, "err MODEL Assert": 83, "err MODEL OutOfFuel": 84}[r]]
        out = [80]
        for kv in r[3:].split(";"):
            p, i = kv.split("=")
            out += hb(p) + [370] + hb(i) + [371]
        return out
    def answer(rq, r):
        k = rq.split(" ")[0]
        if k in ("ids", "iterids"):
            return ids(r)
        w = r.split(" ")
        assert w[0] == "ok" or k == "export", r
        if k == "spec":
            return hb(w[1]) + hb(w[2]) + [int(w[3])]
        if k == "pruned":
            return hb(w[1])
        if r == "err SymlinkTooLarge":
            return [81]
        out = [80]
        for item in ([] if w[1] == "." else w[1].split(";")):
            p = item.split(":")
            if p[0] == "D":
                out += [85] + hb(p[1])
                for tg in ([] if p[2] == "." else p[2].split(",")):
                    out += hb(tg) + [372]
                out += [373]
            elif p[0] == "C":
                out += [86] + hb(p[1]) + hb(p[2]) + [int(p[3])]
            else:
                out += [87] + hb(p[1]) + [int(p[2])]
        return out
    flat = [r for _, rqs in chosen for r in rqs]
    resp = iter(core.run_driver(pid, flat))
    exp = [core.py_cksum([core.py_cksum(answer(rq, next(resp))) for rq in rqs]) for _, rqs in chosen]
    return src, exp


def coq_cases(cases):
    """from_disk (both listing orders, filters all / empty), from_disk_iter, node_id, git_node_id, wf_fs, prune_empty and mt_id
    with H := Sha1.sha1 evaluated by vm_compute inside Coq vs the extracted driver, on small trees (extraction cross-check)"""
    small = [c for c in cases if not c.get("chain") and not c.get("concurrent") and not c.get("reread") and not c.get("memedit") and count_nodes(c["tree"]) <= 10 and coq_tree_bytes(c["tree"]) <= 400][:12]
    cases[:] = small
    return coq_from_disk(ID, [(c, requests(c)) for c in small])
