"""C16 - timestamps and UTC offsets convert exactly in every direction
(swh/model/model.py Timestamp / TimestampWithTimezone, git_objects.format_date).

Tie: every case is run through /repo's classes and through the extracted model
(coq/model/Time.v).  Compared: seconds, microseconds, offset_bytes,
offset_minutes(), format_date bytes, the date part of format_author_data,
to_datetime() as (epoch microseconds, utcoffset seconds), exception classes
(core.exc_class).  Where the model answers `Unmodelled` (offset bytes outside
[+-][0-9]+) the corresponding observable is not compared.

The property predicate is evaluated directly on the implementation (oracle):
round trips, floor seconds, exact decimal text (integer arithmetic), `-0000`
iff negative UTC, verbatim offset bytes, range rejection.
"""
import calendar
import contextlib
import datetime as D
import os
import re
import sys
import time

from . import core

ID = "C16"
PROPS = "Props/C16.v"
EXTRACT = "extract/ExC16.v"
OBLIGATION = "time"
THEOREMS = [
    "C16_datetime_roundtrip", "C16_datetime_instant_kept", "C16_offset_roundtrip", "C16_offset_roundtrip_sweep",
    "C16_neg_flag_rejected", "C16_minus_zero_iff", "C16_offset_verbatim", "C16_recorded_bytes_win", "C16_format_date_exact",
    "C16_range_rejected", "C16_iso8601_minus_zero", "C16_table_side_conditions", "C16_satisfiable",
]
RULE = ("seconds {range ends, +-1 around them, -1, 0, 1, random} x microseconds {0,1,10,100000,999999,500000,random,-1,10^6}; "
        "aware datetimes with every fixed offset in +-1439 minutes (and some non-whole-minute ones), named zones from "
        "zoneinfo at random wall-clock times (LMT included), AND at the zones' actual utcoffset transitions: these are "
        "found per run by scanning each zone of a pool (36 zones with 30-minute / 44m30s / 15-minute / 2-hour / 24-hour "
        "and sub-minute shifts, negative DST, plus random zones) over 1900..2037 (10-day samples, bisection to the second); "
        "around each chosen transition: wall-clock times inside the repeated interval with fold=0 and fold=1, inside the "
        "gap with both folds, at the edges, just before and after, microseconds {0, 1, 500000, 999999, random}, the "
        "tzinfo taken from zoneinfo, dateutil.tz.gettz or pytz.localize(is_dst); the expected instant is wall clock minus "
        "utcoffset() of that very datetime by integer arithmetic; about 12-30 % of all non-grid cases run with a non-UTC "
        "machine zone (POSIX TZ string + time.tzset(), recorded in the case, restored afterwards); the whole 16-bit x negative_utc grid of "
        "from_numeric_offset (131072 points, in ranges of 1024 offsets per case); dict forms (offset_bytes, legacy "
        "offset/negative_utc, int, bool, missing keys, wrong types) and, systematically, dicts with any subset of the keys: "
        "bytes only / legacy number only / BOTH, where the bytes are the canonical +HHMM of the number, another spelling "
        "(+200, +02, +1, +0160, empty, 6 bytes, junk), or the bytes of a DIFFERENT number; negative_utc absent / None / "
        "False / True (also contradicting the bytes); offset None; timestamp as {seconds, microseconds} / int / datetime / "
        "ISO string / other; unknown extra keys; the argument dict must not be modified (deep copy compared) and the same call "
        "made twice must give the same result; containers: dict / OrderedDict (reversed key order) / dict subclass / "
        "MappingProxyType for the argument and for the timestamp member; offset_bytes as bytes / bytes subclass / bytearray / "
        "None / list / int / str; negative_utc and the flag of from_numeric_offset as bool / None / 0 / 1 / '' / 'x' / '0'; "
        "offset as bool; from_numeric_offset by position and by keyword; seconds / microseconds as int / bool / int subclass / "
        "float 0.0, 5.0, 1.5 / str / bytes / None, seconds also 2^31, 2^33, 2^34+-1, +-2^63, 10^30, microseconds also 9, 90, 99, "
        "100, 999985; datetimes as instances of a datetime subclass, with a hand-written tzinfo class, with a tzinfo whose "
        "utcoffset() is None, a date object; ISO strings also date-only / YYYY-MM / YYYY / without seconds / hour only / basic "
        "format / comma / more than 6 fraction digits (truncation) / one-digit month and day / tz minutes >= 60; for a "
        "deterministic third of the objects (and all with non-5-byte offset bytes) the other routes are walked: to_dict() "
        "shape, from_dict(to_dict()), keyword and positional constructor, Timestamp.from_dict - equal object, equal hash; ISO-8601 strings incl. -00:00; about 7 % of the draws of every numeric dimension (seconds, microseconds, offsets in "
        "minutes and seconds, tz fields of ISO strings, total length of offset_bytes digit strings, legacy numbers in dicts) come "
        "from the integer constants found in swh/model/*.py of the repository under test, each with -1 / +1 and negated, and "
        "offset bytes of every total length around a harvested constant in 2..70 are parsed and stored; raw offset bytes in "
        "[+-][0-9]+ incl. the 4300-digit int() limit.  non-trivial = non-zero microseconds, or an offset whose minute "
        "part is not 0, or seconds < 0, or an error branch; distinct = distinct canonical case")
TRUSTED = [
    "CPython datetime arithmetic as modelled in model/Time.v: an aware datetime is (epoch_us, utcoffset seconds), valid iff "
    "its wall clock lies in datetime.min..datetime.max; astimezone/replace/timestamp/fromtimestamp/timezone() have their "
    "arithmetic meaning incl. OverflowError; .timestamp() of a whole-second aware datetime is an exact float (< 2^53)",
    "zoneinfo / dateutil.tz / pytz give the utcoffset() of an input datetime (fold-aware per PEP 495; pytz through "
    "localize(is_dst)): that offset is part of the INPUT - the model receives (instant, offset) = (wall - utcoffset, utcoffset)",
    "iso8601.parse_date is an oracle: from_iso8601 is modelled from the parsed datetime and the flag tzname()=='-00:00'",
    "CPython int(): on ASCII digit runs it is the decimal value, ValueError beyond sys.int_max_str_digits=4300 digits; "
    "'%d', '{:02}', '%06d' are lib/Dec.v dec_Z / dec_pad; str.rstrip('0') is lib/DecPad.v rstrip0",
]
ASSUMPTIONS = [
    "offset_minutes()/_parse_offset_bytes is modelled on offset bytes matching [+-][0-9]+ only; other bytes are kept "
    "verbatim (proved) but their numeric reading is outside the model and the correspondence domain",
    "negative_utc with a positive offset is outside the property's domain: the code's assert fires (proved and checked)",
    "sub-second utcoffsets are not modelled; naive datetimes are modelled only as `ValueError`",
    "for named zones only whole-minute offsets are in scope of the round trip (same offset back); for other offsets "
    "(LMT, Amsterdam before 1940, Monrovia before 1972) seconds/microseconds must still be exact and the instant kept",
    "no observable may depend on the machine's local zone (cases are run under several TZ settings)",
    "offsets whose hour field needs more than 4300 digits (int<->str conversion limit inside the f-string) are not "
    "generated: neither the harness nor json can print them; offsets up to 10^30 are (the assert fires)",
    "wrong-typed `timestamp` argument of the direct TimestampWithTimezone constructor is not explored (not in the property)",
]
CASE_TIMEOUT = 60

from swh.model.model import Person, Timestamp, TimestampWithTimezone as TSTZ  # noqa: E402
from swh.model.git_objects import format_author_data, format_date  # noqa: E402

try:
    import zoneinfo
    ZONES = sorted(zoneinfo.available_timezones())
    # tzdata really readable?
    zoneinfo.ZoneInfo("Europe/Paris")
except Exception:  # pragma: no cover
    zoneinfo = None
    ZONES = []

MIN_S, MAX_S = Timestamp.MIN_SECONDS, Timestamp.MAX_SECONDS
MIN_US, MAX_US = Timestamp.MIN_MICROSECONDS, Timestamp.MAX_MICROSECONDS
M = 10 ** 6
EPOCH_NAIVE = D.datetime(1970, 1, 1)
_td = D.datetime.min - EPOCH_NAIVE
DT_MIN_US = (_td.days * 86400 + _td.seconds) * M + _td.microseconds
_td = D.datetime.max - EPOCH_NAIVE
DT_MAX_US = (_td.days * 86400 + _td.seconds) * M + _td.microseconds
NOBODY = Person(fullname=b"", name=None, email=None)

ERRMAP = {"TimestampOverflow": "ValueError", "AttributeType": "ValueError", "Value": "ValueError",
          "Assertion": "AssertionError", "Key": "KeyError", "Overflow": "Other(OverflowError)", "Type": "TypeError",
          "Unmodelled": "Unmodelled"}


# ---------------------------------------------------------------- value encodings
class IntSub(int):
    """an int subclass: equal to the int, but value.__class__ is not int"""


class BytesSub(bytes):
    """a bytes subclass: isinstance(x, bytes) holds"""


class DictSub(dict):
    pass


class DtSub(D.datetime):
    pass


class FixedTz(D.tzinfo):
    """a hand-written tzinfo (not datetime.timezone) with a constant offset"""
    def __init__(self, off_s):
        self.off_s = off_s

    def utcoffset(self, dt):
        return D.timedelta(seconds=self.off_s)

    def dst(self, dt):
        return None

    def tzname(self, dt):
        return "fixed"


class NoneTz(D.tzinfo):
    """tzinfo is set but utcoffset() is None: the datetime is naive"""
    def utcoffset(self, dt):
        return None

    def dst(self, dt):
        return None

    def tzname(self, dt):
        return "none"


def pv(tok):
    """pyval token -> Python value"""
    if tok[0] == "i":
        return int(tok[1:])
    if tok == "bT":
        return True
    if tok == "bF":
        return False
    return {"o:none": None, "o:float": 1.5, "o:str": "12", "o:bytes": b"12",
            "o:datetime": D.datetime(2020, 1, 1, 12, 0, 0, 5, tzinfo=D.timezone.utc),
            "o:iso": "2020-01-01T12:00:00.000005+00:00", "o:list": [0, 0],
            "o:intsub": IntSub(5), "o:intsub0": IntSub(0), "o:float0": 0.0, "o:float5": 5.0,
            "o:date": D.date(2020, 1, 1), "o:proxy": __import__("types").MappingProxyType({"timestamp": 0, "offset_bytes": b"+0000"}),
            "o:tstz-dict-str": "{'timestamp': 0, 'offset': 0}"}[tok]


def pv_tok(tok):
    return "o" if tok.startswith("o") else tok


def tsrepr_value(t):
    """tsrepr token -> value of the "timestamp" member (or KeyError marker)"""
    if t == "missing":
        return None
    if t.startswith("other"):
        return pv("o:" + t.split(":")[1])
    p = t.split(":")
    if p[0] == "int":
        return pv(p[1])
    d = {}
    a, b = t[len("dict:"):].split("|")
    if a != "absent":
        d["seconds"] = pv(a)
    if b != "absent":
        d["microseconds"] = pv(b)
    return d


def ob_value(tok):
    """the value of the "offset_bytes" member: hex = bytes; sub:<hex> = a bytes subclass (accepted, kept);
    nonbytes[:kind] = something that is not a bytes object (rejected)"""
    if tok.startswith("sub:"):
        return BytesSub(core.unhx(tok[4:] or "."))
    if tok.startswith("nonbytes"):
        kind = tok.partition(":")[2] or "str"
        return {"str": "+0000", "bytearray": bytearray(b"+0000"), "memoryview": memoryview(b"+0000"), "none": None,
                "list": [43, 48, 48, 48, 48], "int": 0}[kind]
    return core.unhx(tok or ".")


def ob_tok(tok):
    if tok.startswith("sub:"):
        return tok[4:] or "."
    if tok.startswith("nonbytes"):
        return "nonbytes"
    return tok or "."


def neg_value(v):
    """negative_utc as given: booleans, None, and other truthy / falsy objects ("s:<text>" = that str)"""
    if isinstance(v, str) and v.startswith("s:"):
        return v[2:]
    if v == "none":
        return None
    return v


def neg_truth(v):
    return bool(neg_value(v)) if v != "absent" else False


def tsrepr_tok(t):
    if t == "missing":
        return "missing"
    if t.startswith("other"):
        return "other"
    if t.startswith("int:"):
        return "int:" + pv_tok(t[4:])
    a, b = t[len("dict:"):].split("|")
    return "dict:%s:%s" % (pv_tok(a) if a != "absent" else a, pv_tok(b) if b != "absent" else b)


def mk_wall(wall_us):
    return EPOCH_NAIVE + D.timedelta(microseconds=wall_us)


try:
    from dateutil import tz as _dateutil_tz
except Exception:  # pragma: no cover
    _dateutil_tz = None
try:
    import pytz as _pytz
except Exception:  # pragma: no cover
    _pytz = None
TZ_LIBS = (["zoneinfo"] if zoneinfo else []) + (["dateutil"] if _dateutil_tz else []) + (["pytz"] if _pytz else [])
_TZ_CACHE = {}


def tz_of(lib, zone):
    """the tzinfo provider of a named zone in one of the three libraries (None if that library does not know it)"""
    key = (lib, zone)
    if key not in _TZ_CACHE:
        try:
            if lib == "zoneinfo":
                t = zoneinfo.ZoneInfo(zone)
            elif lib == "dateutil":
                t = _dateutil_tz.gettz(zone)
            else:
                t = _pytz.timezone(zone)
        except Exception:
            t = None
        _TZ_CACHE[key] = t
    return _TZ_CACHE[key]


def dt_of_case(c):
    w = mk_wall(c["wall_us"])
    if "zone" in c:
        lib = c.get("lib", "zoneinfo")
        tz = tz_of(lib, c["zone"])
        if lib == "pytz":
            # pytz has no fold: is_dst=True picks the first occurrence of a repeated wall time, False the second
            return _maybe_sub(tz.localize(w, is_dst=(c.get("fold", 0) == 0)), c)
        return _maybe_sub(w.replace(tzinfo=tz, fold=c.get("fold", 0)), c)
    if c.get("tzclass") == "custom":
        return _maybe_sub(w.replace(tzinfo=FixedTz(c["off_s"])), c)
    return _maybe_sub(w.replace(tzinfo=D.timezone(D.timedelta(seconds=c["off_s"]))), c)


def _maybe_sub(dt, c):
    """the same value as an instance of a datetime subclass"""
    if not c.get("dtsub"):
        return dt
    return DtSub(dt.year, dt.month, dt.day, dt.hour, dt.minute, dt.second, dt.microsecond, tzinfo=dt.tzinfo, fold=dt.fold)


# POSIX TZ strings (no zone file needed): the machine's local zone under which a share of the cases is run
TZENV_POOL = ["EST5EDT,M3.2.0,M11.1.0", "IST-5:30", "<+1245>-12:45<+1345>,M9.5.0/2:45,M4.1.0/3:45",
              "CET-1CEST,M3.5.0,M10.5.0/3", "<-0930>9:30", "<+14>-14", "LHST-10:30LHDT-11,M10.1.0,M4.1.0"]


@contextlib.contextmanager
def tzenv(name):
    """run the body with os.environ["TZ"] = name (time.tzset()), restored afterwards"""
    if not name:
        yield
        return
    old = os.environ.get("TZ")
    os.environ["TZ"] = name
    time.tzset()
    try:
        yield
    finally:
        if old is None:
            os.environ.pop("TZ", None)
        else:
            os.environ["TZ"] = old
        time.tzset()


def abstr(dt):
    """aware datetime -> (epoch_us, off_s) by integer arithmetic; None for sub-second offsets"""
    off = dt.utcoffset()
    if off is None or off.microseconds:
        return None
    off_s = off.days * 86400 + off.seconds
    td = dt.replace(tzinfo=None) - EPOCH_NAIVE
    wall = (td.days * 86400 + td.seconds) * M + td.microseconds
    return [wall - off_s * M, off_s]


# ---------------------------------------------------------------- generators
SEC_EDGE = [MIN_S, MAX_S, MIN_S - 1, MAX_S + 1, MIN_S + 1, MAX_S - 1, -1, 0, 1,
            2 ** 34, -2 ** 34, 2 ** 34 - 1, 2 ** 33, 2 ** 31, -2 ** 31 - 1, 2 ** 63, -2 ** 63, 10 ** 30]
US_POOL = [0, 1, 10, 100000, 999999, 500000, -1, 10 ** 6, 123456, 120000, 999990, 7, 9, 90, 99, 100, 999985]


_SRC = {}


def src_ints(lo=None, hi=None):
    """integer constants harvested from swh/model/*.py of the repository under test (each with its -1 / +1 neighbours),
    also negated, restricted to [lo, hi]: a threshold that a change introduces is then hit at its boundary"""
    if "all" not in _SRC:
        try:
            from .gitobj_common import source_ints
            base = list(source_ints())
        except Exception:
            base = []
        _SRC["all"] = sorted(set(base) | {-v for v in base})
    key = (lo, hi)
    if key not in _SRC:
        _SRC[key] = [v for v in _SRC["all"] if (lo is None or v >= lo) and (hi is None or v <= hi)]
    return _SRC[key]


SRC_SHARE = 0.07


def src_draw(rng, lo=None, hi=None):
    """None most of the time; with probability SRC_SHARE a harvested constant in [lo, hi]"""
    if rng.random() < SRC_SHARE:
        l = src_ints(lo, hi)
        if l:
            return rng.choice(l)
    return None


def rnd_sec(rng):
    v = src_draw(rng)
    if v is not None:
        return v
    r = rng.random()
    if r < 0.25:
        return rng.choice(SEC_EDGE)
    if r < 0.5:
        return rng.randrange(MIN_S, MAX_S + 1)
    if r < 0.7:
        return rng.randrange(-10 ** 9, 2 * 10 ** 9)
    if r < 0.85:
        return rng.randrange(-100, 100)
    return rng.choice([MIN_S, MAX_S]) + rng.randrange(-3, 4)


def rnd_us(rng, valid_only=False):
    v = src_draw(rng, 0 if valid_only else -2 * 10 ** 6, (10 ** 6 - 1) if valid_only else 2 * 10 ** 6)
    if v is not None:
        return v
    r = rng.random()
    if r < 0.5:
        u = rng.choice(US_POOL)
    elif r < 0.8:
        u = rng.randrange(0, 10 ** 6)
    else:
        u = rng.randrange(1, 10 ** rng.randrange(1, 7)) * 10 ** rng.randrange(0, 6) % 10 ** 6
    if valid_only and not (0 <= u < 10 ** 6):
        u = 0
    return u


def rnd_off16(rng):
    v = src_draw(rng, -70000, 70000)
    if v is not None:
        return v
    r = rng.random()
    if r < 0.3:
        return rng.choice([0, 1, -1, 59, 60, 61, -59, -60, -61, 330, -330, 1439, -1439, 1440, -1440, 5999, 6000,
                           -5999, -6000, 32767, -32768, 32768, -32769, 40000, -40000])
    return rng.randrange(-32768, 32768)


def offset_bytes_of_len(rng, L):
    """offset bytes of total length L in [+-][0-9]+ that still denote a small offset (zero-padded hours), so that a
    length guard shows as a wrong number"""
    sign = rng.choice(["+", "-"])
    if L <= 1:
        return sign.encode()
    if L <= 3:
        return (sign + "%0*d" % (L - 1, rng.randrange(0, 10 ** (L - 1)))).encode()
    hm = "%02d" % rng.choice([0, 30, 45, 59, rng.randrange(60)])
    hours = "%d" % rng.choice([1, 5, 12, 23, 99, 100, 546, rng.randrange(0, 547)])
    hours = hours[-(L - 3):] if len(hours) > L - 3 else hours
    return (sign + hours.rjust(L - 3, "0") + hm).encode()


def rnd_offset_bytes(rng):
    L = src_draw(rng, 2, 70)
    if L is not None:
        return offset_bytes_of_len(rng, L)
    r = rng.random()
    sign = rng.choice(["+", "-"])
    if r < 0.35:
        return (sign + "%02d%02d" % (rng.randrange(0, 30), rng.randrange(0, 100))).encode()
    if r < 0.6:
        n = rng.choice([1, 2, 3, 4, 5, 6, 7, 12, 20])
        return (sign + "".join(rng.choice("0123456789") for _ in range(n))).encode()
    if r < 0.7:
        return rng.choice([b"+0000", b"-0000", b"+0160", b"-0059", b"+54607", b"-54608", b"+54608", b"-54609", b"+2400",
                           b"-2359", b"+200000000000000000", b"+02", b"-2", b"+200", b"-200", b"+0010", b"+9", b"-99",
                           b"+99999", b"+0545", b"+1400", b"-1200"])
    if r < 0.75 and sys.get_int_max_str_digits() == 4300:
        n = rng.choice([4299, 4300, 4301, 4302, 4303, 4304])
        return (sign + "0" * (n - 3) + "130").encode()
    # outside the modelled domain: kept verbatim, numeric reading not compared
    return rng.choice([b"", b"+", b"-", b"0000", b"+1 30", b"+-130", b"UTC", b"+01:30", b"\xff\xfe", b"+\xd9\xa1\xd9\xa2",
                       b" +0100", b"+0100\n", b"+1_0", b"++100", b"+ 100", b"-0x10"])


def valid_wall(w):
    return DT_MIN_US <= w <= DT_MAX_US


def gen_dt_fixed(rng, off_s):
    """an aware datetime with that fixed offset; instants biased to the proof's case splits"""
    r = rng.random()
    if r < 0.45:
        e = rnd_sec(rng) * M + rnd_us(rng, True)
    elif r < 0.6:      # wall clock at the very ends of datetime
        e = rng.choice([DT_MIN_US, DT_MAX_US, DT_MIN_US + rng.randrange(0, 3 * 86400 * M),
                        DT_MAX_US - rng.randrange(0, 3 * 86400 * M)]) - off_s * M
    elif r < 0.8:      # around the epoch, negative instants with microseconds (floor vs truncation)
        e = rng.randrange(-5 * M, 5 * M)
    else:
        e = rng.randrange(MIN_S * M, (MAX_S + 1) * M)
    w = e + off_s * M
    if not valid_wall(w):
        w = min(max(w, DT_MIN_US), DT_MAX_US)
    c = {"k": "dt", "wall_us": w, "off_s": off_s}
    r = rng.random()
    if r < 0.15:
        c["tzclass"] = "custom"
    if rng.random() < 0.1:
        c["dtsub"] = True
    return c


def gen_dt_zone(rng):
    z = rng.choice(ZONES)
    r = rng.random()
    if r < 0.6:
        w = rng.randrange(-200 * 365 * 86400, 130 * 365 * 86400) * M + rnd_us(rng, True)   # 1770 .. 2100
    elif r < 0.8:
        w = rng.randrange(DT_MIN_US, DT_MAX_US + 1)
    else:
        w = rng.choice([DT_MIN_US, DT_MAX_US]) + rng.randrange(-2 * 86400 * M, 2 * 86400 * M)
        w = min(max(w, DT_MIN_US), DT_MAX_US)
    c = {"k": "dt", "wall_us": w, "zone": z, "fold": rng.randrange(2)}
    if rng.random() < 0.1:
        c["dtsub"] = True
    if r < 0.6 and rng.random() < 0.4:
        lib = rng.choice(TZ_LIBS)
        if lib != "zoneinfo" and tz_of(lib, z) is not None:
            c["lib"] = lib
    return c


# ------------------------------------------------ DST / offset transitions of named zones
EPOCH_UTC = D.datetime(1970, 1, 1, tzinfo=D.timezone.utc)
SCAN_LO = calendar.timegm((1900, 1, 1, 0, 0, 0))
SCAN_HI = calendar.timegm((2037, 12, 31, 0, 0, 0))
_TRANS = {}
# zones with half-hour / odd shifts, negative DST, day skips, two-hour shifts, sub-minute offsets, ...
ZONE_POOL = ["Europe/Paris", "America/New_York", "Europe/London", "Europe/Dublin", "Australia/Lord_Howe", "Pacific/Chatham",
             "Africa/Monrovia", "Asia/Kathmandu", "Europe/Amsterdam", "America/Sao_Paulo", "Australia/Sydney", "Asia/Tehran",
             "America/St_Johns", "Asia/Kolkata", "America/Caracas", "Pacific/Apia", "Pacific/Kiritimati", "Africa/Casablanca",
             "Asia/Pyongyang", "Antarctica/Troll", "America/Havana", "Asia/Gaza", "Europe/Moscow", "America/Santiago",
             "Africa/Cairo", "Asia/Kabul", "Pacific/Marquesas", "Europe/Lisbon", "America/Nuuk", "Asia/Colombo",
             "Europe/Istanbul", "America/Los_Angeles", "Australia/Adelaide", "Asia/Yangon", "Africa/Windhoek", "Asia/Seoul"]
# (zone, first year, last year): transitions that are always taken
MUST_TRANSITIONS = [("Africa/Monrovia", 1972, 1972), ("Asia/Kathmandu", 1985, 1986), ("Europe/Amsterdam", 1916, 1940),
                    ("Europe/Paris", 2020, 2020), ("America/New_York", 1968, 1968), ("Australia/Lord_Howe", 1981, 2030),
                    ("Pacific/Chatham", 1974, 2030), ("Pacific/Apia", 2011, 2011), ("Europe/Dublin", 1971, 2030)]


def _off_at(tz, t):
    """utcoffset (seconds) in force at the UTC instant t: UTC -> local is never ambiguous"""
    o = (EPOCH_UTC + D.timedelta(seconds=t)).astimezone(tz).utcoffset()
    return o.days * 86400 + o.seconds


def transitions(zone):
    """[(T, offset before, offset after)] for the utcoffset changes of the zone between 1900 and 2037, found by sampling
    every 10 days and bisecting to the second (zoneinfo; cached per run)"""
    if zone in _TRANS:
        return _TRANS[zone]
    res = []
    tz = tz_of("zoneinfo", zone)
    if tz is not None:
        step = 10 * 86400
        t, o = SCAN_LO, _off_at(tz, SCAN_LO)
        while t < SCAN_HI:
            t2 = min(t + step, SCAN_HI)
            o2 = _off_at(tz, t2)
            if o2 == o:
                t = t2
                continue
            a, b = t, t2
            while b - a > 1:
                m = (a + b) // 2
                if _off_at(tz, m) == o:
                    a = m
                else:
                    b = m
            ob = _off_at(tz, b)
            res.append((b, o, ob))
            t, o = b, ob
    _TRANS[zone] = res
    return res


TRANS_US = [1, 500000, 999999]


def gen_at_transition(rng, zone, T, ob, oa, n_inside=3):
    """wall-clock times around one transition: inside the repeated (oa < ob) or missing (oa > ob) interval with both
    fold values, at its edges, just before and after it; microseconds 0 / 1 / 500000 / 999999 / random"""
    lo_w, hi_w = T + min(ob, oa), T + max(ob, oa)        # [lo_w, hi_w) is read twice or never on the local clock
    where = "repeated" if oa < ob else "gap"
    libs = [l for l in TZ_LIBS if tz_of(l, zone) is not None]
    out = []

    def add(wall_s, us, fold, wh, lib):
        c = {"k": "dt", "wall_us": wall_s * M + us, "zone": zone, "fold": fold, "lib": lib, "where": wh}
        if rng.random() < 0.08:
            c["dtsub"] = True
        try:
            if abstr(dt_of_case(c)) is None:
                return
        except Exception:
            return
        out.append(c)
    inside = [lo_w, hi_w - 1] + [rng.randrange(lo_w, hi_w) for _ in range(max(1, n_inside - 2))]
    for w in inside:
        lib = rng.choice(libs)
        for us in (0, rng.choice(TRANS_US), rng.randrange(1, M)):
            for fold in (0, 1):
                add(w, us, fold, where, lib)
    for w, wh in ((lo_w - 1, "before"), (lo_w - rng.randrange(1, 7200), "before"), (hi_w, "after"),
                  (hi_w + rng.randrange(0, 7200), "after")):
        add(w, rng.choice([0] + TRANS_US + [rng.randrange(1, M)]), rng.randrange(2), wh, rng.choice(libs))
    return out


def gen_transitions(rng, tier):
    if not zoneinfo:
        return []
    quick = tier == "quick"
    zones = list(ZONE_POOL) + rng.sample(ZONES, 6 if quick else 40)
    zones = [z for i, z in enumerate(zones) if z not in zones[:i] and tz_of("zoneinfo", z) is not None]
    chosen = []
    for z, y0, y1 in MUST_TRANSITIONS:
        lo, hi = calendar.timegm((y0, 1, 1, 0, 0, 0)), calendar.timegm((y1 + 1, 1, 1, 0, 0, 0))
        l = [(z,) + tr for tr in transitions(z) if lo <= tr[0] < hi]
        chosen += l if not quick else rng.sample(l, min(len(l), 6))
    for z in zones:
        l = [(z,) + tr for tr in transitions(z)]
        chosen += l if not quick else rng.sample(l, min(len(l), 4))
    cases = []
    for z, T, ob, oa in chosen:
        cases += gen_at_transition(rng, z, T, ob, oa, 3 if quick else 5)
    return cases


def gen_iso(rng):
    y = rng.choice([1, 2, 1969, 1970, 1971, 2000, 2024, 9999, rng.randrange(1, 10000)])
    m = rng.randrange(1, 13)
    d = rng.randrange(1, calendar.monthrange(y, m)[1] + 1) if y >= 1 else 1
    H, Mi, S = rng.randrange(24), rng.randrange(60), rng.randrange(60)
    frac = ""
    if rng.random() < 0.6:
        frac = "".join(rng.choice("0123456789") for _ in range(rng.randrange(1, 7)))
    tzk = rng.choice(["Z", "", "-00:00", "+00:00", "-0000", "-00", "hm", "hm", "hm", "hhmm", "hh"])
    if tzk in ("hm", "hhmm", "hh"):
        sg, th, tm = rng.choice("+-"), rng.randrange(24), rng.choice([0, 0, 30, 45, rng.randrange(60)])
        v = src_draw(rng, 0, 23)
        th = th if v is None else v
        v = src_draw(rng, 0, 59)
        tm = tm if v is None else v
        tz = {"hm": "%s%02d:%02d" % (sg, th, tm), "hhmm": "%s%02d%02d" % (sg, th, tm), "hh": "%s%02d" % (sg, th)}[tzk]
        if tzk == "hh":
            tm = 0
        off_min = (th * 60 + tm) * (1 if sg == "+" else -1)
    else:
        tz, off_min = tzk, 0
    s = "%04d-%02d-%02d%s%02d:%02d:%02d%s%s" % (y, m, d, rng.choice("T "), H, Mi, S, "." + frac if frac else "", tz)
    wall_s = calendar.timegm((y, m, d, H, Mi, S)) if y >= 1 else 0
    return {"k": "iso", "str": s, "exp_epoch_s": wall_s - off_min * 60, "exp_us": int((frac + "000000")[:6]) if frac else 0,
            "exp_off": off_min, "minus0": tz in ("-00:00", "-0000", "-00")}


def gen_iso_forms(rng):
    """the other spellings iso8601 accepts: date only, no seconds, hour only, basic format, comma, > 6 fraction digits
    (truncated, not rounded), one-digit month/day, tz minutes >= 60"""
    y = rng.choice([1, 1969, 1970, 2000, 2024, 9999, rng.randrange(1, 10000)])
    m = rng.randrange(1, 13)
    d = rng.randrange(1, calendar.monthrange(y, m)[1] + 1)
    H, Mi, S = rng.randrange(24), rng.randrange(60), rng.randrange(60)
    sg, th, tm = rng.choice("+-"), rng.randrange(24), rng.choice([0, 30, 45, 59, rng.randrange(60)])
    tz, off = rng.choice([("Z", 0), ("", 0), ("-00:00", 0), ("%s%02d:%02d" % (sg, th, tm), (th * 60 + tm) * (1 if sg == "+" else -1)),
                          ("%s%02d%02d" % (sg, th, tm), (th * 60 + tm) * (1 if sg == "+" else -1)),
                          ("-00:30", -30), ("+01:75", 135), ("-23:59", -1439), ("+23:59", 1439)])
    form = rng.choice(["date", "month", "year", "nosec", "hour", "basic", "comma", "longfrac", "onedigit"])
    frac, us = "", 0
    if form == "date":
        s, H, Mi, S, tz, off = "%04d-%02d-%02d" % (y, m, d), 0, 0, 0, "", 0
    elif form == "month":
        s, d, H, Mi, S, tz, off = "%04d-%02d" % (y, m), 1, 0, 0, 0, "", 0
    elif form == "year":
        s, m, d, H, Mi, S, tz, off = "%04d" % y, 1, 1, 0, 0, 0, "", 0
    elif form == "nosec":
        s, S = "%04d-%02d-%02dT%02d:%02d%s" % (y, m, d, H, Mi, tz), 0
    elif form == "hour":
        s, Mi, S = "%04d-%02d-%02dT%02d%s" % (y, m, d, H, tz), 0, 0
    elif form == "basic":
        tzb = tz.replace(":", "")
        s = "%04d%02d%02dT%02d%02d%02d%s" % (y, m, d, H, Mi, S, tzb)
    elif form == "comma":
        frac = "".join(rng.choice("0123456789") for _ in range(rng.randrange(1, 7)))
        s = "%04d-%02d-%02dT%02d:%02d:%02d,%s%s" % (y, m, d, H, Mi, S, frac, tz)
    elif form == "longfrac":
        frac = "".join(rng.choice("0123456789") for _ in range(rng.randrange(7, 12)))
        if rng.random() < 0.4:
            frac = "999999" + frac[6:]
        s = "%04d-%02d-%02dT%02d:%02d:%02d.%s%s" % (y, m, d, H, Mi, S, frac, tz)
    else:
        s = "%d-%d-%dT%02d:%02d:%02d%s" % (y, m, d, H, Mi, S, tz)
        s = "%04d" % y + s[len(str(y)):]
    if frac:
        us = int((frac + "000000")[:6])
    return {"k": "iso", "str": s, "exp_epoch_s": calendar.timegm((y, m, d, H, Mi, S)) - off * 60, "exp_us": us,
            "exp_off": off, "minus0": tz.startswith("-00:00") or tz == "-0000", "form": form}


OTHERS = ["o:none", "o:float", "o:str", "o:bytes", "o:intsub", "o:intsub0", "o:float0", "o:float5"]


def rnd_pv(rng, v):
    """mostly the int itself, sometimes a bool / other object in its place"""
    r = rng.random()
    if r < 0.9:
        return "i%d" % v
    if r < 0.95:
        return rng.choice(["bT", "bF"])
    return rng.choice(OTHERS)


def rnd_tsrepr(rng):
    r = rng.random()
    s, u = rnd_sec(rng), rnd_us(rng)
    if r < 0.55:
        a = rnd_pv(rng, s) if rng.random() < 0.9 else "absent"
        b = rnd_pv(rng, u) if rng.random() < 0.8 else "absent"
        return "dict:%s|%s" % (a, b)
    if r < 0.85:
        return "int:" + (("i%d" % s) if rng.random() < 0.9 else rng.choice(["bT", "bF"]))
    if r < 0.93:
        return "other:" + rng.choice(["none", "float", "str"])
    return "missing"


# ------------------------------------------------ dict forms: recorded bytes, legacy numeric form, or BOTH
def canon_bytes(off, neg=False):
    """the +HHMM / -HHMM spelling the numeric form gets (harness-side, independent of the code)"""
    h, m = divmod(abs(off), 60)
    return (("-" if off < 0 or neg else "+") + "%02d%02d" % (h, m)).encode()


NONCANON = [b"+200", b"+0160", b"+1", b"", b"+00130", b"-54608", b"+02", b"-2", b"+2000000000", b"UTC", b"+01:30",
            b"\xff\xfe", b"+0130\n", b" +0130"]
DICT_TS = ["dict:i%d|i%d", "dict:i%d|absent", "int:i%d", "dict:absent|i%d"]
DICT_TS_BAD = ["missing", "other:datetime", "other:iso", "other:str", "other:none", "other:float", "other:list",
               "dict:bT|i0", "dict:i0|bF", "int:bT", "dict:i%d|i0" % (MAX_S + 1), "dict:i0|i1000000", "dict:o:none|i0"]
DICT_OFFS = [0, 1, 120, -120, 330, -1, 1439, -720, 32767, -32768, 40000]


def mk_ts_tok(rng, form):
    s, u = rnd_sec(rng), rnd_us(rng, True)
    s = min(max(s, MIN_S), MAX_S)
    if form == "dict:i%d|i%d":
        return form % (s, u)
    if form == "dict:absent|i%d":
        return form % u
    return form % s


def bytes_choices(rng, off):
    """offset_bytes candidates for a dict whose legacy number is `off` (an int, or None when there is none)"""
    o = off if isinstance(off, int) else rng.choice(DICT_OFFS)
    other = rng.choice([x for x in DICT_OFFS if x != o])
    lens = src_ints(2, 70)
    extra = [offset_bytes_of_len(rng, rng.choice(lens)) for _ in range(2)] if lens else []
    return extra + [canon_bytes(o), canon_bytes(o, True) if o == 0 else canon_bytes(-o) if o else b"-0000",   # canonical / sign flipped
            canon_bytes(other), canon_bytes(o + 1),                                                 # a DIFFERENT number
            b"-0000", b"+0000"] + NONCANON


def gen_dicts(rng, tier):
    quick = tier == "quick"
    cases = []

    def add(t, ob, off, neg, extra=False):
        c = {"k": "dict", "t": t, "ob": ob, "off": off, "neg": neg}
        if extra:
            c["extra"] = True
        r = rng.random()
        if r < 0.12:
            c["wrap"] = rng.choice(["ordered", "sub", "ordered", "sub", "proxy"])
        if t.startswith("dict:") and rng.random() < 0.12:
            c["tswrap"] = rng.choice(["ordered", "sub"])
        if ob not in ("absent", "nonbytes") and rng.random() < 0.1:
            c["ob"] = "sub:" + ob
        elif ob == "nonbytes" and rng.random() < 0.7:
            c["ob"] = "nonbytes:" + rng.choice(["bytearray", "none", "list", "int", "str"])
        if neg in (True, False) and rng.random() < 0.2:
            c["neg"] = rng.choice([1, "s:x"]) if neg else rng.choice([0, "s:"])
        if off in (0, 1) and rng.random() < 0.3:
            c["off"] = bool(off)
        cases.append(c)
    offs = DICT_OFFS + rng.sample(src_ints(-70000, 70000), min(4 if quick else 40, len(src_ints(-70000, 70000)))) + ["absent", "none"]
    negs = ["absent", "none", False, True]
    # systematic: every (legacy number or none) x (bytes absent / non-bytes / canonical / non-canonical / other number)
    # x negative_utc (absent, None, False, True - so also contradicting the bytes), on acceptable timestamps
    for off in offs:
        obs = ["absent", "nonbytes"] + [b.hex() for b in bytes_choices(rng, off)]
        for ob in obs:
            for neg in negs:
                reps = 1 if quick else 4
                for _ in range(reps):
                    add(mk_ts_tok(rng, rng.choice(DICT_TS)), ob, off, neg, rng.random() < 0.2)
    # flags that are truthy / falsy without being booleans, on the number-only and the both-keys form
    for off in (0, 120, -120, False):
        for neg in (0, 1, "s:", "s:x", "s:0"):
            for ob in ("absent", canon_bytes(off).hex(), b"-0000".hex()):
                add(mk_ts_tok(rng, rng.choice(DICT_TS)), ob, off, neg)
    # unacceptable / unusual "timestamp" members with every key combination
    for t in DICT_TS_BAD:
        for off in (120, "absent", "none"):
            for ob in ("absent", "nonbytes", b"+0200".hex(), b"+200".hex()):
                add(t, ob, off, rng.choice(negs), rng.random() < 0.2)
    # random
    for _ in range(1500 if quick else 40000):
        off = rng.choice(offs) if rng.random() < 0.5 else rnd_off16(rng)
        r = rng.random()
        if r < 0.15:
            ob = "absent"
        elif r < 0.2:
            ob = "nonbytes"
        elif r < 0.6:
            ob = rng.choice(bytes_choices(rng, off)).hex()
        else:
            ob = rnd_offset_bytes(rng).hex()
        t = mk_ts_tok(rng, rng.choice(DICT_TS)) if rng.random() < 0.85 else (rng.choice(DICT_TS_BAD) if rng.random() < 0.5 else rnd_tsrepr(rng))
        add(t, ob, off, rng.choice(negs), rng.random() < 0.2)
    return cases


def ts_expect(t):
    """(seconds, microseconds) a "timestamp" member denotes when acceptable, else None"""
    if t == "missing" or t.startswith("other"):
        return None
    v = tsrepr_value(t)
    if isinstance(v, dict):
        s, u = v.get("seconds", 0), v.get("microseconds", 0)
    else:
        s, u = v, 0
    if type(s) is int and type(u) is int and MIN_S <= s <= MAX_S and MIN_US <= u <= MAX_US:
        return (s, u)
    return None


def gen(rng, tier):
    quick = tier == "quick"
    cases = []
    # 1. the whole 16-bit x flag grid, both tiers
    for lo in range(-32768, 32768, 1024):
        cases.append({"k": "grid", "lo": lo, "n": 1024})
    cases.append({"k": "grid", "lo": -33000, "n": 232})       # just outside the range: the assert fires
    cases.append({"k": "grid", "lo": 32768, "n": 232})
    # 2. Timestamp construction, format_date
    for s in SEC_EDGE:
        for u in US_POOL:
            cases.append({"k": "ts", "s": "i%d" % s, "us": "i%d" % u})
    for tok in ["bT", "bF"] + OTHERS:
        cases.append({"k": "ts", "s": tok, "us": "i0"})
        cases.append({"k": "ts", "s": "i0", "us": tok})
        cases.append({"k": "ts", "s": "i%d" % (MAX_S + 1), "us": tok})
        cases.append({"k": "ts", "s": tok, "us": "i-1"})
    for _ in range(3000 if quick else 60000):
        cases.append({"k": "ts", "s": rnd_pv(rng, rnd_sec(rng)), "us": rnd_pv(rng, rnd_us(rng))})
    # 3. from_numeric_offset with real timestamps
    # (the small systematic block first: offsets 0 / bool / negative x flags of every type and truth value)
    for off in (0, True, False, -1, -720):
        for neg in (False, True, 1, 0, "none", "s:x", "s:"):
            cases.append({"k": "num", "s": "i%d" % rnd_sec(rng), "us": "i%d" % rnd_us(rng, True), "off": off, "neg": neg,
                          "kw": rng.random() < 0.5})
    for _ in range(2000 if quick else 40000):
        off = rnd_off16(rng)
        neg = rng.random() < (0.5 if off <= 0 else 0.1)
        if rng.random() < 0.25:       # truthy / falsy objects that are not booleans
            neg = rng.choice([1, "s:x", "s:-"]) if neg else rng.choice([0, "none", "s:"])
        c = {"k": "num", "s": "i%d" % rnd_sec(rng), "us": "i%d" % rnd_us(rng), "off": off, "neg": neg}
        if rng.random() < 0.3:
            c["kw"] = True
        cases.append(c)
    for off in (10 ** 30, -10 ** 30, 2 ** 63, -2 ** 63, 60 * 10 ** 20 + 59):     # far outside: the assert fires, nothing else
        cases.append({"k": "num", "s": "i0", "us": "i0", "off": off, "neg": False})
    # 4. aware datetimes: every fixed whole-minute offset, a few other offsets, named zones
    reps = 2 if quick else 12
    for k in range(-1439, 1440):
        for _ in range(reps):
            cases.append(gen_dt_fixed(rng, 60 * k))
    for _ in range(400 if quick else 8000):
        cases.append(gen_dt_fixed(rng, rng.choice([561, -561, 1, -1, 59, -59, 86399, -86399, rng.randrange(-86399, 86400)])))
    for k in src_ints(-1439, 1439):                      # whole-minute offsets at harvested constants
        cases.append(gen_dt_fixed(rng, 60 * k))
    for k in rng.sample(src_ints(-86399, 86399), min(40, len(src_ints(-86399, 86399)))):   # ... and as seconds
        cases.append(gen_dt_fixed(rng, k))
    if ZONES:
        for _ in range(3000 if quick else 120000):
            cases.append(gen_dt_zone(rng))
    if not quick:
        for _ in range(250000):
            k = src_draw(rng, -1439, 1439)
            cases.append(gen_dt_fixed(rng, 60 * (k if k is not None else rng.randrange(-1439, 1440))))
    # 4b. named zones AT their transitions: repeated hours with fold 0 and 1, gaps, edges (zoneinfo, dateutil, pytz)
    cases += gen_transitions(rng, tier)
    cases.append({"k": "naive", "wall_us": 0})
    for _ in range(6):
        cases.append({"k": "naive", "wall_us": rng.randrange(-10 ** 9, 2 * 10 ** 9) * M + rnd_us(rng, True), "how": "tznone"})
    for v in ("o:date", "o:proxy", "o:tstz-dict-str", "o:list", "o:bytes"):
        cases.append({"k": "other", "v": v})
    cases.append({"k": "naive", "wall_us": 978307200 * M + 5})
    for tz in TZENV_POOL:
        cases.append({"k": "naive", "wall_us": rng.randrange(-10 ** 9, 2 * 10 ** 9) * M + rnd_us(rng, True), "tzenv": tz})
    # 5. dict forms
    for _ in range(3000 if quick else 60000):
        r = rng.random()
        t = rnd_tsrepr(rng)
        if r < 0.45:
            ob = rnd_offset_bytes(rng)
            cases.append({"k": "dnew", "t": t, "ob": ob.hex() if rng.random() < 0.97 else "nonbytes"})
        elif r < 0.9:
            off = rnd_off16(rng) if rng.random() < 0.93 else None
            neg = rng.choice([None, False, False, True]) if (off is None or off <= 0 or rng.random() < 0.1) else rng.choice([None, False])
            cases.append({"k": "dold", "t": t, "off": off, "neg": neg})
        elif r < 0.97:
            cases.append({"k": "int", "v": ("i%d" % rnd_sec(rng)) if rng.random() < 0.9 else rng.choice(["bT", "bF"])})
        else:
            cases.append({"k": "other", "v": rng.choice(["o:none", "o:float", "o:str"])})
    # 5b. dict forms, systematically: bytes only, legacy number only, BOTH (agreeing, differently spelled, disagreeing)
    cases += gen_dicts(rng, tier)
    # 6. ISO-8601 strings
    for s in ["2020-01-01T00:00:00-00:00", "2020-01-01T00:00:00+00:00", "1969-12-31T23:59:59.999999-00:00",
              "1969-12-31T23:59:59.5+05:30", "0001-01-02T00:00:00Z", "9999-12-31T22:59:59Z", "9999-12-31T23:59:59Z",
              "0001-01-01T00:00:00Z", "2020-01-01T00:00:00.000001-0000", "2020-01-01 00:00:00-00"]:
        m = re.match(r"(\d+)-(\d+)-(\d+)[T ](\d+):(\d+):(\d+)(?:\.(\d+))?(.*)$", s)
        y, mo, d, H, Mi, S = (int(x) for x in m.groups()[:6])
        frac, tz = m.group(7) or "", m.group(8)
        off = 0
        mt = re.match(r"([+-])(\d\d):?(\d\d)?$", tz)
        if mt:
            off = (int(mt.group(2)) * 60 + int(mt.group(3) or 0)) * (1 if mt.group(1) == "+" else -1)
        cases.append({"k": "iso", "str": s, "exp_epoch_s": calendar.timegm((y, mo, d, H, Mi, S)) - off * 60,
                      "exp_us": int((frac + "000000")[:6]) if frac else 0, "exp_off": off,
                      "minus0": tz in ("-00:00", "-0000", "-00")})
    for _ in range(2000 if quick else 40000):
        cases.append(gen_iso(rng))
    for _ in range(700 if quick else 20000):
        cases.append(gen_iso_forms(rng))
    # 7a. offset bytes of every total length around a harvested small constant (a 5-vs-6-byte guard, a digit-count limit)
    for L in src_ints(2, 70):
        for _ in range(2 if quick else 12):
            ob = offset_bytes_of_len(rng, L)
            cases.append({"k": "pob", "ob": ob.hex()})
            cases.append({"k": "dnew", "t": "int:i%d" % min(max(rnd_sec(rng), MIN_S), MAX_S), "ob": ob.hex()})
    # 7. raw offset bytes in the modelled domain
    for _ in range(1500 if quick else 30000):
        ob = rnd_offset_bytes(rng)
        if re.fullmatch(rb"[+-][0-9]+", ob):
            cases.append({"k": "pob", "ob": ob.hex()})
    # 8. a share of the cases runs with a non-UTC machine zone (TZ + tzset): nothing here may depend on it
    for c in cases:
        if c["k"] != "grid" and "tzenv" not in c and rng.random() < (0.3 if "where" in c else 0.12):
            c["tzenv"] = rng.choice(TZENV_POOL)
    return cases


def nontrivial(c):
    k = c["k"]
    if k == "grid":
        return True
    if k in ("ts", "num"):
        return not (c["s"].startswith("i") and c["us"] == "i0" and int(c["s"][1:]) >= 0) or (k == "num" and c["off"] % 60 != 0)
    if k == "dt":
        return "where" in c or c["wall_us"] % M != 0 or c.get("off_s", 1) % 3600 != 0 or c["wall_us"] < 0
    if k == "iso":
        return c["exp_us"] != 0 or c["exp_off"] % 60 != 0 or c["minus0"] or c["exp_epoch_s"] < 0
    if k in ("dnew", "dold", "dict"):
        return c["t"] != "dict:i0|i0"
    return True


def classify(c):
    k = c["k"]
    ks = ["kind=" + k]
    if k == "grid":
        ks.append("grid-points=%d" % (2 * c["n"]))
    if k == "dt":
        ks.append("dt:named-zone" if "zone" in c else ("dt:whole-minute" if c["off_s"] % 60 == 0 else "dt:odd-offset"))
        ks.append("dt:us!=0" if c["wall_us"] % M else "dt:us=0")
        if "zone" in c:
            ks.append("dt:lib=" + c.get("lib", "zoneinfo"))
        if "where" in c:
            ks.append("dt:at-transition:%s%s" % (c["where"], (" fold=%d us%s0" % (c["fold"], "!=" if c["wall_us"] % M else "="))
                                                 if c["where"] in ("repeated", "gap") else ""))
    if k == "dt" and (c.get("tzclass") or c.get("dtsub")):
        ks.append("dt:custom-tzinfo-class" if c.get("tzclass") else "dt:datetime-subclass")
    if k == "num" and (isinstance(c["off"], bool) or c["neg"] not in (True, False) or c.get("kw")):
        ks.append("num:bool-offset / non-bool flag / keyword call")
    if k == "iso" and c.get("form"):
        ks.append("iso:form=" + c["form"])
    if c.get("tzenv"):
        ks.append("machine-zone!=UTC")
    if k == "ts" and c["s"].startswith("i") and c["us"].startswith("i"):
        s, u = int(c["s"][1:]), int(c["us"][1:])
        ks.append("ts:" + ("in-range" if MIN_S <= s <= MAX_S and 0 <= u < M else "rejected"))
        if 0 < u < M:
            ks.append("ts:trailing-zeros" if u % 10 == 0 else "ts:no-trailing-zero")
    if k in ("num", "dold") and c.get("off") is not None:
        off, neg = c["off"], neg_truth(c.get("neg"))
        ks.append("off:" + ("neg&pos->assert" if neg and off > 0 else "out-of-16bit" if not -32768 <= off < 32768
                            else "-0000" if neg and off == 0 else "zero" if off == 0 else "negative" if off < 0 else "positive"))
    if k == "dict":
        has_b, has_n = c["ob"] != "absent", c["off"] != "absent"
        ks.append("dict:" + ("both" if has_b and has_n else "bytes-only" if has_b else "number-only" if has_n else "neither"))
        if has_b and isinstance(c["off"], int) and not c["ob"].startswith("nonbytes"):
            b = bytes(ob_value(c["ob"]))
            ks.append("dict:both:" + ("bytes canonical for the number" if b == canon_bytes(c["off"], neg_truth(c["neg"]))
                                      else "bytes spell another number / not canonical"))
        if c.get("extra"):
            ks.append("dict:extra-keys")
        if c.get("wrap") or c.get("tswrap"):
            ks.append("dict:container=%s/%s" % (c.get("wrap", "dict"), c.get("tswrap", "dict")))
        if c["ob"].startswith(("sub:", "nonbytes:")):
            ks.append("dict:offset_bytes-type=" + c["ob"].split(":")[0 if c["ob"].startswith("sub") else 1])
        if c["neg"] not in ("absent", "none", True, False) or isinstance(c["off"], bool):
            ks.append("dict:flag-or-offset-of-another-type")
    if k == "iso":
        ks.append("iso:-00:00" if c["minus0"] else "iso:other")
    if k == "pob":
        ks.append("pob:short" if len(c["ob"]) // 2 <= 3 else "pob:long")
    return ks


# ---------------------------------------------------------------- implementation side
def show_impl(x):
    res = {"s": x.timestamp.seconds, "us": x.timestamp.microseconds, "ob": core.hx(x.offset_bytes)}
    try:
        res["om"] = x.offset_minutes()
    except Exception as e:
        res["om"] = "!" + core.exc_class(e)
    res["fd"] = core.hx(format_date(x.timestamp))
    res["ap"] = core.hx(format_author_data(NOBODY, x))
    try:
        res["td"] = abstr(x.to_datetime())
    except Exception as e:
        res["td"] = "!" + core.exc_class(e)
    # the other routes are walked for a deterministic third of the objects (a function of the object alone, so that a
    # replay behaves like the run), and for every object with non-canonical offset bytes
    if (x.timestamp.seconds + x.timestamp.microseconds + len(x.offset_bytes)) % 3 == 0 or len(x.offset_bytes) != 5:
        res["rt"] = routes_check(x)
    return res


def routes_check(x):
    """the other public routes to the same object: to_dict() has the documented shape, from_dict(to_dict()) and the
    direct constructor (keywords and positional) give an equal object with equal hash and the same bytes"""
    try:
        d = x.to_dict()
        want = {"timestamp": {"seconds": x.timestamp.seconds, "microseconds": x.timestamp.microseconds},
                "offset_bytes": x.offset_bytes}
        if d != want or type(d["offset_bytes"]) is not type(x.offset_bytes):
            return "to_dict() is %r" % (d,)
        if x.timestamp.to_dict() != want["timestamp"]:
            return "Timestamp.to_dict() is %r" % (x.timestamp.to_dict(),)
        for how, y in (("from_dict(to_dict())", TSTZ.from_dict(d)),
                       ("keyword constructor", TSTZ(timestamp=Timestamp(seconds=x.timestamp.seconds,
                                                                        microseconds=x.timestamp.microseconds),
                                                    offset_bytes=x.offset_bytes)),
                       ("positional constructor", TSTZ(Timestamp(x.timestamp.seconds, x.timestamp.microseconds), x.offset_bytes)),
                       ("from_dict(Timestamp.to_dict())", TSTZ(Timestamp.from_dict(x.timestamp.to_dict()), x.offset_bytes))):
            if y != x or hash(y) != hash(x) or y.offset_bytes != x.offset_bytes or \
                    (y.timestamp.seconds, y.timestamp.microseconds) != (x.timestamp.seconds, x.timestamp.microseconds):
                return "%s gives %r for %r" % (how, y, x)
    except Exception as e:
        return "route raised " + core.exc_class(e)
    return "ok"


_GRID_IMPL, _GRID_MODEL = {}, {}     # (lo, n) -> full per-point lists (kept out of the evidence file)


def _digest(lst):
    import hashlib
    return {"points": len(lst), "rejected": sum(1 for e in lst if e.startswith("!")),
            "sha1": hashlib.sha1(",".join(lst).encode()).hexdigest()}


def grid_impl(lo, n):
    t = Timestamp(seconds=0, microseconds=0)
    out = []
    for off in range(lo, lo + n):
        for neg in (False, True):
            try:
                x = TSTZ.from_numeric_offset(t, off, neg)
                out.append(x.offset_bytes.hex() + ":" + str(x.offset_minutes()))
            except Exception as e:
                out.append("!" + core.exc_class(e))
    return out


def impl(c):
    with tzenv(c.get("tzenv")):
        return _impl(c)


def _impl(c):
    k = c["k"]
    try:
        if k == "grid":
            full = grid_impl(c["lo"], c["n"])
            _GRID_IMPL[(c["lo"], c["n"])] = full
            return {"grid": _digest(full)}
        if k == "ts":
            t = Timestamp(seconds=pv(c["s"]), microseconds=pv(c["us"]))
            fd = format_date(t)
            fd2 = format_date({"seconds": pv(c["s"]), "microseconds": pv(c["us"])})
            t2, t3 = Timestamp(pv(c["s"]), pv(c["us"])), Timestamp.from_dict({"microseconds": pv(c["us"]), "seconds": pv(c["s"])})
            rt = "ok" if t2 == t and t3 == t and hash(t2) == hash(t) and format_date(t2) == fd and format_date(t3) == fd \
                else "positional / from_dict construction differs"
            return {"s": t.seconds, "us": t.microseconds, "fd": core.hx(fd), "fd_dict": core.hx(fd2), "rt": rt}
        if k == "num":
            t = Timestamp(seconds=pv(c["s"]), microseconds=pv(c["us"]))
            if c.get("kw"):
                return show_impl(TSTZ.from_numeric_offset(negative_utc=neg_value(c["neg"]), offset=c["off"], timestamp=t))
            return show_impl(TSTZ.from_numeric_offset(t, c["off"], neg_value(c["neg"])))
        if k == "dnew":
            d = {"offset_bytes": "+0000" if c["ob"] == "nonbytes" else core.unhx(c["ob"] or ".")}
            if c["t"] != "missing":
                d["timestamp"] = tsrepr_value(c["t"])
            return show_impl(TSTZ.from_dict(d))
        if k == "dold":
            d = {}
            if c["t"] != "missing":
                d["timestamp"] = tsrepr_value(c["t"])
            if c["off"] is not None:
                d["offset"] = c["off"]
            if c["neg"] is not None:
                d["negative_utc"] = c["neg"]
            return show_impl(TSTZ.from_dict(d))
        if k == "dict":
            import collections
            import copy
            import types
            d = {}
            if c["t"] != "missing":
                tv = tsrepr_value(c["t"])
                if isinstance(tv, dict) and c.get("tswrap"):
                    tv = {"ordered": collections.OrderedDict, "sub": DictSub}[c["tswrap"]](tv)
                d["timestamp"] = tv
            if c["ob"] != "absent":
                d["offset_bytes"] = ob_value(c["ob"])
            if c["off"] != "absent":
                d["offset"] = None if c["off"] == "none" else c["off"]
            if c["neg"] != "absent":
                d["negative_utc"] = neg_value(c["neg"])
            if c.get("extra"):
                d["offset_str"] = "+0100"
                d["tz"] = "Europe/Paris"
                d[""] = None
            w = c.get("wrap")
            if w == "ordered":
                d = collections.OrderedDict(reversed(list(d.items())))
            elif w == "sub":
                d = DictSub(d)
            elif w == "proxy":
                d = types.MappingProxyType(d)
            keep = copy.deepcopy(dict(d))
            res = show_impl(TSTZ.from_dict(d))
            if dict(d) != keep:
                return {"error": "harness-detected: from_dict changed its argument"}
            res2 = show_impl(TSTZ.from_dict(d))           # the same call again: nothing may be remembered
            if res2 != res:
                return {"error": "harness-detected: from_dict gives another result the second time"}
            return res
        if k == "dt":
            dt = dt_of_case(c)
            r1 = show_impl(TSTZ.from_datetime(dt))
            r2 = show_impl(TSTZ.from_dict(dt))
            if r1 != r2:
                return {"error": "from_datetime and from_dict(datetime) differ"}
            return r1
        if k == "naive":
            w = mk_wall(c["wall_us"])
            return show_impl(TSTZ.from_datetime(w.replace(tzinfo=NoneTz()) if c.get("how") == "tznone" else w))
        if k == "int":
            return show_impl(TSTZ.from_dict(pv(c["v"])))
        if k == "other":
            return show_impl(TSTZ.from_dict(pv(c["v"])))
        if k == "iso":
            return show_impl(TSTZ.from_iso8601(c["str"]))
        if k == "pob":
            return {"om": TSTZ._parse_offset_bytes(core.unhx(c["ob"]))}
    except Exception as e:
        return {"error": core.exc_class(e)}
    return {"error": "bad case"}


# ---------------------------------------------------------------- model side
def requests(c):
    k = c["k"]
    if k == "grid":
        return ["grid %d %d" % (c["lo"], c["n"])]
    if k == "ts":
        return ["ts %s %s" % (pv_tok(c["s"]), pv_tok(c["us"]))]
    if k == "num":
        return ["num %s %s %d %s" % (pv_tok(c["s"]), pv_tok(c["us"]), c["off"], "T" if neg_truth(c["neg"]) else "F")]
    if k == "dnew":
        return ["dnew %s %s" % (tsrepr_tok(c["t"]), c["ob"] if c["ob"] else ".")]
    if k == "dold":
        return ["dold %s %s %s" % (tsrepr_tok(c["t"]), "absent" if c["off"] is None else c["off"],
                                   "absent" if c["neg"] is None else ("T" if c["neg"] else "F"))]
    if k == "dict":
        if c.get("wrap") == "proxy":
            return ["other"]                     # a Mapping that is not a dict: like any other object
        return ["dict %s %s %s %s" % (tsrepr_tok(c["t"]), ob_tok(c["ob"]) if c["ob"] != "absent" else "absent",
                                      ("%d" % c["off"]) if isinstance(c["off"], int) else c["off"],
                                      "absent" if c["neg"] == "absent" else ("T" if neg_truth(c["neg"]) else "F"))]
    if k == "dt":
        a = abstr(dt_of_case(c))          # the input datetime as the model sees it (zoneinfo gives the offset)
        if a is None:
            return []
        return ["dt %d %d" % (a[0], a[1])]
    if k == "naive":
        return ["naive"]
    if k == "int":
        return ["int " + pv_tok(c["v"])]
    if k == "other":
        return ["other"]
    if k == "iso":
        import iso8601
        try:
            dt = iso8601.parse_date(c["str"])          # the ISO parser is an oracle of the model
        except Exception:
            return []
        a = abstr(dt)
        return ["iso %d %d %s" % (a[0], a[1], "T" if dt.tzname() == "-00:00" else "F")]
    if k == "pob":
        return ["pob " + c["ob"]]
    return []


def _num(s):
    return ("!" + ERRMAP.get(s[1:], s[1:])) if s.startswith("!") else int(s)


def model(c, resp):
    if not resp:
        return {"skipped": True}
    r = resp[0].split(" ")
    if r[0] == "err":
        return {"error": ERRMAP.get(r[1], " ".join(r[1:]))}
    if r[0] != "ok":
        return {"model_error": resp[0]}
    k = c["k"]
    if k == "grid":
        out = []
        for e in r[1].split(","):
            out.append(e if ":" in e else "!" + ERRMAP.get(e, e))
        _GRID_MODEL[(c["lo"], c["n"])] = out
        return {"grid": _digest(out)}
    if k == "ts":
        return {"s": int(r[1]), "us": int(r[2]), "fd": r[3], "pd": r[4]}
    if k == "pob":
        return {"om": int(r[1])}
    td = r[7]
    return {"s": int(r[1]), "us": int(r[2]), "ob": r[3], "om": _num(r[4]), "fd": r[5], "ap": r[6],
            "td": ("!" + ERRMAP.get(td[1:], td[1:])) if td.startswith("!") else [int(x) for x in td.split(",")]}


# ---------------------------------------------------------------- the property on the implementation
def exp_text(s, us):
    """None if (text) is the exact decimal of seconds and microseconds"""
    def chk(text):
        if us == 0:
            return None if text == str(s).encode() else "date text %r is not the decimal of %d" % (text, s)
        head, dot, frac = text.partition(b".")
        if not dot or head != str(s).encode():
            return "date text %r does not start with the decimal of %d followed by '.'" % (text, s)
        if not (1 <= len(frac) <= 6 and frac.isdigit() and frac.isascii()):
            return "fraction %r is not 1..6 digits" % frac
        if frac.endswith(b"0"):
            return "fraction %r keeps a trailing zero" % frac
        if int(frac) * 10 ** (6 - len(frac)) != us:
            return "fraction %r does not denote %d microseconds exactly" % (frac, us)
        return None
    return chk


def describe(dt, c):
    """the datetime with its zone, library, fold and machine zone, for oracle messages"""
    if "zone" not in c:
        return dt.isoformat() + (" [TZ=%s]" % c["tzenv"] if c.get("tzenv") else "")
    return "%s [%s via %s, fold=%d%s%s]" % (dt.isoformat(), c["zone"], c.get("lib", "zoneinfo"), c.get("fold", 0),
                                             ", " + c["where"] if "where" in c else "",
                                             ", TZ=" + c["tzenv"] if c.get("tzenv") else "")


OFF_RE = re.compile(rb"[+-][0-9]{4,}")


def oracle_offset(off, neg, ok, ob, om):
    """from_numeric_offset(off, neg) on the 16-bit range"""
    if not -32768 <= off <= 32767:
        return None
    if neg and off > 0:
        # outside the property's domain (negative UTC is meaningful for offset 0, harmless below): rejecting is fine,
        # accepting is fine only if the numeric form still round-trips
        if ok and om != off:
            return "offset %d with negative_utc accepted but reads back as %r" % (off, om)
        return None
    if not ok:
        return "from_numeric_offset(%d, %s) rejected" % (off, neg)
    if om != off:
        return "offset %d recorded as %r reads back as %r" % (off, ob, om)
    if not OFF_RE.fullmatch(ob):
        return "recorded offset bytes %r are not [+-]HHMM" % ob
    if (ob == b"-0000") != (off == 0 and neg):
        return "offset %d negative_utc=%s recorded as %r" % (off, neg, ob)
    return None


def oracle_tstz_common(ires):
    """format_date text of an accepted object, and the manifest part"""
    if "fd" in ires and isinstance(ires.get("s"), int):
        why = exp_text(ires["s"], ires["us"])(core.unhx(ires["fd"]))
        if why:
            return why
        if not (MIN_S <= ires["s"] <= MAX_S and MIN_US <= ires["us"] <= MAX_US):
            return "out-of-range timestamp (%d, %d) accepted" % (ires["s"], ires["us"])
        if "ap" in ires and core.unhx(ires["ap"]) != b" " + core.unhx(ires["fd"]) + b" " + core.unhx(ires["ob"]):
            return "manifest date part is not ' <date> <offset bytes>'"
    return None


def oracle(c, ires, mres):
    k = c["k"]
    ok = "error" not in ires
    if ires.get("error") in ("bad case", "Timeout") or (not ok and ires["error"].startswith(("from_datetime and", "harness-detected:"))):
        return "implementation: " + ires["error"]
    why = oracle_tstz_common(ires) if ok else None
    if ok and ires.get("rt", "ok") != "ok":
        return "routes to the same object disagree: " + ires["rt"]
    if why:
        return why
    if k == "grid":
        i = 0
        full = _GRID_IMPL[(c["lo"], c["n"])]
        for off in range(c["lo"], c["lo"] + c["n"]):
            for neg in (False, True):
                e = full[i]
                i += 1
                good = not e.startswith("!")
                ob, om = (bytes.fromhex(e.split(":")[0]), int(e.split(":")[1])) if good else (None, None)
                why = oracle_offset(off, neg, good, ob, om)
                if why:
                    return why
        return None
    if k == "ts":
        s, u = pv(c["s"]), pv(c["us"])
        legal = type(s) is int and type(u) is int and MIN_S <= s <= MAX_S and MIN_US <= u <= MAX_US
        if legal and not ok:
            return "Timestamp(%r, %r) rejected" % (s, u)
        if not legal and ok:
            return "Timestamp(%r, %r) accepted" % (s, u)
        if not legal and ires["error"] != "ValueError":
            return "Timestamp(%r, %r) rejected with %s, not a ValueError" % (s, u, ires["error"])
        if ok:
            if (ires["s"], ires["us"]) != (s, u):
                return "Timestamp(%r, %r) stores (%r, %r)" % (s, u, ires["s"], ires["us"])
            if ires["fd"] != ires["fd_dict"]:
                return "format_date differs between the object and its dict"
        return None
    if k == "num":
        s, u = pv(c["s"]), pv(c["us"])
        if not (MIN_S <= s <= MAX_S and MIN_US <= u <= MAX_US):
            return None if not ok else "out-of-range timestamp accepted"
        if ok and (ires["s"], ires["us"]) != (s, u):
            return "timestamp changed"
        return oracle_offset(c["off"], neg_truth(c["neg"]), ok, core.unhx(ires["ob"]) if ok else None, ires.get("om"))
    if k == "dold":
        if ok and c["off"] is not None:
            return oracle_offset(c["off"], bool(c["neg"]), ok, core.unhx(ires["ob"]), ires.get("om"))
        return None
    if k == "dnew":
        if ok and c["ob"] != "nonbytes" and core.unhx(ires["ob"]) != core.unhx(c["ob"] or "."):
            return "offset_bytes %r recorded as %r" % (core.unhx(c["ob"] or "."), core.unhx(ires["ob"]))
        return None
    if k == "dict":
        exp = ts_expect(c["t"])
        if exp is None:
            return None if not ok else "unacceptable timestamp member %r accepted" % c["t"]
        if c.get("wrap") == "proxy":
            return None
        if c["ob"] != "absent" and not c["ob"].startswith("nonbytes"):
            # recorded bytes (a bytes object or an instance of a subclass): kept verbatim, whatever else the dict carries
            want = bytes(ob_value(c["ob"]))
            if not ok:
                return "dict with recorded offset bytes %r (legacy offset %r, negative_utc %r) rejected with %s" % (
                    want, c["off"], c["neg"], ires["error"])
            if core.unhx(ires["ob"]) != want:
                return "recorded offset bytes %r (legacy offset %r, negative_utc %r) came out as %r" % (
                    want, c["off"], c["neg"], core.unhx(ires["ob"]))
            if (ires["s"], ires["us"]) != exp:
                return "timestamp %r read as (%r, %r)" % (c["t"], ires["s"], ires["us"])
            return None
        if c["ob"] == "absent" and isinstance(c["off"], int):
            # numeric form only: through the +HHMM / -HHMM rule
            neg = neg_truth(c["neg"])
            why = oracle_offset(c["off"], neg, ok, core.unhx(ires["ob"]) if ok else None, ires.get("om"))
            if why:
                return why
            if ok and -32768 <= c["off"] <= 32767 and not (neg and c["off"] > 0):
                if core.unhx(ires["ob"]) != canon_bytes(c["off"], neg):
                    return "offset %d negative_utc=%s recorded as %r, not %r" % (c["off"], neg, core.unhx(ires["ob"]),
                                                                                canon_bytes(c["off"], neg))
                if (ires["s"], ires["us"]) != exp:
                    return "timestamp %r read as (%r, %r)" % (c["t"], ires["s"], ires["us"])
        return None
    if k == "int":
        v = pv(c["v"])
        if type(v) is int and MIN_S <= v <= MAX_S:
            if not ok or (ires["s"], ires["us"], core.unhx(ires["ob"])) != (v, 0, b"+0000"):
                return "from_dict(%d) is not (%d, 0, +0000)" % (v, v)
        return None
    if k == "dt":
        dt = dt_of_case(c)
        a = abstr(dt)                       # instant = wall clock - utcoffset() of THIS datetime (its fold included)
        if a is None:
            return None
        e, off_s = a
        secs, us = e // M, e % M            # floor and remainder by integer arithmetic
        desc = describe(dt, c)
        if not (MIN_S <= secs <= MAX_S):
            return None if not ok else "datetime outside the timestamp range accepted"
        if not ok:
            return "aware datetime %s (in range) rejected with %s" % (desc, ires["error"])
        if (ires["s"], ires["us"]) != (secs, us):
            return "datetime %s: seconds/microseconds (%d, %d), expected floor/remainder (%d, %d)" % (
                desc, ires["s"], ires["us"], secs, us)
        if off_s % 60 == 0:
            if ires["om"] != off_s // 60:
                return "datetime %s: offset %r minutes, expected %d" % (desc, ires["om"], off_s // 60)
            if ires["td"] != [e, off_s]:
                return "datetime %s does not round-trip: to_datetime gives %r" % (desc, ires["td"])
            # (Python's == on aware datetimes is deliberately False across zones when one side sits in a DST
            #  gap/fold, so the instants are compared by subtraction and the offsets separately)
            with tzenv(c.get("tzenv")):
                back = TSTZ.from_datetime(dt).to_datetime()
            if back - dt != D.timedelta(0) or back.utcoffset() != dt.utcoffset():
                return "datetime %s does not round-trip" % desc
            if core.unhx(ires["ob"]) == b"-0000":
                return "-0000 produced from a datetime"
        elif isinstance(ires["td"], list) and ires["td"][0] != e:
            return "datetime %s: instant not kept" % desc
        return None
    if k == "iso":
        if not (MIN_S <= c["exp_epoch_s"] <= MAX_S):
            return None
        if not ok:
            return "ISO string %r (in range) rejected with %s" % (c["str"], ires["error"])
        if (ires["s"], ires["us"]) != (c["exp_epoch_s"], c["exp_us"]):
            return "ISO string %r: (%d, %d), expected (%d, %d)" % (c["str"], ires["s"], ires["us"], c["exp_epoch_s"], c["exp_us"])
        if ires["om"] != c["exp_off"]:
            return "ISO string %r: offset %r, expected %d" % (c["str"], ires["om"], c["exp_off"])
        if (core.unhx(ires["ob"]) == b"-0000") != c["minus0"]:
            return "ISO string %r: offset bytes %r" % (c["str"], core.unhx(ires["ob"]))
        return None
    return None


# ---------------------------------------------------------------- model vs implementation
def compare(c, ires, mres):
    if mres.get("skipped"):
        return None
    if "model_error" in mres:
        return "model failed: " + str(mres)
    if c["k"] == "ts" and "pd" in mres and "error" not in ires:
        if mres["pd"] != "%d,%d" % (ires["s"], ires["us"]):
            return "independent decoder reads %s from the date text of (%d, %d)" % (mres["pd"], ires["s"], ires["us"])
    if "error" in mres or "error" in ires:
        if mres.get("error") == "Unmodelled":
            return None
        if mres.get("error") != ires.get("error"):
            return "implementation %s, model %s" % (ires.get("error", "ok"), mres.get("error", "ok"))
        return None
    for f in ("grid", "s", "us", "ob", "om", "fd", "ap", "td"):
        if f in mres:
            if mres[f] == "!Unmodelled":
                continue
            if f == "grid":
                if mres[f] != ires[f]:
                    fm, fi = _GRID_MODEL[(c["lo"], c["n"])], _GRID_IMPL[(c["lo"], c["n"])]
                    bad = [i for i, (a, b) in enumerate(zip(fm, fi)) if a != b][:3]
                    return "grid differs at (offset, negative_utc, model, implementation) %s" % [
                        (c["lo"] + i // 2, bool(i % 2), fm[i], fi[i]) for i in bad]
                continue
            if mres[f] != ires.get(f):
                return "%s: implementation %r, model %r" % (f, ires.get(f), mres[f])
    return None


def shrink(c):
    if c["k"] == "grid" and c["n"] > 1:
        h = c["n"] // 2
        yield {"k": "grid", "lo": c["lo"], "n": h}
        yield {"k": "grid", "lo": c["lo"] + h, "n": c["n"] - h}
    if c.get("tzenv"):
        yield {k: v for k, v in c.items() if k != "tzenv"}
    if c["k"] == "dict":
        if c.get("extra"):
            yield {k: v for k, v in c.items() if k != "extra"}
        if c["neg"] != "absent":
            yield dict(c, neg="absent")
        if c["t"] != "int:i0":
            yield dict(c, t="int:i0")
    if c["k"] == "dt":
        if c.get("lib", "zoneinfo") != "zoneinfo":
            yield dict(c, lib="zoneinfo")
        if c["wall_us"] % M:
            yield dict(c, wall_us=c["wall_us"] - c["wall_us"] % M)
            if c["wall_us"] % M != 1:
                yield dict(c, wall_us=c["wall_us"] - c["wall_us"] % M + 1)
        if "off_s" in c and c["off_s"]:
            yield dict(c, off_s=0)


# functions of /repo whose executed-line coverage by this run is reported in the evidence
ANCHORS = [('swh/model/model.py', 'Timestamp.*'),
           ('swh/model/model.py', 'TimestampWithTimezone.*'),
           ('swh/model/git_objects.py', 'format_date')]


# the case stream is ordered by kind (the first 25 cases are all offset grids): coq_cases gets every case and keeps
# a few of each kind (it shrinks the list it is given IN PLACE, so that the evidence's `n` is the number evaluated)
COQ_SAMPLE = 1 << 30
COQ_PER_KIND = 8


def coq_cases(cases):
    """every entry point of model/Time.v the driver serves (mk_timestamp, format_date, parse_date, from_numeric_offset incl.
    two offset grids, from_dict in all its forms, from_iso8601_parsed, parse_offset_bytes, offset_minutes, author_date_part,
    to_datetime) evaluated by vm_compute inside Coq vs the extracted driver (extraction cross-check).  The Coq terms are
    built from the very request lines the driver receives."""
    from . import core
    by_kind = {}
    for c in cases:
        by_kind.setdefault(c["k"], []).append(c)
    chosen = []
    for k in sorted(by_kind):
        l = by_kind[k]
        if k == "grid":
            sel = [l[0]] + [c for c in l if c["lo"] < -32768][:1]
        else:
            step = max(1, len(l) // COQ_PER_KIND)
            sel = l[::step][:COQ_PER_KIND]
        for c in sel:
            rq = requests(c)
            if rq and rq[0] not in {r for _, r in chosen}:
                chosen.append((c, rq[0]))
    cases[:] = [c for c, _ in chosen]
    reqs = [rq for _, rq in chosen]

    def z(s):
        return "(%d)%%Z" % int(s)
    def pyv(s):
        return "(VBool true)" if s == "bT" else "(VBool false)" if s == "bF" else "VOther" if s == "o" else "(VInt %s)" % z(s[1:])
    def opv(s):
        return "None" if s == "absent" else "(Some %s)" % pyv(s)
    def tsr(s):
        p = s.split(":")
        if p[0] == "missing":
            return "None"
        if p[0] == "other":
            return "(Some TsOther)"
        if p[0] == "int":
            return "(Some (TsInt %s))" % pyv(p[1])
        return "(Some (TsDict %s %s))" % (opv(p[1]), opv(p[2]))
    def nl(h):
        return "[" + "; ".join("%d" % b for b in core.unhx(h)) + "]%N"
    def flag(s):
        return "true" if s == "T" else "false"
    def term(rq):
        w = rq.split(" ")
        k = w[0]
        if k == "ts":
            return "ts_case %s %s" % (pyv(w[1]), pyv(w[2]))
        if k == "num":
            return "num_case %s %s %s %s" % (pyv(w[1]), pyv(w[2]), z(w[3]), flag(w[4]))
        if k == "grid":
            return "grid_case %s %d%%positive" % (z(w[1]), int(w[2]))
        if k == "dnew":
            return "show (from_dict (TRDict %s (Some %s) None None))" % (tsr(w[1]), "None" if w[2] == "nonbytes" else "(Some %s)" % nl(w[2]))
        if k == "dold":
            return "show (from_dict (TRDict %s None %s %s))" % (tsr(w[1]), "None" if w[2] == "absent" else "(Some (Some %s))" % z(w[2]),
                                                              "None" if w[3] == "absent" else "(Some %s)" % flag(w[3]))
        if k == "dict":
            return "show (from_dict (TRDict %s %s %s %s))" % (
                tsr(w[1]), "None" if w[2] == "absent" else "(Some None)" if w[2] == "nonbytes" else "(Some (Some %s))" % nl(w[2]),
                "None" if w[3] == "absent" else "(Some None)" if w[3] == "none" else "(Some (Some %s))" % z(w[3]),
                "None" if w[4] == "absent" else "(Some %s)" % flag(w[4]))
        if k == "dt":
            return "show (from_dict (TRDatetime {| epoch_us := %s; off_s := %s |}))" % (z(w[1]), z(w[2]))
        if k == "naive":
            return "show (from_dict TRNaive)"
        if k == "int":
            return "show (from_dict (TRInt %s))" % pyv(w[1])
        if k == "other":
            return "show (from_dict TROther)"
        if k == "iso":
            return "show (from_iso8601_parsed {| epoch_us := %s; off_s := %s |} %s)" % (z(w[1]), z(w[2]), flag(w[3]))
        if k == "pob":
            return "rz (parse_offset_bytes %s)" % nl(w[1])
        raise ValueError(rq)
    src = ("From Coq Require Import List NArith ZArith.\nFrom SWH.lib Require Import Bytes.\nFrom SWH.model Require Import Time.\n"
           "Import ListNotations.\n" + core.COQ_CHECKSUM + """
Definition zz (x : Z) : list N := [if (x <? 0)%Z then 1%N else 0%N; Z.abs_N x].
Definition en (e : err) : N := match e with ETimestampOverflow => 1 | EAttributeType => 2 | EValue => 3 | EAssertion => 4
  | EKey => 5 | EOverflow => 6 | EUnmodelled => 7 | EType => 8 end%N.
Definition rz (r : result Z) : list N := match r with Ok x => 20%N :: zz x | Err e => [en e] end.
Definition rtd (r : result adt) : list N := match r with Ok d => 21%N :: zz (epoch_us d) ++ zz (off_s d) | Err e => [en e] end.
Definition show (r : result tstz) : list N := match r with
  | Err e => [en e]
  | Ok x => [30%N] ++ zz (seconds (ts x)) ++ zz (microseconds (ts x)) ++ offset_bytes x ++ [300%N] ++ rz (offset_minutes x)
            ++ format_date (ts x) ++ [301%N] ++ author_date_part x ++ [302%N] ++ rtd (to_datetime x) end.
Definition short (r : result tstz) : list N := match r with Err e => [en e] | Ok x => offset_bytes x ++ [300%N] ++ rz (offset_minutes x) end.
Definition ts_case (s us : pyval) : list N := match mk_timestamp s us with
  | Err e => [en e]
  | Ok t => [31%N] ++ zz (seconds t) ++ zz (microseconds t) ++ format_date t ++ [303%N]
            ++ match parse_date (format_date t) with Some (a, b) => zz a ++ zz b | None => [9%N] end end.
Definition num_case (s us : pyval) (off : Z) (neg : bool) : list N := match mk_timestamp s us with
  | Err e => [en e] | Ok t => show (from_numeric_offset t off neg) end.
Definition grid_case (lo : Z) (n : positive) : list N :=
  let t := {| seconds := 0%Z; microseconds := 0%Z |} in
  concat (map (fun off => short (from_numeric_offset t off false) ++ [304%N] ++ short (from_numeric_offset t off true) ++ [304%N])
              (z_range lo n)).
""" + "Definition cases : list (list N) := [" + ";\n ".join(term(rq) for rq in reqs) + "].\nEval vm_compute in map cksum cases.\n")
    ERRN = {"TimestampOverflow": 1, "AttributeType": 2, "Value": 3, "Assertion": 4, "Key": 5, "Overflow": 6, "Unmodelled": 7, "Type": 8}
    def zz(n):
        n = int(n)
        return [1 if n < 0 else 0, abs(n)]
    def rz(s):
        return [ERRN[s[1:]]] if s.startswith("!") else [20] + zz(s)
    def short(e):
        if ":" not in e:
            return [ERRN[e]]
        ob, om = e.split(":")
        return list(core.unhx(ob)) + [300] + rz(om)
    def answer(rq, r):
        k = rq.split(" ")[0]
        w = r.split(" ")
        if w[0] == "err":
            return [ERRN[w[1]]]          # KeyError on an answer that is not in the protocol: reported as a crash
        if k == "grid":
            out = []
            for e in w[1].split(","):
                out += short(e) + [304]
            return out
        if k == "ts":
            return [31] + zz(w[1]) + zz(w[2]) + list(core.unhx(w[3])) + [303] + \
                ([9] if w[4] == "unparsed" else zz(w[4].split(",")[0]) + zz(w[4].split(",")[1]))
        if k == "pob":
            return [20] + zz(w[1])
        td = [ERRN[w[7][1:]]] if w[7].startswith("!") else [21] + zz(w[7].split(",")[0]) + zz(w[7].split(",")[1])
        return [30] + zz(w[1]) + zz(w[2]) + list(core.unhx(w[3])) + [300] + rz(w[4]) + list(core.unhx(w[5])) + [301] + \
            list(core.unhx(w[6])) + [302] + td
    resp = core.run_driver(ID, reqs)
    exp = [core.py_cksum(answer(rq, r)) for rq, r in zip(reqs, resp)]
    return src, exp
