ID = "C16"; PROPS = "Props/C16.v"; EXTRACT = "extract/ExC16.v"; OBLIGATION = "time"
THEOREMS = []
def gen(rng, tier): return []
def nontrivial(c): return True
def impl(c): return {}
def requests(c): return []
def model(c, r): return {}
def oracle(c, i, m): return None
def compare(c, i, m): return None
