"""C17 - archive discovery returns exactly the objects the archive lacks
(swh/model/discovery.py: filter_known_objects, RandomDirSamplingDiscoveryGraph).

A case is an abstract DAG over small integer ids (contents, skipped contents,
directories with their entry targets - possibly outside the set), the set of
ids the archive reports missing (upward closed: a directory with a missing
entry is missing), SAMPLE_SIZE and a sampling strategy.  impl() builds REAL
swh.model.model Content / SkippedContent / Directory objects, runs /repo's
filter_known_objects with a recording fake archive, SAMPLE_SIZE patched and the
name `random` inside swh.model.discovery replaced by an object whose `sample`
follows the strategy, and maps every real id back to the small integer.

Tie (the pop order of Python sets cannot be controlled, so nothing compared
depends on it):
  (1) trace inclusion: the extracted model is run with the implementation's
      own draws as the sampler oracle (FIFO pick oracle); it must accept every
      draw as admissible for random.sample's contract in the model's state,
      and give the same three result lists, the same MULTISET of callback
      events and the same multiset of archive queries (kind, set of ids);
  (2) the model run with unrelated oracles (LIFO pick, "last SAMPLE_SIZE"
      sampler) gives the same three result lists;
  (3) the model's closedb agrees that the generated archive is closed.
oracle(): the property evaluated directly on the implementation's behaviour.
Deep hierarchies (>= 1200 nested directories) get one model run (replay) each:
the extracted model is quadratic in the number of objects (about 0.4 s for 2000
objects, 1.5 s for 3500).
"""
import json
import os
import random as _random
import subprocess
import sys

from . import core

ID = "C17"
PROPS = "Props/C17.v"
EXTRACT = "extract/ExC17.v"
OBLIGATION = "filter_known_objects"
THEOREMS = ["C17_exact", "C17_exact_any_sampler", "C17_progress", "C17_callbacks", "C17_satisfiable"]
RULE = ("random DAGs of 0-25 objects (contents, skipped contents, directories built bottom-up with shared "
        "sub-directories, several roots, repeated targets, entries pointing outside the set), input lists shuffled; "
        "missing set = upward closure of random seeds, or empty, or everything; SAMPLE_SIZE in {1,2,3,1000}; "
        "random.sample replaced by seeded-random / deepest-first / shallowest-first; some cases re-run in "
        "subprocesses under other PYTHONHASHSEEDs (set.pop order).  Independently of the abstract case, the SHAPE of the "
        "Python objects handed to filter_known_objects varies per case: update_info_callback as function / lambda / bound "
        "method / functools.partial / callable instance / positional argument / callable instances whose truth value is "
        "False (__bool__; initially empty list, dict and Counter subclasses recording into themselves; a list subclass "
        "that stays empty) / None / omitted (then no event is expected); the archive as instance with closures, class "
        "with bound methods, callable-instance attributes (falsy), static methods on a falsy instance, __slots__; its "
        "answers as list / generator / iterator / tuple / set / frozenset / dict_keys; the input containers as list or "
        "list subclass (the code takes len() of them, so one-shot iterables are outside the signature); what each "
        "*_missing method does to the LIST IT RECEIVES after reading it: nothing / pops it empty / clear() / removes "
        "the known or the missing ids in place / sort / reverse / shuffle / extends it with foreign ids / replaces "
        "elements; further answer shapes: the very list received filtered in place, an iterator over it, one list the "
        "archive keeps and refills at every call (aliasing between rounds), ids as instances of a bytes subclass.  Every "
        "run is bounded by 3 x objects + 6 archive queries (NonTermination = violation).  The MODEL OBJECTS vary too (60 % of the cases, per object): Content "
        "status visible / hidden, with or without data and ctime; SkippedContent with reason and origin built from "
        "literals harvested from the source under test, with sha1 / sha256 / blake2s256 missing (sha1_git kept); "
        "Directory with raw_manifest (canonical, or a zero-padded-mode manifest with its own id), explicit id, "
        "executable files, entry names carrying harvested literals, 'rev' entries for targets outside the set; objects "
        "built by __init__, from_data, from_dict, or as instances of a loader's subclass; contents referenced by no "
        "directory and entries referencing nothing of the set.  In about one case in five, ONE extra skipped content has "
        "sha1_git = None (sha1 set): discovery keys it on None, asks skipped_content_missing about None, and must "
        "return it exactly when the archive reports None missing, with one callback; no directory references it.  "
        "DEEP hierarchies "
        "(4 per quick run, 40 per thorough run): chains of 1200-2000 nested directories with 0-2 (skipped) contents "
        "per level, combs (a leaf directory at every level of the spine), two chains sharing a long tail, with archives "
        "knowing nothing / everything / the bottom k levels, SAMPLE_SIZE 1, 3, 1000, all three samplers; termination "
        "is part of the property: RecursionError, any other exception or a timeout is a violation; shrinking removes "
        "halves, quarters ... of the hierarchy first.  non-trivial = the archive knows some but not "
        "all objects and some directory of the set has >= 2 parents in the set; distinct = distinct canonical case")
TRUSTED = ["Python set/dict semantics as modelled in model/Discovery.v (sets = duplicate-free lists, set.pop() = "
           "arbitrary pick oracle, random.sample = sampler oracle bound only by `k distinct elements of the population`)",
           "the three archive methods are modelled by one function `missing` on ids (ids pairwise distinct)"]
ASSUMPTIONS = ["update_info_callback is any callable taking (obj, known) - nothing is assumed about its type, truth value "
               "or length; callables whose __eq__/__bool__ RAISE are not generated",
               "the archive's answers depend only on the ids asked (a fixed set of missing ids); it may do anything to the "
               "list object it is handed and may reuse the list object it returns",
               "at most ONE given object lacks a sha1_git (a SkippedContent; it is then the object whose id is None, abstract "
               "id 0 in the model); two or more such objects collide on the key None - they are not pairwise distinct ids - "
               "and stay outside the property; a SkippedContent may lack any of its other hashes; directory ids equal sha1(raw_manifest or the "
               "canonical manifest) - directories with an arbitrary explicit id are not generated",
               "archive.contents / skipped_contents / directories are lists (or list subclasses), as the interface types them",
               "the ids of the given contents, skipped contents and directories are pairwise distinct",
               "the archive answers consistently with a set of missing ids such that a known directory has only known "
               "entries among the given objects (the property's closure hypothesis)",
               "0 < SAMPLE_SIZE (checked on the source value at every run)"]
CASE_TIMEOUT = 30
OUT_BASE = 1000       # abstract ids >= OUT_BASE are targets outside the object set


# ---------------------------------------------------------------- encoding for the driver
def enc_ids(ids):
    return ",".join(map(str, ids)) if ids else "."


def enc_dirs(dirs):
    if not dirs:
        return "."
    return "|".join(str(i) + (":" + ",".join(map(str, cs)) if cs else "") for i, cs in dirs)


def enc_samples(samples):
    if not samples:
        return "."
    return "|".join(",".join(map(str, s)) if s else "-" for s in samples)


def dec_ids(s):
    return [] if s == "." else [int(x) for x in s.split(",")]


# ---------------------------------------------------------------- generator
def depths(c):
    """depth of every object: contents 0, directory 1 + max depth of its children in the set (iterative: the
    hierarchies may be thousands of levels deep)"""
    ch = {i: cs for i, cs in c["dirs"]}
    memo = {i: 0 for i in list(c["contents"]) + list(c["skipped"])}
    for root in ch:
        if root in memo:
            continue
        stack = [root]
        onstack = {root}
        while stack:
            i = stack[-1]
            todo = [k for k in ch[i] if k in ch and k not in memo and k not in onstack]
            if todo:
                stack.append(todo[0])
                onstack.add(todo[0])
                continue
            memo[i] = 1 + max([memo.get(k, 0) for k in ch[i] if k in ch or k in memo] + [0])
            stack.pop()
    return memo


def gen_dag(rng, n, shape):
    """objects 1..n created bottom-up (children have smaller ids); returns contents, skipped, dirs"""
    contents, skipped, dirs = [], [], []
    have_empty = False
    nout = 0
    p_dir = {"flat": 0.15, "deep": 0.7, "shared": 0.55, "mixed": 0.45, "dirs-only": 1.0}[shape]
    for i in range(1, n + 1):
        r = rng.random()
        if r >= p_dir:
            (skipped if rng.random() < 0.3 else contents).append(i)
            continue
        cs = []
        prev = list(range(1, i))
        prev_dirs = [d for d, _ in dirs]
        k = rng.choice([0, 1, 1, 2, 2, 3, 5]) if prev else 0
        for _ in range(k):
            t = rng.random()
            if t < 0.12:
                cs.append(OUT_BASE + nout)         # entry pointing outside the set
                nout += 1
            elif shape in ("shared", "deep") and prev_dirs and t < 0.7:
                cs.append(rng.choice(prev_dirs[-4:] if shape == "deep" else prev_dirs))
            elif cs and t > 0.93:
                cs.append(rng.choice(cs))          # the same target under two names
            else:
                cs.append(rng.choice(prev))
        if not cs:
            if have_empty:
                cs = [OUT_BASE + nout]
                nout += 1
            else:
                have_empty = True
        dirs.append([i, cs])
    return contents, skipped, dirs


def upward_closure(seeds, dirs):
    par = {}
    for i, cs in dirs:
        for k in cs:
            par.setdefault(k, []).append(i)
    miss = set(seeds)
    todo = list(miss)
    while todo:
        k = todo.pop()
        for i in par.get(k, ()):
            if i not in miss:
                miss.add(i)
                todo.append(i)
    return miss


def mk_case(rng, n, shape, ss, strategy, missing_mode):
    contents, skipped, dirs = gen_dag(rng, n, shape)
    objs = contents + skipped + [i for i, _ in dirs]
    if missing_mode == "none":
        miss = set()
    elif missing_mode == "all":
        miss = set(objs)
    else:
        p = {"few": 0.08, "half": 0.3, "leaf": 0.15}[missing_mode]
        pool = (contents + skipped) if missing_mode == "leaf" and (contents or skipped) else objs
        seeds = [o for o in pool if rng.random() < p]
        if not seeds and pool:
            seeds = [rng.choice(pool)]
        miss = upward_closure(seeds, dirs)
    # relabel the objects at random and shuffle the three input lists (input order must be preserved)
    relabel = list(range(1, 2 * n + 2))
    rng.shuffle(relabel)
    f = lambda x: x if x >= OUT_BASE else relabel[x]
    contents = [f(x) for x in contents]
    skipped = [f(x) for x in skipped]
    dirs = [[f(i), [f(k) for k in cs]] for i, cs in dirs]
    rng.shuffle(contents)
    rng.shuffle(skipped)
    rng.shuffle(dirs)
    case = {"contents": contents, "skipped": skipped, "dirs": dirs, "missing": sorted(f(x) for x in miss),
            "ss": ss, "sampler": strategy}
    # SHAPE of the Python objects handed to filter_known_objects (the abstract case, hence the expected result
    # lists and the expected multiset of callback events, do not depend on it)
    r = rng.random()
    if r < 0.45:     # the interface types the archive's answers as Iterable[Sha1Git]
        case["answer"] = rng.choice(ANSWER_SHAPES[1:])
    if rng.random() < 0.6:
        case["cb"] = rng.choice(CALLBACK_SHAPES[1:])
    if rng.random() < 0.4:
        case["archive"] = rng.choice(ARCHIVE_SHAPES[1:])
    if rng.random() < 0.4:
        case["arg"] = rng.choice(ARG_SHAPES[1:])
    add_no_id(rng, case, 0.2)
    if rng.random() < 0.6:      # the model objects themselves (status, optional fields, construction route, subclasses)
        case["objvar"] = rng.randrange(1 << 30)
    if rng.random() < 0.25:
        case["containers"] = rng.choice(CONTAINER_SHAPES[1:])
    return case


NO_ID = 0               # abstract id of THE object without sha1_git (a SkippedContent; at most one per case)
DEEP_OUT = 10 ** 6      # entry targets outside the set in the deep shapes
DEEP_SHAPES = ["chain", "comb", "twin"]
DEEP_MODES = ["nothing-known", "all-known", "bottom-known"]


def mk_deep(rng, shape, levels, mode, ss, strategy, k=None, density=1.0):
    """Hierarchies deeper than any interpreter recursion limit in use (>= 1200 nested directories):
    chain = one path of `levels` directories, each with 0-2 (skipped) contents;
    comb  = the same spine with, at every level, a leaf directory holding one content;
    twin  = two chains that share a long tail.
    mode: the archive knows nothing / everything / exactly the bottom k levels (downward closed) plus, above them,
    some contents and leaf directories."""
    nid = [0]

    def fresh():
        nid[0] += 1
        return nid[0]
    contents, skipped, dirs = [], [], []
    level = {}           # spine directory -> distance from the top of its path
    below = {}           # directory -> objects hanging directly under it that are not spine directories
    leafdir_content = {}

    def files(d, cs, lo, hi):
        for _ in range(max(lo, rng.choice([0, 0, 0, 1, hi]) if rng.random() < density else 0)):
            f = fresh()
            (skipped if rng.random() < 0.15 else contents).append(f)
            cs.append(f)
            below[d].append(f)

    def spine(n, first_level, tail_id):
        """n nested directories; the last one has `tail_id` as sub-directory (or none); returns the id of the first"""
        ids = [fresh() for _ in range(n)]
        for j, d in enumerate(ids):
            level[d] = first_level + j
            below[d] = []
            cs = []
            nxt = ids[j + 1] if j + 1 < n else tail_id
            if nxt is not None:
                cs.append(nxt)
            if shape != "comb" or nxt is None:
                files(d, cs, 1 if nxt is None else 0, 2)      # the bottom directory is never empty
            if shape == "comb":
                leaf = fresh()
                if rng.random() < 0.25 * density:
                    f = fresh()
                    contents.append(f)
                    leafdir_content[leaf] = f
                else:
                    f = DEEP_OUT + leaf          # a leaf directory whose only entry points outside the set
                dirs.append([leaf, [f]])
                cs.append(leaf)
                below[d].append(leaf)
            if (level[d] + 1) % 97 == 0:
                cs.append(DEEP_OUT + d)
            rng.shuffle(cs)
            dirs.append([d, cs])
        return ids[0]
    if shape == "twin":
        h = levels // 4
        t = spine(levels - h, h, None)
        spine(h, 0, t)
        spine(h, 0, t)
    else:
        spine(levels, 0, None)
    objs = contents + skipped + [d for d, _ in dirs]
    if mode == "nothing-known":
        miss = set(objs)
    elif mode == "all-known":
        miss = set()
    else:
        k = k or rng.choice([levels // 2, levels - 1100, 1100, levels - 3])
        miss = set()
        for d, lv in level.items():
            if lv < levels - k:
                miss.add(d)
                for o in below[d]:
                    if rng.random() < 0.5:
                        miss.add(o)
                        if o in leafdir_content:
                            miss.add(leafdir_content[o])
                    elif o in leafdir_content and rng.random() < 0.5:
                        pass      # known leaf directory: its content is known too
        miss = upward_closure(miss, dirs)
    order = rng.random()
    if order < 0.4:
        rng.shuffle(dirs)
    elif order < 0.7:
        dirs.sort(key=lambda p: p[0])
    rng.shuffle(contents)
    return {"contents": contents, "skipped": skipped, "dirs": dirs, "missing": sorted(miss), "ss": ss,
            "sampler": strategy, "deep": shape}


def gen_deep(rng, tier):
    cases = []
    if tier == "quick":
        # a handful, chosen so that few rounds are needed (each round costs O(objects) on both sides); note that the
        # "deep" strategy draws the directories with the tallest sub-tree (the roots) first, "shallow" the bottom ones
        plan = [("chain", 1200, "nothing-known", 1, "shallow"), ("chain", 1250, "all-known", 1, "deep"),
                ("comb", 1200, "all-known", 1, "deep"), ("twin", 1200, "bottom-known", 1000, "random")]
    else:
        plan = []
        for shape in DEEP_SHAPES:
            for mode in DEEP_MODES:
                for ss in (1, 1000, 3):
                    for st in ("random", "deep", "shallow"):
                        # with a small SAMPLE_SIZE and an adversarial sampler there is one round per level
                        slow = ss < 1000 and st != "random"
                        plan.append((shape, rng.randrange(1200, 1400 if slow or shape == "comb" else 2000), mode, ss, st))
        rng.shuffle(plan)
        plan = plan[:40]
    for shape, levels, mode, ss, st in plan:
        if st == "random":
            st = "random:%d" % rng.randrange(1 << 30)
        c = mk_deep(rng, shape, levels, mode, ss, st, k=levels // 2 if tier == "quick" else None,
                    density=0.15 if tier == "quick" else 1.0)
        if rng.random() < 0.5:
            c["cb"] = rng.choice(CALLBACK_SHAPES[1:-2])
        if rng.random() < 0.5:
            c["arg"] = rng.choice(ARG_SHAPES[1:])
        if rng.random() < 0.5:
            c["objvar"] = rng.randrange(1 << 30)
        add_no_id(rng, c, 0.25)
        cases.append(c)
    return cases


# first item = the default when the key is absent from a case
ANSWER_SHAPES = ["list", "generator", "iterator", "tuple", "set", "frozenset", "dict_keys",
                 "same_list", "iter_over_arg", "kept_list", "bytes_subclass"]
# what a *_missing method does to the list it was handed (after reading it)
ARG_SHAPES = ["untouched", "pop_all", "clear", "remove_known", "remove_missing", "sort", "reverse", "shuffle",
              "extend_foreign", "replace"]
CALLBACK_SHAPES = ["function", "lambda", "bound_method", "partial", "instance", "positional",
                   "falsy_bool", "falsy_list", "falsy_dict", "falsy_counter", "falsy_stays", "none", "omitted"]
NO_CALLBACK = ("none", "omitted")
ARCHIVE_SHAPES = ["closures", "methods", "callable_attrs", "staticmethods", "slots"]
CONTAINER_SHAPES = ["list", "list_subclass"]
FALSY_CALLBACKS = ("falsy_bool", "falsy_list", "falsy_dict", "falsy_counter", "falsy_stays")

def add_no_id(rng, case, p):
    """with probability p, one more skipped content: the one whose sha1_git is None (another hash is set).  No directory
    can reference it (an entry needs a target); the archive knows it or lacks it like any other object: discovery
    asks skipped_content_missing([None, ...]) and None comes back when it is missing."""
    if rng.random() < p:
        case["skipped"].insert(rng.randrange(len(case["skipped"]) + 1), NO_ID)
        if rng.random() < 0.5:
            case["missing"] = sorted(case["missing"] + [NO_ID])


_PENDING = {}     # hashseed -> cases generated for a subprocess run (filled by gen)


def gen(rng, tier):
    n_cases = 800 if tier == "quick" else 40000
    n_sub = 60 if tier == "quick" else 1500
    cases = [
        {"contents": [], "skipped": [], "dirs": [], "missing": [], "ss": 1000, "sampler": "random:0"},
        {"contents": [1], "skipped": [], "dirs": [], "missing": [1], "ss": 1, "sampler": "deep"},
        # the example of model/Discovery.v
        {"contents": [1, 2], "skipped": [3], "dirs": [[10, [1, 11, 1099]], [12, [11, 2]], [11, [3, 1]]],
         "missing": [2, 10, 12], "ss": 1, "sampler": "shallow"},
        {"contents": [1, 2], "skipped": [3], "dirs": [[10, [1, 11, 1099]], [12, [11, 2]], [11, [3, 1]]],
         "missing": [2, 10, 12], "ss": 1, "sampler": "deep"},
    ]
    ex = cases[2]
    cases += [dict(ex, cb=cb) for cb in CALLBACK_SHAPES[1:]]
    cases += [dict(ex, archive=a, answer=ans) for a, ans in zip(ARCHIVE_SHAPES[1:] + ARCHIVE_SHAPES[1:3], ANSWER_SHAPES[1:])]
    cases += [dict(ex, containers="list_subclass", cb="falsy_dict", archive="methods")]
    cases += [dict(ex, arg=a, ss=k % 2 + 1) for k, a in enumerate(ARG_SHAPES[1:])]
    cases += [dict(ex, answer=a, arg="reverse") for a in ANSWER_SHAPES[7:]]
    cases += [dict(ex, objvar=k, missing=m) for k, m in ((1, [2, 10, 12]), (2, [1, 2, 3, 10, 11, 12]), (3, []))]
    cases += [dict(ex, skipped=[NO_ID, 3], missing=[0, 2, 10, 12]), dict(ex, skipped=[3, NO_ID], objvar=4),
              {"contents": [], "skipped": [NO_ID], "dirs": [], "missing": [0], "ss": 1, "sampler": "deep"},
              {"contents": [], "skipped": [NO_ID], "dirs": [], "missing": [], "ss": 1000, "sampler": "deep", "cb": "falsy_list"}]
    shapes = ["flat", "deep", "shared", "mixed", "dirs-only"]
    modes = ["few", "half", "leaf", "few", "half", "none", "all"]
    strategies = ["random", "deep", "shallow"]
    sizes = [0, 1, 2, 3, 4, 5, 6, 8, 10, 13, 17, 21, 25]
    for k in range(n_cases + n_sub):
        n = rng.choice(sizes)
        st = strategies[k % 3]
        if st == "random":
            st = "random:%d" % rng.randrange(1 << 30)
        c = mk_case(rng, n, shapes[k % len(shapes)], rng.choice([1, 1, 2, 3, 1000]), st, modes[k % len(modes)])
        if k >= n_cases:
            hs = [1, 7, 12345][k % 3]
            c["hashseed"] = hs
            _PENDING.setdefault(hs, []).append(c)
        cases.append(c)
    deep = gen_deep(rng, tier)
    return cases[:40] + deep + cases[40:]


def parents_in_set(c):
    objs = set(c["contents"]) | set(c["skipped"]) | {i for i, _ in c["dirs"]}
    par = {}
    for i, cs in c["dirs"]:
        for k in set(cs):
            if k in objs:
                par.setdefault(k, set()).add(i)
    return par


def nontrivial(c):
    objs = c["contents"] + c["skipped"] + [i for i, _ in c["dirs"]]
    dirs = {i for i, _ in c["dirs"]}
    par = parents_in_set(c)
    shared = any(k in dirs and len(ps) >= 2 for k, ps in par.items())
    return 0 < len(c["missing"]) < len(objs) and shared


def classify(c):
    objs = c["contents"] + c["skipped"] + [i for i, _ in c["dirs"]]
    n = len(objs)
    ks = ["n=%s" % (n if n < 4 else "4-9" if n < 10 else "10-25"), "ss=%d" % c["ss"],
          "sampler=" + c["sampler"].split(":")[0]]
    m = len(c["missing"])
    ks.append("missing=" + ("none" if m == 0 else "all" if m == n else "some"))
    oset = set(objs)
    if any(k not in oset for _, cs in c["dirs"] for k in cs):
        ks.append("outside-entry")
    if "deep" in c:
        ks.append("deep=" + c["deep"])
        ks.append("depth>=1000" if max(depths(c).values(), default=0) >= 1000 else "depth<1000")
    dirs = {i for i, _ in c["dirs"]}
    par = parents_in_set(c)
    if any(k in dirs and len(ps) >= 2 for k, ps in par.items()):
        ks.append("shared-subdir")
    if len(dirs) > c["ss"]:
        ks.append("random.sample-used")
    if sum(1 for i in dirs if i not in par) >= 2:
        ks.append("multi-root")
    if "hashseed" in c:
        ks.append("subprocess-hashseed")
    ks += ["callback=" + c.get("cb", CALLBACK_SHAPES[0]), "archive=" + c.get("archive", ARCHIVE_SHAPES[0]),
           "answer=" + c.get("answer", ANSWER_SHAPES[0]), "containers=" + c.get("containers", CONTAINER_SHAPES[0]),
           "argument=" + c.get("arg", ARG_SHAPES[0])]
    if NO_ID in c["skipped"]:
        ks.append("object-without-sha1_git:" + ("missing" if NO_ID in c["missing"] else "known"))
    if "objvar" in c:
        ks.append("objects=varied")
        miss = set(c["missing"])
        covered = {k for i, cs in c["dirs"] if i not in miss for k in cs}      # entries of a known directory
        hidden = [i for i in c["contents"] if obj_variant(c, i, "content")["status"] == "hidden"]
        if hidden:
            ks.append("hidden-content")
        if any(i not in covered for i in hidden):
            ks.append("hidden-content-undecided-after-directories")
        if any(i not in par for i in c["contents"] + c["skipped"]):
            ks.append("unreferenced-content")
        if any(obj_variant(c, i, "skipped")["drop"] for i in c["skipped"]):
            ks.append("skipped-content-lacking-hashes")
        dv = [obj_variant(c, i, "directory") for i, _ in c["dirs"]]
        for key, test in (("directory-raw_manifest", lambda v: v["raw"]), ("subclass", lambda v: v["how"] == "subclass"),
                          ("from_dict", lambda v: v["how"] == "from_dict")):
            if any(test(v) for v in dv):
                ks.append(key)
    else:
        ks.append("objects=plain")
    return ks


# ---------------------------------------------------------------- implementation runner
class NonTermination(Exception):
    pass


_SUBCLASSES = {}


def _subclasses():
    """a loader's own subclasses of the model classes"""
    if not _SUBCLASSES:
        from swh.model import model

        class LoaderContent(model.Content):
            pass

        class LoaderSkippedContent(model.SkippedContent):
            pass

        class LoaderDirectory(model.Directory):
            pass
        _SUBCLASSES.update(content=LoaderContent, skipped=LoaderSkippedContent, directory=LoaderDirectory)
    return _SUBCLASSES


def obj_variant(c, i, kind):
    """How the model object for abstract id i is built (a pure function of the case's "objvar" seed and i, so that
    classify, the subprocess runs and the replays agree).  Without "objvar": the plain from_data / Directory(entries=...)."""
    if "objvar" not in c:
        return {}
    r = _random.Random(c["objvar"] * 1000003 + i * 7 + {"content": 0, "skipped": 1, "directory": 2}[kind])
    v = {"how": r.choice(["init", "from_dict", "subclass", "from_data" if kind != "directory" else "init"]),
         "tok": r.randrange(1 << 16), "ctime": r.random() < 0.3}
    if kind == "content":
        v["status"] = r.choice(["visible", "hidden", "hidden"])
        v["data"] = r.random() < 0.5
    elif kind == "skipped":
        v["drop"] = [h for h in ("sha1", "sha256", "blake2s256") if r.random() < 0.3]
        v["origin"] = r.random() < 0.5
    else:
        v["raw"] = r.choice([None, None, "canonical", "padded-mode"])
        v["explicit_id"] = r.random() < 0.3
        v["rev"] = r.random() < 0.5          # entries pointing outside the set are submodules ('rev')
        v["names"] = r.random() < 0.4
    return v


_TOKS = {}


def _tok(v, kind="bytes"):
    if kind not in _TOKS:
        from . import gitobj_common
        bad = (b"/", b"\0") if kind == "bytes" else ("/", "\0")
        _TOKS[kind] = [t for t in gitobj_common.source_tokens(kind) if bad[0] not in t and bad[1] not in t]
    return _TOKS[kind][v["tok"] % len(_TOKS[kind])]


def build_objects(c):
    """real swh.model.model objects for the abstract case; returns (contents, skipped, dirs, real id -> abstract id)"""
    import datetime
    from swh.model import model
    real = {}
    objs = {}
    sub = _subclasses()
    ctime = datetime.datetime(2021, 3, 4, 5, 6, 7, tzinfo=datetime.timezone.utc)
    for i in c["contents"]:
        v = obj_variant(c, i, "content")
        if not v:
            o = model.Content.from_data(b"content %d" % i)
        else:
            data = _tok(v) + b"content %d" % i + (_tok(v) if v["tok"] % 3 == 0 else b"")
            cls = sub["content"] if v["how"] == "subclass" else model.Content
            o = cls.from_data(data, status=v["status"])
            d = o.to_dict()
            if not v["data"]:
                d.pop("data", None)
            if v["ctime"]:
                d["ctime"] = ctime
            if v["how"] == "from_dict":
                o = cls.from_dict(d)
            elif v["how"] != "from_data" or not v["data"] or v["ctime"]:
                o = cls(**d)
        real[i] = o.sha1_git
        objs[i] = o
    for i in c["skipped"]:
        v = obj_variant(c, i, "skipped")
        if not v and i == NO_ID:
            d = model.SkippedContent.from_data(b"skipped without sha1_git", reason="too big").to_dict()
            d["sha1_git"] = None
            o = model.SkippedContent(**d)
        elif not v:
            o = model.SkippedContent.from_data(b"skipped %d" % i, reason="too big")
        else:
            cls = sub["skipped"] if v["how"] == "subclass" else model.SkippedContent
            o = cls.from_data(_tok(v) + b"skipped %d" % i, reason=_tok(v, "str") + " (object too big)")
            d = o.to_dict()
            for h in v["drop"]:
                d[h] = None          # a skipped content may lack hashes; discovery keys on sha1_git, which is kept ...
            if i == NO_ID:           # ... except for this one object, which keeps its sha1 instead
                d["sha1_git"] = None
                d["sha1"] = o.sha1
            if v["origin"]:
                d["origin"] = "https://example.org/" + _tok(v, "str").strip() + "/%d" % i
            if v["ctime"]:
                d["ctime"] = ctime
            o = cls.from_dict(d) if v["how"] == "from_dict" else cls(**d)
        real[i] = o.sha1_git
        objs[i] = o
    ch = {i: cs for i, cs in c["dirs"]}
    import hashlib

    def make(i):
        v = obj_variant(c, i, "directory")
        entries = []
        for j, k in enumerate(ch[i]):
            if k not in real:      # neither a content nor a directory of the set: an entry pointing outside
                real[k] = hashlib.sha1(b"outside %d" % k).digest()
            name = b"d%d_e%d" % (i, j)
            if v and v["names"]:
                name += b" " + _tok(v)
            if k in ch:
                entries.append(model.DirectoryEntry(name=name, type="dir", target=real[k], perms=0o040000))
            elif v and v["rev"] and k not in objs:
                entries.append(model.DirectoryEntry(name=name, type="rev", target=real[k], perms=0o160000))
            else:
                entries.append(model.DirectoryEntry(name=name, type="file", target=real[k],
                                                    perms=0o100755 if v and (v["tok"] + j) % 4 == 0 else 0o100644))
        if not v:
            d = model.Directory(entries=tuple(entries))
        else:
            cls = sub["directory"] if v["how"] == "subclass" else model.Directory
            d = cls(entries=tuple(entries))
            kw = {}
            if v["raw"] and entries:
                from swh.model import git_objects
                raw = git_objects.directory_git_object(d)
                if v["raw"] == "padded-mode":        # a manifest git accepts but swh would not produce: its own id
                    raw2 = raw.replace(b"\x0040000 ", b"\x00040000 ").replace(b"\x00100644 ", b"\x000100644 ")
                    body = raw2.split(b"\x00", 1)[1]
                    raw = b"tree %d\x00" % len(body) + body
                kw = {"raw_manifest": raw, "id": hashlib.sha1(raw).digest()}
                if kw["id"] == d.id:
                    kw = {}
            elif v["explicit_id"]:
                kw = {"id": d.id}
            if kw:
                d = cls(entries=tuple(entries), **kw)
            if v["how"] == "from_dict":
                d = cls.from_dict(d.to_dict())
        real[i] = d.id
        objs[i] = d

    for root, _ in c["dirs"]:      # bottom-up with an explicit stack (hierarchies may be thousands of levels deep)
        if root in real:
            continue
        stack, onstack = [root], {root}
        while stack:
            i = stack[-1]
            todo = [k for k in ch[i] if k in ch and k not in real]
            if todo:
                if todo[0] in onstack:
                    raise ValueError("cyclic case")
                stack.append(todo[0])
                onstack.add(todo[0])
                continue
            make(i)
            onstack.discard(stack.pop())
    back = {}
    for k, v in real.items():
        if v in back and back[v] != k:
            raise ValueError("harness: two abstract ids share a real id")
        back[v] = k
    return ([objs[i] for i in c["contents"]], [objs[i] for i in c["skipped"]], [objs[i] for i, _ in c["dirs"]], back)


class _FakeRandom:
    """stands for the name `random` inside swh.model.discovery"""

    def __init__(self, real_module, strategy, back, depth, log, nqueries):
        self._real, self._strategy, self._back, self._depth, self._log, self._nq = real_module, strategy, back, depth, log, nqueries
        self._rng = _random.Random(int(strategy.split(":")[1])) if strategy.startswith("random:") else None

    def __getattr__(self, name):
        return getattr(self._real, name)

    def sample(self, population, k):
        import heapq
        back, depth = self._back, self._depth
        if k > len(population) or k < 0:
            raise ValueError("Sample larger than population or is negative")
        if self._rng is not None and len(population) <= 200:
            res = self._rng.sample(sorted(population, key=lambda b: back[b]), k)
        elif self._rng is not None:
            # the k smallest under a fresh seeded scrambling of the abstract ids: independent of the order of
            # `population` (hence of PYTHONHASHSEED) and linear in its size
            salt = self._rng.getrandbits(30) | 1
            res = heapq.nsmallest(k, population, key=lambda b: ((back[b] * 2654435761 + salt) * salt % 1000003, back[b]))
        else:
            sign = -1 if self._strategy == "deep" else 1
            res = heapq.nsmallest(k, population, key=lambda b: (sign * depth[back[b]], back[b]))
        self._log.append({"round": self._nq(), "npop": len(population), "k": k, "result": [back[b] for b in res]})
        return list(res)


class _Id(bytes):
    """an id that is a bytes subclass: equal to, and hashing like, the plain bytes"""
    __slots__ = ()


def mutate_argument(shape, arg, ans):
    """what the archive does to the list it was handed, once it has read it (`ans` = the missing ones, in order).
    Only lists are touched: the interface types the argument as List[Sha1Git]."""
    if not isinstance(arg, list) or shape == "untouched":
        return
    import hashlib
    foreign = [hashlib.sha1(b"foreign %d" % j).digest() for j in range(3)]
    if shape == "pop_all":          # pop-based batching
        while arg:
            arg.pop()
    elif shape == "clear":
        arg.clear()
    elif shape == "remove_known":   # in-place filter: only the missing ids stay
        arg[:] = ans
    elif shape == "remove_missing":
        gone = set(ans)
        for b in [b for b in arg if b in gone]:
            arg.remove(b)
    elif shape == "sort":
        arg.sort(key=lambda b: b or b"")
    elif shape == "reverse":
        arg.reverse()
    elif shape == "shuffle":
        _random.Random(len(arg)).shuffle(arg)
    elif shape == "extend_foreign":
        arg.extend(foreign)
    elif shape == "replace":
        for j in range(0, len(arg), 2):
            arg[j] = foreign[j % 3]


def shape_answer(shape, ans, arg=None, kept=None):
    """the archive's answer (a list of real ids) as one of the iterables the interface allows"""
    if shape == "generator":
        return (b for b in ans)
    if shape == "iterator":
        return iter(tuple(ans))
    if shape == "tuple":
        return tuple(ans)
    if shape == "set":
        return set(ans)
    if shape == "frozenset":
        return frozenset(ans)
    if shape == "dict_keys":
        return dict.fromkeys(ans).keys()
    if shape in ("same_list", "iter_over_arg") and isinstance(arg, list):
        arg[:] = ans                # the very list received, filtered in place
        return arg if shape == "same_list" else iter(arg)
    if shape == "kept_list" and kept is not None:
        kept.clear()                # one list owned by the archive, reused (and so mutated) at every later call
        kept.extend(ans)
        return kept
    if shape == "bytes_subclass":
        return [b if b is None else _Id(b) for b in ans]
    return ans


class _ListSubclass(list):
    """a List[...] that is not exactly `list`"""
    __slots__ = ()


def make_archive(shape, containers, contents, skipped, dirs, m0, m1, m2):
    """an object with the attributes / methods of ArchiveDiscoveryInterface, built in one of several ways"""
    if containers == "list_subclass":
        contents, skipped, dirs = _ListSubclass(contents), _ListSubclass(skipped), _ListSubclass(dirs)
    if shape == "methods":          # ordinary class: the three queries are bound methods
        class Archive:
            def __init__(self):
                self.contents, self.skipped_contents, self.directories = contents, skipped, dirs

            def content_missing(self, ids):
                return m0(ids)

            def skipped_content_missing(self, ids):
                return m1(ids)

            def directory_missing(self, ids):
                return m2(ids)
        return Archive()
    if shape == "callable_attrs":   # the three queries are instances with __call__ stored as attributes
        class Query:
            def __init__(self, f):
                self._f = f

            def __call__(self, ids):
                return self._f(ids)

            def __bool__(self):
                return False

        class Archive:
            pass
        a = Archive()
        a.contents, a.skipped_contents, a.directories = contents, skipped, dirs
        a.content_missing, a.skipped_content_missing, a.directory_missing = Query(m0), Query(m1), Query(m2)
        return a
    if shape == "staticmethods":    # class-level data and static methods; the class's instance is also falsy
        class Archive:
            content_missing = staticmethod(m0)
            skipped_content_missing = staticmethod(m1)
            directory_missing = staticmethod(m2)

            def __len__(self):
                return 0
        Archive.contents, Archive.skipped_contents, Archive.directories = contents, skipped, dirs
        return Archive()
    if shape == "slots":
        class Archive:
            __slots__ = ("contents", "skipped_contents", "directories", "content_missing", "skipped_content_missing",
                         "directory_missing")
        a = Archive()
        a.contents, a.skipped_contents, a.directories = contents, skipped, dirs
        a.content_missing, a.skipped_content_missing, a.directory_missing = m0, m1, m2
        return a

    class Archive:                  # "closures": plain functions stored on the instance
        pass
    a = Archive()
    a.contents, a.skipped_contents, a.directories = contents, skipped, dirs
    a.content_missing, a.skipped_content_missing, a.directory_missing = m0, m1, m2
    return a


def make_callback(shape, record):
    """(args, kwargs) to append to filter_known_objects(archive, ...): the update_info_callback in one of the forms a
    caller may legitimately use; every form reports each call through record(obj, known)"""
    import collections
    import functools
    if shape == "none":
        return (), {"update_info_callback": None}
    if shape == "omitted":
        return (), {}
    if shape == "lambda":
        cb = lambda obj, known: record(obj, known)     # noqa: E731
    elif shape == "bound_method":
        class Recorder:
            def on_info(self, obj, known):
                record(obj, known)
        cb = Recorder().on_info
    elif shape == "partial":
        cb = functools.partial(lambda tag, obj, known: record(obj, known), "tag")
    elif shape == "instance":
        class Recorder:
            def __call__(self, obj, known):
                record(obj, known)
        cb = Recorder()
    elif shape == "falsy_bool":      # callable whose truth value is False
        class Recorder:
            def __call__(self, obj, known):
                record(obj, known)

            def __bool__(self):
                return False
        cb = Recorder()
    elif shape == "falsy_list":      # an (initially empty, hence falsy) list that records into itself
        class EventLog(list):
            def __call__(self, obj, known):
                self.append((obj, known))
                record(obj, known)
        cb = EventLog()
    elif shape == "falsy_dict":
        class EventLog(dict):
            def __call__(self, obj, known):
                self[len(self)] = (obj, known)
                record(obj, known)
        cb = EventLog()
    elif shape == "falsy_counter":
        class EventLog(collections.Counter):
            def __call__(self, obj, known):
                self[bool(known)] += 1
                record(obj, known)
        cb = EventLog()
    elif shape == "falsy_stays":     # records elsewhere: its own length stays 0 for the whole run
        class EventLog(list):
            def __call__(self, obj, known):
                record(obj, known)
        cb = EventLog()
    else:                            # "function", "positional"
        def cb(obj, known):
            record(obj, known)
    if shape == "positional":
        return (cb,), {}
    return (), {"update_info_callback": cb}


def run_impl(c):
    from swh.model import discovery
    try:
        contents, skipped, dirs, back = build_objects(c)
    except Exception as e:
        return {"error": "harness-build:" + repr(e)}
    missing = set(c["missing"])
    n = len(back)
    queries, events, draws = [], [], []

    kept = []

    def ask(kind):
        def method(arg):
            ids = list(arg)
            # every round decides at least one object and asks at most two questions: more than 3 n + 6 queries
            # means the loop is not making progress
            if len(queries) > 3 * n + 6:
                raise NonTermination()
            queries.append({"kind": kind, "ids": sorted(back.get(b, -1) for b in ids), "events_before": len(events)})
            ans = [b for b in ids if back.get(b, -1) in missing]
            # the archive's knowledge is what it is; what it does to the container it was handed must not matter
            mutate_argument(c.get("arg", ARG_SHAPES[0]), arg, ans)
            return shape_answer(c.get("answer", ANSWER_SHAPES[0]), ans, arg, kept)
        return method

    def record(obj, known):
        oid = obj.id if str(getattr(obj.object_type, "value", obj.object_type)) == "directory" else obj.sha1_git
        events.append([back.get(oid, -1), bool(known)])

    try:
        archive = make_archive(c.get("archive", ARCHIVE_SHAPES[0]), c.get("containers", CONTAINER_SHAPES[0]),
                               contents, skipped, dirs, ask(0), ask(1), ask(2))
        args, kwargs = make_callback(c.get("cb", CALLBACK_SHAPES[0]), record)
    except Exception as e:
        return {"error": "harness-shape:" + repr(e)}

    old_ss, old_random = discovery.SAMPLE_SIZE, discovery.random
    discovery.SAMPLE_SIZE = c["ss"]
    discovery.random = _FakeRandom(old_random, c["sampler"], back, depths(c), draws, lambda: len(queries))
    try:
        rc, rs, rd = discovery.filter_known_objects(archive, *args, **kwargs)
        res = {"contents": [back.get(o.sha1_git, -1) for o in rc], "skipped": [back.get(o.sha1_git, -1) for o in rs],
               "dirs": [back.get(o.id, -1) for o in rd]}
    except NonTermination:
        res = {"error": "NonTermination"}
    except core.Timeout:
        res = {"error": "Timeout"}
    except Exception as e:
        res = {"error": core.exc_class(e)}
    finally:
        discovery.SAMPLE_SIZE, discovery.random = old_ss, old_random
    res["events"], res["queries"], res["draws"] = events, queries, draws
    return res


_CACHE = {}
_SUBCACHE = {}     # results obtained in subprocesses (never evicted during a run)


def _key(c):
    return core.canon({k: v for k, v in c.items() if not k.startswith("_")})


def _run_subprocess(cases, hashseed):
    code = ("import sys, json; sys.path.insert(0, %r); sys.path.insert(0, %r)\n"
            "from harness import c17\n"
            "cases = json.load(sys.stdin)\n"
            "json.dump([c17.run_impl(c) for c in cases], sys.stdout)\n") % (core.VERIF, core.REPO)
    env = dict(os.environ)
    env["PYTHONHASHSEED"] = str(hashseed)
    p = subprocess.run([sys.executable, "-c", code], input=json.dumps(cases).encode(), stdout=subprocess.PIPE,
                       stderr=subprocess.PIPE, env=env, timeout=1800)
    if p.returncode:
        return [{"error": "harness-subprocess:" + p.stderr.decode("utf-8", "replace")[-300:]} for _ in cases]
    return json.loads(p.stdout.decode())


def impl(c):
    k = _key(c)
    if k in _CACHE:
        return _CACHE[k]
    if k in _SUBCACHE:
        return _SUBCACHE[k]
    if "hashseed" in c:
        hs = c["hashseed"]
        group = _PENDING.pop(hs, None) or [c]
        if all(_key(g) != k for g in group):
            group = [c]
        clean = [{a: b for a, b in g.items() if not a.startswith("_")} for g in group]
        for g, r in zip(clean, _run_subprocess(clean, hs)):
            _SUBCACHE[_key(g)] = r
        return _SUBCACHE[k]
    r = run_impl(c)
    if len(_CACHE) > 5000:
        _CACHE.clear()
    _CACHE[k] = r
    return r


# ---------------------------------------------------------------- model side
def samples_by_round(ires):
    """the sampler oracle fed to the model: one item per round of the outer loop ([] when no draw happened)"""
    draws = ires.get("draws", [])
    if not draws:
        return []
    out = [[] for _ in range(max(d["round"] for d in draws) + 1)]
    for d in draws:
        out[d["round"]] = d["result"]
    return out


def requests(c):
    ires = impl(c)
    args = "%s %s %s %s" % (enc_ids(c["contents"]), enc_ids(c["skipped"]), enc_dirs(c["dirs"]), enc_ids(c["missing"]))
    reqs = ["run %d fifo replay %s %s" % (c["ss"], args, enc_samples(samples_by_round(ires)))]
    if "deep" not in c:      # the model is quadratic in the number of objects: one run of it per deep case
        reqs.append("run %d lifo last %s ." % (c["ss"], args))
    return reqs + ["closed " + args]


def dec_run(line):
    if not line.startswith("ok "):
        return {"error": line}
    _, rc, rs, rd, ev, qs = line.split(" ")
    events = [] if ev == "." else [[int(e[:-1]), e[-1] == "+"] for e in ev.split(",")]
    queries = []
    if qs != ".":
        for q in qs.split("/"):
            k, ids = q.split(":")
            queries.append([int(k), sorted(dec_ids(ids))])
    return {"contents": dec_ids(rc), "skipped": dec_ids(rs), "dirs": dec_ids(rd), "events": events, "queries": queries}


def model(c, resp):
    return {"replay": dec_run(resp[0]), "independent": dec_run(resp[1]) if len(resp) > 2 else None, "closed": resp[-1]}


# ---------------------------------------------------------------- property oracle and comparison
def oracle(c, ires, mres):
    if ires.get("error", "").startswith("harness-"):
        return None        # reported by compare as a harness problem, not as a property violation
    if "error" in ires:
        if ires["error"] in ("NonTermination", "Timeout"):
            return "filter_known_objects did not terminate within the step bound"
        return "filter_known_objects raised " + ires["error"]
    miss = set(c["missing"])
    for name, inp in (("contents", c["contents"]), ("skipped", c["skipped"]), ("dirs", [i for i, _ in c["dirs"]])):
        want = [o for o in inp if o in miss]
        if ires[name] != want:
            lost = [o for o in want if o not in ires[name]]
            kept = [o for o in ires[name] if o not in miss]
            return ("returned %s %r, the archive lacks exactly %r (missing objects dropped: %r, known objects kept: %r%s)"
                    % (name, ires[name], want, lost, kept, "" if lost or kept else ", order changed"))
    objs = c["contents"] + c["skipped"] + [i for i, _ in c["dirs"]]
    want_ev = sorted([o, o not in miss] for o in objs)
    if c.get("cb") in NO_CALLBACK:
        return None        # no callback was given: there is nothing to fire (the result lists were checked above)
    if sorted(ires["events"]) != want_ev:
        seen = {}
        for o, f in ires["events"]:
            seen.setdefault(o, []).append(f)
        for o in objs:
            if len(seen.get(o, [])) != 1:
                return ("object %d received %d callbacks instead of exactly one (update_info_callback shape: %s)"
                        % (o, len(seen.get(o, [])), c.get("cb", CALLBACK_SHAPES[0])))
            if seen[o][0] != (o not in miss):
                return "object %d: callback flag known=%r but the archive says missing=%r" % (o, seen[o][0], o in miss)
        return "callbacks fired for ids that are not objects of the set"
    return None


def compare(c, ires, mres):
    if ires.get("error", "").startswith("harness-"):
        return "harness could not run the case: " + ires["error"]
    if mres.get("closed") != "ok true":
        return "generator produced an archive that the model's closedb rejects: " + str(mres.get("closed"))
    rep, ind = mres["replay"], mres["independent"]
    if "error" in rep:
        return ("the model does not accept the implementation's run (sampler replay): " + rep["error"] +
                " draws=" + str(ires.get("draws")))
    if ind is None:
        ind = rep
    if "error" in ind:
        return "model failed under the independent oracles: " + ind["error"]
    for name in ("contents", "skipped", "dirs"):
        if ires[name] != rep[name] or ires[name] != ind[name]:
            return "result list %s differs: impl %r, model(replay) %r, model(independent) %r" % (name, ires[name], rep[name], ind[name])
    no_cb = c.get("cb") in NO_CALLBACK
    if not no_cb and sorted(ires["events"]) != sorted(rep["events"]):
        return "callback multisets differ"
    # same archive queries (kind, set of ids); their order is not part of the property, so it is not compared
    iq = sorted([q["kind"], q["ids"]] for q in ires["queries"])
    if iq != sorted(rep["queries"]):
        return "archive queries differ: impl %r, model %r" % (iq, sorted(rep["queries"]))
    # every query is non-empty and asks only about objects still undecided at that time
    objs = set(c["contents"]) | set(c["skipped"]) | {i for i, _ in c["dirs"]}
    decided, nd = set(), 0
    for q in ires["queries"]:
        while nd < q["events_before"]:
            decided.add(ires["events"][nd][0])
            nd += 1
        if not q["ids"]:
            return "empty archive query"
        if not no_cb and not (set(q["ids"]) <= objs and decided.isdisjoint(q["ids"])):
            return "archive asked about ids that are not undecided objects: %r" % (sorted(i for i in q["ids"] if i in decided or i not in objs),)
    # every draw obeyed the replaced random.sample's contract on the implementation side too
    for d in ires["draws"]:
        if d["k"] != c["ss"] or d["npop"] < c["ss"]:
            return "random.sample called with k=%r on a population of %d (SAMPLE_SIZE=%d)" % (d["k"], d["npop"], c["ss"])
    return None


def _without(c, gone):
    """the case without the objects in `gone` (entries pointing to them are dropped too); directories must stay
    pairwise distinct, so every empty directory but one receives an entry pointing outside the set"""
    dirs = [[i, [k for k in cs if k not in gone]] for i, cs in c["dirs"] if i not in gone]
    seen_empty = False
    for d in dirs:
        if not d[1]:
            if seen_empty:
                d[1] = [2 * DEEP_OUT + d[0]]
            seen_empty = True
    seeds = [m for m in c["missing"] if m not in gone]
    d = dict(c, contents=[x for x in c["contents"] if x not in gone], skipped=[x for x in c["skipped"] if x not in gone],
             dirs=dirs, missing=sorted(upward_closure(seeds, dirs)))
    d.pop("hashseed", None)
    return d


def shrink(c):
    objs = c["contents"] + c["skipped"] + [i for i, _ in c["dirs"]]
    one_empty = lambda dirs: sum(1 for _, cs in dirs if not cs) <= 1    # directories must stay pairwise distinct
    for key in ("cb", "archive", "answer", "containers", "arg", "objvar"):      # the default shape, if the failure does not need this one
        if key in c:
            yield {k: v for k, v in c.items() if k != key}
    if len(objs) > 16:
        # big chunks first (delta debugging): the directories from the top of the hierarchy down, then the contents;
        # halves, quarters, ... so that a deep hierarchy is cut to about the smallest depth that still fails
        dp = depths(c)
        order = sorted((i for i, _ in c["dirs"]), key=lambda i: (-dp[i], i)) + c["contents"] + c["skipped"]
        size = len(order) // 2
        while size >= 2:
            for start in range(0, len(order), size):
                yield _without(c, set(order[start:start + size]))
            size //= 2
    if c["ss"] != 1:
        yield dict(c, ss=1)
    if c["sampler"] != "shallow":
        yield dict(c, sampler="shallow")
    for gone in objs:
        dirs = [[i, [k for k in cs if k != gone]] for i, cs in c["dirs"] if i != gone]
        if not one_empty(dirs):
            continue
        seeds = [m for m in c["missing"] if m != gone]
        d = dict(c, contents=[x for x in c["contents"] if x != gone], skipped=[x for x in c["skipped"] if x != gone],
                 dirs=dirs, missing=sorted(upward_closure(seeds, dirs)))
        d.pop("hashseed", None)
        yield d
    for k, (i, cs) in enumerate(c["dirs"]):
        for j in range(len(cs)):
            dirs = [[i2, (cs2[:j] + cs2[j + 1:]) if k2 == k else cs2] for k2, (i2, cs2) in enumerate(c["dirs"])]
            if not one_empty(dirs):
                continue
            d = dict(c, dirs=dirs)
            d.pop("hashseed", None)
            # removing an entry may make a missing directory closed-known again; keep the missing set (still upward closed)
            yield d


def pre_checks(ctx):
    """hypothesis 0 < SAMPLE_SIZE of the theorems, checked on the value in the source now"""
    from swh.model import discovery
    v = getattr(discovery, "SAMPLE_SIZE", None)
    if not (isinstance(v, int) and not isinstance(v, bool) and v > 0):
        return [("table:SAMPLE_SIZE>0", "swh.model.discovery.SAMPLE_SIZE = %r: the theorems need a positive integer "
                 "(with 0 the loop never ends, see Example ex_sample_size_zero)" % (v,))]
    return []


# functions of /repo whose executed-line coverage by this run is reported in the evidence
ANCHORS = [('swh/model/discovery.py', 'BaseDiscoveryGraph.*'),
           ('swh/model/discovery.py', 'RandomDirSamplingDiscoveryGraph.get_sample'),
           ('swh/model/discovery.py', 'filter_known_objects')]


def coq_cases(cases):
    """filter_known_objects with the deterministic oracles (FIFO pop + first-k sampler, LIFO pop + last-k sampler) evaluated
    by vm_compute inside Coq vs the extracted driver: the three result lists, the callback events and the archive queries
    (extraction cross-check)"""
    from . import core
    cases = [c for c in cases if len(c["dirs"]) + len(c["contents"]) + len(c["skipped"]) <= 40]    # vm_compute inside Coq
    def ids(l):
        return "[" + "; ".join("%d" % i for i in l) + "]%N"
    def coq_case(c):
        return "(%d%%N, %s, %s, [%s], %s)" % (c["ss"], ids(c["contents"]), ids(c["skipped"]),
                                              "; ".join("(%d%%N, %s)" % (i, ids(cs)) for i, cs in c["dirs"]), ids(c["missing"]))
    src = ("From Coq Require Import List NArith.\nFrom SWH.model Require Import Discovery.\nImport ListNotations.\n" + core.COQ_CHECKSUM +
           "\nDefinition res (r : disc_result) : list N := match r with\n"
           " | DiscOk c s d st => [10%N] ++ c ++ [100000%N] ++ s ++ [100001%N] ++ d ++ [100002%N] ++ "
           "concat (map (fun e : N * bool => [fst e; if snd e then 1%N else 0%N]) (events st)) ++ [100003%N] ++ "
           "concat (map (fun q : N * list N => fst q :: snd q ++ [100004%N]) (queries st))\n"
           " | DiscOutOfFuel => [1%N] | DiscKeyError => [2%N] | DiscBadSample => [3%N] end.\n"
           "Definition cases : list (N * list N * list N * list dirent * list N) := [" + ";\n ".join(coq_case(c) for c in cases) + "].\n"
           "Eval vm_compute in map (fun x => match x with (ss, c, s, d, m) => cksum ("
           "res (filter_known_objects ss (sampler_first ss) pick_fifo (fun x => memN x m) c s d) ++ "
           "res (filter_known_objects ss (sampler_last ss) pick_lifo (fun x => memN x m) c s d)) end) cases.\n")
    reqs = []
    for c in cases:
        args = "%s %s %s %s" % (enc_ids(c["contents"]), enc_ids(c["skipped"]), enc_dirs(c["dirs"]), enc_ids(c["missing"]))
        reqs += ["run %d fifo first %s ." % (c["ss"], args), "run %d lifo last %s ." % (c["ss"], args)]
    resp = core.run_driver(ID, reqs)
    def res(line):
        if not line.startswith("ok "):
            return [{"err fuel": 1, "err keyerror": 2, "err badsample": 3}.get(line, 4)]
        _, rc, rs, rd, ev, qs = line.split(" ")
        l = [10] + dec_ids(rc) + [100000] + dec_ids(rs) + [100001] + dec_ids(rd) + [100002]
        if ev != ".":
            for e in ev.split(","):
                l += [int(e[:-1]), 1 if e[-1] == "+" else 0]
        l.append(100003)
        if qs != ".":
            for q in qs.split("/"):
                k, qi = q.split(":")
                l += [int(k)] + dec_ids(qi) + [100004]
        return l
    exp = [core.py_cksum(res(resp[2 * i]) + res(resp[2 * i + 1])) for i in range(len(cases))]
    return src, exp
