"""C07 - an object's id is the hash of its manifest; integrity checking is exact
(model.py 453-548: _compute_hash_from_manifest, BaseHashableModel,
HashableObjectWithManifest; the per-class _compute_hash_from_attributes and
swhid() of the seven identified kinds).

Tie.  Objects of the seven kinds are built with the REAL classes (own, pure-Python
spec generators for all seven kinds: prefix-chain names, every presence
combination, legacy extra headers inside metadata, aliases, non-ASCII URLs,
contexts, payloads).  The manifest of the attributes
is taken from the library's own function (git_objects.<kind>_git_object,
url.encode()), and (kind, attrs manifest, raw manifest, id argument[, change])
is sent to the extracted generic model, run with the executable SHA-1 of
lib/Sha1.v as the hash.  For every built / evolved object both sides are
compared on: id, compute_hash(), check() verdict class, swhid(), and on the
exception class when construction or evolve raises.  Independently (oracle) the property is evaluated on the
implementation with hashlib only.

One case = one object + one family of scenarios:
  ids     built without id; explicit right id; each of the 160 single-bit flips
          of the right id; 19-byte truncation; 21-byte extension; random ids;
          zero id; empty id (= no id)
  raw     raw manifests: junk / empty / attrs+LF (needed), the attributes'
          manifest itself (unneeded: must be rejected), each with no id, the
          right id, the attributes' id, a random id, bit flips; raw_manifest on
          a class without the field (TypeError)
  evolve  evolve() on every field returned by attr.fields(cls) with a new value
          of the right type (and None for optional ones), evolve() without
          argument on an object with a wrong id, evolve on an object carrying a
          raw manifest, evolve(id=...) (TypeError)
  shapes  every container-valued argument (tuple / mapping attributes: entries,
          parents, extra_headers, branches, metadata ...) GIVEN as tuple, list,
          generator, iter(), filter / map / zip / chain / islice / reversed
          object, deque, tuple / list / dict subclasses, an own one-shot iterator
          class, an own re-iterable class, dict, OrderedDict, defaultdict,
          MappingProxyType, ImmutableDict, items view, pairs ... - keeping, per
          field and per route, exactly the shapes the code accepts today
          (observed first with an explicit id) - in the constructor, in
          from_dict and in evolve(); evolve of hashed and non-hashed fields,
          alone, with another field, with raw_manifest, two shaped containers
          together, on objects built without id / with the right id / with a
          wrong id / under a raw manifest.  One-shot iterables are created
          afresh for every call.  The object must be the one built from the
          materialised tuple / dict and satisfy id == compute_hash(), check(),
          swhid()
  big     the same objects made large (thousands of entries / branches / parents,
          100 kB - 1 MB messages, metadata, external ids; raw manifests of 4 kB,
          64 kB, 1 MB +-1): ids, flips, raw manifests, evolve - evaluated by the
          oracle only (hashlib), the model's executable SHA-1 being too slow
  foreign objects built by the generators AND builders of the other properties'
          harnesses (C02 directories, C03 revisions, C04 releases, C05 snapshots,
          C15 external ids / metadata, C12 all seven classes), imported
          defensively (whatever is missing, renamed, raises or is one of their
          deliberately invalid cases contributes nothing): no id, right id, bit
          flips, truncated, random id, raw manifests, evolve, from_dict - every
          valid object, whatever its content, is accepted with its right id
  history several different valid objects of the same kind in one process: A, an
          equal twin, the same instance again, B / C / D (A with one or more
          fields changed: different manifests); then objects carrying EACH
          OTHER's ids - B with A's id, A with B's id, C with the id of an object
          that was never checked, D with its right id for the first time - in a
          shuffled order, before and after A is checked again; with raw
          manifests: junk for A and B, A's manifest as B's raw manifest (needed
          for B: accepted with A's id), an object's own manifest as its raw
          manifest (unneeded), A without raw manifest carrying the raw
          manifest's id; evolve from A to B, of B carrying A's id (no argument,
          back to A), the same change applied to two different sources.
          Expected per the property: accepted iff the id is the hash of the
          object's OWN manifest, whatever was verified / hashed / printed before
Own generators (structural variety): revisions with 0 / 1 / 2 / many parents,
repeated parents (adjacent, apart, all the same), a parent equal to the directory
id, an empty parent id, every accepted presence combination of author / committer
/ dates, repeated extra-header keys, empty values, legacy metadata; releases of
every target type, without author, author without date, empty / None message,
empty name, no target; directories empty / up to 25 entries, odd perms (incl.
integer literals of the code under test), names sorting around '/', shared
targets; snapshots with dangling branches, aliases to missing / self / chains /
cycles, empty name, all-dangling, all-unresolved; external ids with versions 0,
negative, huge, bool, literals of the code, payload both / none; metadata with
every context subset per target type; awkward byte shapes and literals harvested
from the code under test (gitobj_common, imported defensively).
Across the families (audit round): the three reads compute_hash() / check() /
swhid() are made in a random order with repetitions (a read must not change the
object nor depend on earlier reads); the source of an evolve is sometimes read
first and must be unchanged afterwards; values EQUAL to the current one but of
another type (True for 1, int / bytes / str subclasses, bytearray) in evolve and
as "twins" built one after the other with the same explicit id; raw manifests
given as bytearray / memoryview / bytes subclass; ids given as bytes subclass, as
40 hex characters; evolve with equal values on a stale-id source, with all fields,
with several fields, with all fields that do not enter the manifest together
(incl. a revision's legacy metadata layout, which does), chains of evolves and
back, sources produced by anonymize(); the class / object_type of swhid()
"""
import datetime
import hashlib
import os
import random

from .core import exc_class, hx

ID = "C07"
PROPS = "Props/C07.v"
EXTRACT = "extract/ExC07.v"
OBLIGATION = "hashable-object-id-and-check"
REQUESTS_NEED_IMPL = True
CASE_TIMEOUT = 60
THEOREMS = ["C07_init_id", "C07_construct_id", "C07_explicit_id_kept", "C07_check_iff", "C07_check_ok_iff",
            "C07_check_verdicts", "C07_wrong_id_rejected", "C07_wrong_id_value_error", "C07_right_id_accepted",
            "C07_unneeded_raw_rejected", "C07_needed_raw_accepted", "C07_built_checks", "C07_evolve",
            "C07_evolve_id_refused", "C07_evolve_raw_refused", "C07_evolve_no_manifest", "C07_swhid",
            "C07_swhid_of_built", "C07_swhid_table", "C07_swhid_extid_none", "C07_init_id_directory",
            "C07_init_id_snapshot", "C07_init_id_release", "C07_release_no_target", "C07_init_id_revision",
            "C07_init_id_origin", "C07_needed_raw_passes_example", "C07_unneeded_raw_fails_example",
            "C07_satisfiable", "C07_init_id_extid", "C07_init_id_emd"]
RULE = ("per kind (origin, snapshot, release, revision, directory, raw extrinsic metadata, external id) objects from "
        "own pure-Python generators (prefix-chain names, all presence combinations, legacy extra headers, aliases, non-ASCII "
        "URLs, all context combinations, payloads; repeated / empty / directory-equal / many parents, repeated header keys, "
        "alias chains and cycles, names around '/', odd perms, versions from the code's integer literals, wide byte shapes and "
        "source literals) plus the family foreign (objects built by the generators and builders of the C02/C03/C04/C05/C12/C15 "
        "harnesses, imported defensively, run through no id / right id / flips / raw / evolve / from_dict) and the family "
        "history (every second object: A, twin, same instance, variants B/C/D with other manifests, then objects carrying "
        "each other's ids and raw manifests in shuffled order before and after A is checked again, evolve between them); reads compute_hash/check/swhid in random order with repetitions; per "
        "object the families big (oracle only: 100 kB - 1 MB manifests), and: ids (no id, right id, all 160 single-bit flips, truncated, extended, random, zero id), raw "
        "(needed / empty / unneeded raw manifests x no id, right id, attributes' id, random id, flips), evolve (every "
        "attrs field with a changed value and None where optional, no-argument evolve on a wrong id, evolve under a raw "
        "manifest, evolve(id=), equal-valued values of another type (True for 1, subclasses) in evolve and as twins with the "
        "same explicit id, equal values on a stale id, all fields, several fields, all unhashed fields together incl. legacy "
        "revision metadata, chains of evolves and back, anonymize()-produced sources, source unchanged by evolve; raw also "
        "as bytearray / memoryview / bytes subclass, lengths around the SHA-1 block boundaries, 4 kB / 64 kB / 1 MB +-1; ids "
        "also as bytes subclass and as 40 hex characters), shapes (every tuple- or mapping-valued argument given as tuple / list / generator / iter / "
        "filter / map / zip / chain / islice / reversed / deque / subclasses / own one-shot and re-iterable classes / dict / "
        "OrderedDict / defaultdict / MappingProxyType / ImmutableDict / items view / pairs - only the shapes the constructor "
        "resp. from_dict accept today, observed at run time - through the constructor, from_dict and evolve (alone, with "
        "another field, with raw_manifest, two containers together; base without id, right id, wrong id, under a raw "
        "manifest); the result must equal the object built from the materialised value and satisfy the property); "
        "non-trivial = the case contains an id different from the right one or an evolve that "
        "changes the manifest; distinct = distinct (kind, object, family)")
TRUSTED = ["the manifest of the attributes is obtained from the library's own git_objects.<kind>_git_object / url.encode() "
           "(their content is the subject of C02-C05, C15); hashlib.sha1 as reference for the oracle",
           "lib/Sha1.v is only the executable instance of the hash variable (validated against hashlib on every case)",
           "attrs: attr.evolve / generated __init__ call the constructor with every field (modelled by attr_evolve / construct)"]
ASSUMPTIONS = ["anonymize() keeps the original id by design (it is not a route the property speaks about): its results are "
               "only used as stale-id SOURCES of evolve(); unique_key() is not in the property",
               "values equal but of another type: only those the validators accept today (observed per field at run time: "
               "bool / int subclass for ExtID.extid_version, bytes and str subclasses; bytearray only for the unvalidated "
               "raw_manifest)",
               "manifests larger than a few kB are checked by the hashlib oracle only (steps marked nomodel)",
               "objects pass their attrs validators (check() first runs attr.validate; objects that cannot be "
               "constructed are outside the property)",
               "ExtID has no swhid() in the code and no SWHID type exists for it: the SWHID clause is stated for the six "
               "kinds that have one (C07_swhid_extid_none records the absence)",
               "container arguments: only the shapes the current constructor / from_dict accept without error and store "
               "unchanged are exercised (e.g. today only Revision.extra_headers takes arbitrary iterables in the constructor; "
               "parents / entries only tuples; branches / metadata only dict subclasses and ImmutableDict); a shape that "
               "starts or stops being accepted is not a C07 matter",
               "a SWHID can only carry a 20-byte id (the SWHID constructor raises ValidationError otherwise): swhid() of an "
               "object built with a truncated/extended explicit id raises"]

KINDS = ["origin", "snapshot", "release", "revision", "directory", "raw_extrinsic_metadata", "extid"]
TAGS = {"origin": "ori", "snapshot": "snp", "release": "rel", "revision": "rev", "directory": "dir",
        "raw_extrinsic_metadata": "emd", "extid": None}          # the SWHID specification; cross-checked in pre_checks


def _cls(kind):
    from swh.model import model as M
    return {"origin": M.Origin, "snapshot": M.Snapshot, "release": M.Release, "revision": M.Revision,
            "directory": M.Directory, "raw_extrinsic_metadata": M.RawExtrinsicMetadata, "extid": M.ExtID}[kind]


def _has_raw(kind):
    import attr
    return any(a.name == "raw_manifest" for a in attr.fields(_cls(kind)))


def _manifest_fn(kind):
    from swh.model import git_objects as G
    return {"origin": lambda o: o.url.encode("utf-8"),
            "snapshot": lambda o: G.snapshot_git_object(o, ignore_unresolved=True),
            "release": G.release_git_object, "revision": G.revision_git_object,
            "directory": G.directory_git_object,
            "raw_extrinsic_metadata": G.raw_extrinsic_metadata_git_object,
            "extid": G.extid_git_object}[kind]


# ------------------------------------------------------------------ generators
def _sha(rng):
    return bytes(rng.randrange(256) for _ in range(20))


URLS = ["https://example.org/été", "http://例え.jp/パス", "", "a", "git://host/\U0001f600.git",
        "https://example.org/with space", "https://example.org/line\nbreak", "swh:1:ori:" + "0" * 40,
        "http://xn--e1afmkfd.xn--p1ai/", "ÿ", "https://example.org/" + "é" * 1013]     # 20+2026 = 2046 bytes


def gen_origin(rng):
    r = rng.random()
    if r < 0.6:
        return {"url": rng.choice(URLS)}
    return {"url": "".join(rng.choice(["a", "/", ":", "é", "Ж", "中", "\U0001f40d", " ", "%", "\x00", "\x7f"])
                           for _ in range(rng.randrange(0, 30)))}


CORE_T = ["cnt", "dir", "rev", "rel", "snp"]


def gen_extid(rng):
    pl = rng.random() < 0.4
    return {"extid_type": rng.choice(["hg-nodeid", "git-sha1", "x", "", "tarball-sha256"]),
            "extid": bytes(rng.randrange(256) for _ in range(rng.choice([0, 1, 20, 32]))).hex() if rng.random() < 0.7
            else rng.choice([b"a\nb", b" lead", b"\n", _wide(rng)]).hex(),
            "target": "swh:1:%s:%s" % (rng.choice(CORE_T), _sha(rng).hex()),
            "version": rng.choice([0, 0, 1, 2, -1, 10 ** 12, True, False, _ints(rng)]),
            "payload_type": rng.choice(["disk-history", "p"]) if pl else None,
            "payload": _sha(rng).hex() if pl else None}


def gen_rem(rng):
    tt = rng.choice(CORE_T + ["ori", "emd"])
    spec = {"target": "swh:1:%s:%s" % (tt, _sha(rng).hex()),
            "ts": rng.choice([0, 1, -1, 1600000000, rng.randrange(-10 ** 9, 4 * 10 ** 9)]),
            "us": rng.choice([0, 0, 1, 999999, rng.randrange(10 ** 6)]),
            "tzmin": rng.choice([0, 0, 60, -330, 840, -720, rng.randrange(-1439, 1440)]),
            "authority": [rng.choice(["deposit_client", "forge", "registry"]),
                          rng.choice(["https://forge.example/", "http://é.example/a b", "", "x\ny"])],
            "fetcher": [rng.choice(["swh-loader", "näme", "", "two words"]), rng.choice(["1.0", "", "v 2", "0.0.1\n"])],
            "format": rng.choice(["json", "", "sword-v2-atom-codemeta", "förmat"]),
            "metadata": rng.choice([b"", b"{}", b'{"a": 1}\n', b"\n\nx", bytes(rng.randrange(256) for _ in range(rng.randrange(1, 30)))]).hex(),
            "origin": None, "visit": None, "snapshot": None, "release": None, "revision": None, "path": None,
            "directory": None}
    allowed = {"origin": CORE_T, "snapshot": ["rel", "rev", "dir", "cnt"], "release": ["rev", "dir", "cnt"],
               "revision": ["dir", "cnt"], "path": ["dir", "cnt"], "directory": ["cnt"]}
    p = rng.choice([0.0, 0.4, 0.5, 0.5, 1.0])          # each allowed context independently: every subset occurs
    if tt in allowed["origin"] and rng.random() < p:
        spec["origin"] = rng.choice(["https://example.org/é", "http://o/\n x", "o"])
        if rng.random() < 0.6:
            spec["visit"] = rng.choice([1, 2, 42, 10 ** 10])
    for k, t in (("snapshot", "snp"), ("release", "rel"), ("revision", "rev"), ("directory", "dir")):
        if tt in allowed[k] and rng.random() < p:
            spec[k] = "swh:1:%s:%s" % (t, _sha(rng).hex())
    if tt in allowed["path"] and rng.random() < p:
        spec["path"] = rng.choice([b"/a/b", b"", b"p\nq", b"\xff\x00"]).hex()
    return spec


_NAME_ALPHA = [b"a", b"b", b".", b"-", b"0", b" ", b"\n", b"\x80", b"\xff", b"A", b"~", b"_", b":"]
_PERMS = [0o100644, 0o100755, 0o120000, 0o040000, 0o160000, 0, 7, 0o177777]


def _names(rng, n, extra=()):
    """n distinct byte strings: prefix chains over an adversarial alphabet (no NUL; `extra` adds bytes to the alphabet)"""
    alpha = _NAME_ALPHA + list(extra)
    names = set()
    base = [b"a", b"ab", b"a.b", b"a-", b"a0", b"a b", b"A", b"", b"\xff", b"HEAD", b"refs"]
    while len(names) < n:
        r = rng.random()
        if r < 0.35 and names:
            names.add(rng.choice(sorted(names)) + rng.choice(alpha))
        elif r < 0.6:
            names.add(rng.choice(base))
        else:
            names.add(b"".join(rng.choice(alpha) for _ in range(rng.randrange(1, 6))))
    return sorted(names)


def _wide(rng):
    """a byte string of an awkward shape: the shared wide generator / a literal harvested from the code under test when
    the shared helpers are available, an own value otherwise (never raises)"""
    try:
        from . import gitobj_common as GC
        r = rng.random()
        if r < 0.5:
            v = GC.gen_bytes_wide(rng)
        elif r < 0.8:
            v = GC.splice_token(rng, rng.choice(_VALUES), "bytes")
        else:
            v = rng.choice(GC.source_tokens("bytes"))
        if isinstance(v, (bytes, bytearray)):
            return bytes(v)
    except Exception:
        pass
    return rng.choice(_VALUES + [b"a\r\nb", b"\r", b"a\x00b", b"\n", b"\n\n", b" ", b"x ", b"refs/heads/", b"swh:1:"])


def _ints(rng):
    try:
        from . import gitobj_common as GC
        l = [i for i in GC.source_ints() if isinstance(i, int)]
        if l:
            return rng.choice(l)
    except Exception:
        pass
    return rng.choice([0, 1, -1, 2, 255, 256, 65535, 65536, 2 ** 31, 2 ** 63, 10 ** 12])


def gen_directory(rng):
    """entries [name hex, type, target hex, perms]: distinct names without '/'"""
    names = set(_names(rng, rng.choice([0, 1, 2, 3, 3, 5, 8, 13, 25])))
    if rng.random() < 0.4:
        # names sorting around '/' (a directory sorts as name + '/'): x, x., x-, x0, x\x2e..., and odd shapes
        x = rng.choice([b"a", b"lib", b""])
        names |= {x + t for t in rng.sample([b"", b".", b"-", b"0", b".a", b"-a", b"0a", b"\x2e\x2f"[:1], b"\x30", b" ", b"\xff"], 4)}
    if rng.random() < 0.3:
        names.add(_wide(rng).replace(b"/", b"_").replace(b"\x00", b"_"))
    tgt = _sha(rng)
    es = [[nm.hex(), rng.choice(["file", "dir", "rev"]), (tgt if rng.random() < 0.15 else _sha(rng)).hex(),
           rng.choice(_PERMS + [rng.randrange(65536), abs(_ints(rng)) % (2 ** 32)])] for nm in sorted(names)]
    rng.shuffle(es)
    return {"entries": es}


def gen_snapshot(rng):
    """branches [name hex, target type | None (dangling), target hex]: aliases to existing / missing / own names"""
    names = _names(rng, rng.choice([0, 1, 2, 3, 3, 5, 8]), extra=[b"/"])
    if rng.random() < 0.3:
        names = sorted(set(names) | {b"", _wide(rng).replace(b"\x00", b"_")[:40]})
    br = []
    shape = rng.choice(["mixed", "mixed", "chain", "cycle", "all-dangling", "all-alias-to-missing"])
    if shape in ("chain", "cycle") and len(names) >= 2:
        # a -> b -> c -> ... (-> a for a cycle; the last one resolved otherwise)
        for i, nm in enumerate(names):
            if i + 1 < len(names):
                br.append([nm.hex(), "alias", names[i + 1].hex()])
            elif shape == "cycle":
                br.append([nm.hex(), "alias", names[0].hex()])
            else:
                br.append([nm.hex(), "revision", _sha(rng).hex()])
        rng.shuffle(br)
        return {"branches": br}
    if shape == "all-dangling":
        return {"branches": [[nm.hex(), None, None] for nm in names]}
    if shape == "all-alias-to-missing":
        return {"branches": [[nm.hex(), "alias", (nm + b"?").hex()] for nm in names]}
    for nm in names:
        r = rng.random()
        if r < 0.15:
            br.append([nm.hex(), None, None])
        elif r < 0.45:
            tg = rng.choice([rng.choice(names), nm, rng.choice(names) + b"x",
                             bytes(rng.choice([0, 58, 48, 10, 32, rng.randrange(256)]) for _ in range(rng.choice([0, 1, 9, 10, 11, 100])))])
            br.append([nm.hex(), "alias", tg.hex()])
        else:
            br.append([nm.hex(), rng.choice(["content", "directory", "revision", "release", "snapshot"]), _sha(rng).hex()])
    rng.shuffle(br)
    return {"branches": br}


_FULLNAMES = [b"A U Thor <a@b.c>", b"", b"x", b"Name\nwith newline <e>", b" lead", b"\xff\xfe", b"no email", b"a <b> c <d>"]
_OFFSETS = [b"+0000", b"-0000", b"+0100", b"-1230", b"+1", b"junk", b"\xff\xfe", b"", b" +0200"]
_VALUES = [b"", b"v1.0", b"hello world", b"a\nb", b" leading", b"-----BEGIN PGP-----\n\nabc\n def\n-----END-----", b"line\n",
           b"\n \n\n  x", b"\xc3\xa9t\xc3\xa9"]
TS_MIN, TS_MAX = -62135510961, 253402297199


def _gen_date(rng):
    return [rng.choice([0, -1, 1, TS_MIN, TS_MAX, 1234567890, rng.randrange(TS_MIN, TS_MAX)]),
            rng.choice([0, 0, 1, 100000, 999999, rng.randrange(10 ** 6)]), rng.choice(_OFFSETS).hex()]


def gen_revision(rng):
    """every accepted presence combination of author / date / committer / committer_date; extra headers given as the
    attribute or the legacy way inside metadata"""
    a, cm = rng.random() < 0.75, rng.random() < 0.75
    directory = _sha(rng)
    pool = [_sha(rng) for _ in range(3)]
    pshape = rng.choice(["none", "one", "two", "repeated", "repeated-apart", "all-same", "directory-id", "empty-id", "many",
                         "many-with-repeats", "octopus"])
    parents = {"none": [], "one": pool[:1], "two": pool[:2], "repeated": [pool[0], pool[0]],
               "repeated-apart": [pool[0], pool[1], pool[0]], "all-same": [pool[2]] * rng.choice([3, 5]),
               "directory-id": [directory] + pool[:rng.choice([0, 1])], "empty-id": [b""] + pool[:rng.choice([0, 2])],
               "many": [_sha(rng) for _ in range(rng.choice([8, 17]))],
               "many-with-repeats": [rng.choice(pool) for _ in range(rng.choice([6, 12]))], "octopus": pool}[pshape]
    parents = [p.hex() for p in parents]
    keys = [b"gpgsig", b"mergetag", b"encoding", b"x-custom", b"HG:extra", b"a", b"\xff"]
    msg = rng.choice([None, b"", rng.choice(_VALUES), b"subject\n\nbody\n", _wide(rng)])
    extra = [[rng.choice(keys).hex(), rng.choice(_VALUES + [_wide(rng)]).hex()] for _ in range(rng.choice([0, 0, 1, 2, 4]))]
    if extra and rng.random() < 0.4:
        extra.append([extra[0][0], rng.choice([b"", extra and bytes.fromhex(extra[0][1])]).hex()])      # a repeated key
    if rng.random() < 0.15:
        extra = [[k.hex(), b"".hex()] for k in rng.sample(keys, 3)]                                        # only empty values
    return {"message": None if msg is None else msg.hex(),
            "author": rng.choice(_FULLNAMES).hex() if a else None, "date": _gen_date(rng) if a and rng.random() < 0.8 else None,
            "committer": rng.choice(_FULLNAMES).hex() if cm else None,
            "committer_date": _gen_date(rng) if cm and rng.random() < 0.8 else None,
            "directory": directory.hex(), "parents": parents, "extra": extra,
            "legacy": rng.random() < 0.3, "synthetic": rng.random() < 0.5,
            "rtype": rng.choice(["git", "tar", "dsc", "svn", "hg", "cvs", "bzr"])}


def gen_release(rng, no_target=False):
    a = rng.random() < 0.7
    msg = rng.choice([None, b"", rng.choice(_VALUES), _wide(rng)])
    return {"name": rng.choice(_VALUES + [_wide(rng)]).hex(), "message": None if msg is None else msg.hex(),
            "target": None if no_target else _sha(rng).hex(),
            "ttype": rng.choice(["content", "directory", "revision", "release", "snapshot"]),
            "author": rng.choice(_FULLNAMES).hex() if a else None,
            "date": _gen_date(rng) if a and rng.random() < 0.7 else None,
            "synthetic": rng.random() < 0.5}


def gen_specs(rng, kind, n):
    """pure Python: no library call, no dependency on the other properties' harnesses"""
    if kind == "release":
        # some releases without target (no manifest)
        k = max(2, n // 12)
        return [gen_release(rng, no_target=(i < k)) for i in range(n)]
    g = {"origin": gen_origin, "extid": gen_extid, "raw_extrinsic_metadata": gen_rem, "directory": gen_directory,
         "snapshot": gen_snapshot, "revision": gen_revision}[kind]
    return [g(rng) for _ in range(n)]


# ------------------------------------------------------------------ objects of the other properties' generators
_CLS_KIND = {"Origin": "origin", "Snapshot": "snapshot", "Release": "release", "Revision": "revision", "Directory": "directory",
             "RawExtrinsicMetadata": "raw_extrinsic_metadata", "ExtID": "extid"}


def _foreign_kind(src, fc):
    if src == "c15":
        return "extid" if fc.get("kind") == "extid" else "raw_extrinsic_metadata"
    if src == "c12":
        return _CLS_KIND.get(fc.get("cls")) if fc.get("kind") == "obj" else None
    return {"c02": "directory", "c03": "revision", "c04": "release", "c05": "snapshot"}[src]


def _foreign_build(src, fc):
    """the object a neighbouring harness builds for ITS case (their builders; any exception = not available / not valid)"""
    import importlib
    m = importlib.import_module("harness." + src)
    if src == "c02":
        return m._build(fc["entries"])
    if src == "c05":
        return m._build(fc["branches"])
    if src in ("c03", "c04"):
        return m._build(fc)
    if src == "c15":
        return m._mk_extid(fc) if fc.get("kind") == "extid" else m._build_emd(fc, fc["date"])
    if src == "c12":
        return m.realize(m.dec(fc["w"]))
    raise KeyError(src)


def gen_foreign(rng, tier):
    """cases of the generators of C02 / C03 / C04 / C05 / C12 / C15 (structural variety decided elsewhere: repeated
    parents, odd perms, alias cycles, every context subset, legacy layouts, literals of the code under test ...), each
    guarded: a generator that is missing, renamed or raises contributes nothing"""
    import importlib
    per = 40 if tier == "quick" else 500
    out = []
    for src in ("c02", "c03", "c04", "c05", "c15", "c12"):
        try:
            m = importlib.import_module("harness." + src)
            pool = list(m.gen(random.Random(rng.getrandbits(64)), "quick"))
        except Exception:
            continue
        cand = []
        for fc in pool:
            try:
                k = _foreign_kind(src, fc)
                if k is not None and len(repr(fc)) < 20000:
                    cand.append((k, fc))
            except Exception:
                pass
        n = per * (2 if src in ("c12", "c15") else 1)
        sub = random.Random(rng.getrandbits(64))
        for k, fc in (cand if len(cand) <= n else sub.sample(cand, n)):
            out.append({"kind": k, "what": "foreign", "src": src, "spec": fc, "seed": sub.getrandbits(32)})
    return out


def gen(rng, tier):
    n_obj = 48 if tier == "quick" else 450
    specs = {kind: gen_specs(rng, kind, n_obj) for kind in KINDS}
    cases = []
    # round-robin over the kinds, so that every prefix of the stream covers all seven; per object the two
    # small families first, then the 170-id family
    for i in range(n_obj):
        for kind in KINDS:
            for what in ("evolve", "raw", "shapes", "ids"):
                case = {"kind": kind, "spec": specs[kind][i], "what": what, "seed": rng.getrandbits(32)}
                if what in ("shapes", "raw", "evolve") and tier != "quick":
                    case["full"] = True          # every accepted shape in every context / every large size
                cases.append(case)
            if tier != "quick" or i % 2 == 0:
                cases.append({"kind": kind, "spec": specs[kind][i], "what": "history", "seed": rng.getrandbits(32)})
            if i < (1 if tier == "quick" else 6):
                cases.append({"kind": kind, "spec": specs[kind][i], "what": "big", "big": [1500, 700, 3000, 1100, 5000, 2049][i],
                              "seed": rng.getrandbits(32)})
    # the evidence samples are taken from the head of the stream: keep them small
    head = [c for c in cases[:4 * len(KINDS)] if c["what"] in ("evolve", "raw")][:6]
    cases = head + [c for c in cases if not any(c is h for h in head)]
    try:
        foreign = gen_foreign(rng, tier)
    except Exception:
        foreign = []
    # spread the foreign objects over the stream (early detection whatever the family)
    step = max(1, len(cases) // (len(foreign) + 1))
    out = []
    fi = iter(foreign)
    for i, c in enumerate(cases):
        out.append(c)
        if i % step == step - 1:
            f = next(fi, None)
            if f is not None:
                out.append(f)
    return out + list(fi)


def nontrivial(c):
    return c.get("what") in ("ids", "raw", "evolve", "shapes", "big", "foreign", "history")


def classify(c):
    ks = ["kind=" + c["kind"], "family=" + c["what"]]
    if c["what"] == "foreign":
        ks.append("foreign:" + str(c.get("src")))
    if c["kind"] == "release" and c["spec"].get("target") is None:
        ks.append("no-manifest(release without target)")
    if c["what"] == "shapes":
        ks.append("shapes:" + ("all" if c.get("full") else "sampled"))
    if c["what"] == "raw":
        ks.append("raw:needed+unneeded" if c["kind"] in ("release", "revision", "directory") else "raw:class-without-field")
    return ks


# ------------------------------------------------------------------ building the real objects
def _person(fullname_hex):
    from swh.model.model import Person
    return None if fullname_hex is None else Person(fullname=bytes.fromhex(fullname_hex), name=None, email=None)


def _tstz(date):
    from swh.model.model import Timestamp, TimestampWithTimezone
    if date is None:
        return None
    return TimestampWithTimezone(timestamp=Timestamp(seconds=date[0], microseconds=date[1]), offset_bytes=bytes.fromhex(date[2]))


def base_kwargs(kind, spec):
    """constructor keyword arguments (without id / raw_manifest), exactly as a caller would give them"""
    from swh.model import model as M
    from swh.model.swhids import CoreSWHID, ExtendedSWHID
    if kind == "release":
        c = spec
        return dict(name=bytes.fromhex(c["name"]), message=None if c["message"] is None else bytes.fromhex(c["message"]),
                    target=None if c["target"] is None else bytes.fromhex(c["target"]),
                    target_type=M.ReleaseTargetType(c["ttype"]), synthetic=c["synthetic"],
                    author=_person(c["author"]), date=_tstz(c["date"]), metadata=None)
    if kind == "origin":
        return {"url": spec["url"]}
    if kind == "extid":
        return dict(extid_type=spec["extid_type"], extid=bytes.fromhex(spec["extid"]),
                    target=CoreSWHID.from_string(spec["target"]), extid_version=spec["version"],
                    payload_type=spec["payload_type"],
                    payload=None if spec["payload"] is None else bytes.fromhex(spec["payload"]))
    if kind == "raw_extrinsic_metadata":
        s = spec
        tz = datetime.timezone(datetime.timedelta(minutes=s["tzmin"]))
        date = datetime.datetime.fromtimestamp(s["ts"], tz=tz).replace(microsecond=s["us"])
        kw = dict(target=ExtendedSWHID.from_string(s["target"]), discovery_date=date,
                  authority=M.MetadataAuthority(type=M.MetadataAuthorityType(s["authority"][0]), url=s["authority"][1]),
                  fetcher=M.MetadataFetcher(name=s["fetcher"][0], version=s["fetcher"][1]),
                  format=s["format"], metadata=bytes.fromhex(s["metadata"]), origin=s["origin"], visit=s["visit"],
                  path=None if s["path"] is None else bytes.fromhex(s["path"]))
        for k in ("snapshot", "release", "revision", "directory"):
            kw[k] = None if s[k] is None else CoreSWHID.from_string(s[k])
        return kw
    if kind == "revision":
        # legacy revisions carry their extra headers inside metadata, the attribute left empty: the id is computed
        # BEFORE __attrs_post_init__ moves them to the attribute
        c = spec
        extra = tuple((bytes.fromhex(k), bytes.fromhex(v)) for k, v in c["extra"])
        legacy = bool(c.get("legacy") and extra)
        return dict(message=None if c["message"] is None else bytes.fromhex(c["message"]),
                    author=_person(c["author"]), committer=_person(c["committer"]),
                    date=_tstz(c["date"]), committer_date=_tstz(c["committer_date"]),
                    type=M.RevisionType(c.get("rtype", "git")), directory=bytes.fromhex(c["directory"]),
                    synthetic=c["synthetic"], metadata={"extra_headers": [[k, v] for k, v in extra]} if legacy else None,
                    parents=tuple(bytes.fromhex(p) for p in c["parents"]), extra_headers=() if legacy else extra)
    if kind == "directory":
        return {"entries": tuple(M.DirectoryEntry(name=bytes.fromhex(n), type=t, target=bytes.fromhex(tg), perms=p)
                                 for n, t, tg, p in spec["entries"])}
    if kind == "snapshot":
        return {"branches": {bytes.fromhex(n): (None if k is None else
                                                M.SnapshotBranch(target=bytes.fromhex(t), target_type=M.SnapshotTargetType(k)))
                             for n, k, t in spec["branches"]}}
    raise KeyError(kind)


def _inflate(kind, kw, n):
    """the same object made LARGE (n items / about 64*n bytes): manifests of 100 kB - 1 MB"""
    from swh.model import model as M
    kw = dict(kw)
    sha = lambda i: hashlib.sha1(b"%d" % i).digest()
    if kind == "directory":
        kw["entries"] = tuple(kw["entries"]) + tuple(
            M.DirectoryEntry(name=b"\xfe%06d" % i, type=("file", "dir", "rev")[i % 3], target=sha(i), perms=(0o100644, 0o40000, 0o160000)[i % 3])
            for i in range(n))
    elif kind == "snapshot":
        d = dict(kw["branches"].items())
        for i in range(n):
            d[b"\xfe/%06d" % i] = None if i % 7 == 0 else M.SnapshotBranch(target=sha(i), target_type=M.SnapshotTargetType.REVISION)
        kw["branches"] = d
    elif kind == "revision":
        kw["parents"] = tuple(kw["parents"]) + tuple(sha(i) for i in range(n))
        kw["message"] = (kw["message"] or b"") + b"line of the message\n" * (2 * n)
    elif kind == "release":
        kw["message"] = (kw["message"] or b"") + b"line of the message\n" * (3 * n)
        if kw.get("target") is None:
            kw["target"] = sha(0)
    elif kind == "raw_extrinsic_metadata":
        kw["metadata"] = kw["metadata"] + b"0123456789abcdef" * (4 * n)
    elif kind == "extid":
        kw["extid"] = kw["extid"] + b"0123456789abcdef" * (4 * n)
    elif kind == "origin":
        u = kw["url"]
        kw["url"] = u + "é" * max(0, (2047 - len(u.encode())) // 2)      # the longest URL the validator accepts
    return kw


def attrs_manifest(kind, obj):
    """the library's own manifest of the attributes; None when it raises TypeError"""
    try:
        return _manifest_fn(kind)(obj)
    except TypeError:
        return None


def _read(x, what):
    try:
        if what == "ch":
            return x.compute_hash().hex()
        if what == "check":
            x.check()
            return "ok"
        sw = x.swhid()
        return str(sw), "%s:%s" % (type(sw).__name__, getattr(getattr(sw, "object_type", None), "name", "?"))
    except Exception as e:
        return "!" + exc_class(e)


def observe(x, rng=None):
    """id, compute_hash(), check(), swhid().  With rng: the three reads are made in a random order and one or two of them
    are repeated afterwards - a read must neither change the object nor depend on what was read before; `unstable`
    lists the reads whose repetition answered differently, `id_changed` is set when the id attribute is different after
    the reads"""
    o = {"id": x.id.hex()}
    order = ["ch", "check", "swhid"]
    if rng is not None:
        rng.shuffle(order)
        order += rng.sample(order, rng.choice([1, 1, 2]))
    unstable = []
    for w in order:
        r = _read(x, w)
        cls_ = None
        if isinstance(r, tuple):
            r, cls_ = r
        if w in o:
            if o[w] != r:
                unstable.append(w)
            continue
        o[w] = r
        if cls_ is not None:
            o["swhid_cls"] = cls_
    if unstable:
        o["unstable"] = unstable
    if x.id.hex() != o["id"]:
        o["id_changed"] = x.id.hex()
    return o


class _BytesSub(bytes):
    pass


class _StrSub(str):
    pass


class _IntSub(int):
    pass


def eq_alt_values(cur):
    """values EQUAL (==) to cur but of another type - True for 1, an int / bytes / str subclass, ...; the validators
    decide which are accepted (observed at run time); equal values may still print differently in a manifest"""
    out = []
    if isinstance(cur, bool):
        out += [int(cur), _IntSub(int(cur))]
    elif isinstance(cur, int):
        if cur in (0, 1):
            out.append(bool(cur))
        out.append(_IntSub(cur))
    elif isinstance(cur, bytes):
        out += [_BytesSub(cur), bytearray(cur)]
    elif isinstance(cur, str):
        out.append(_StrSub(cur))
    return out


SWHID_CLS = {"origin": "ExtendedSWHID:ORIGIN", "snapshot": "CoreSWHID:SNAPSHOT", "release": "CoreSWHID:RELEASE",
             "revision": "CoreSWHID:REVISION", "directory": "CoreSWHID:DIRECTORY",
             "raw_extrinsic_metadata": "ExtendedSWHID:RAW_EXTRINSIC_METADATA"}     # the classes' documented return types


def _flip(b, k):
    return b[:k // 8] + bytes([b[k // 8] ^ (0x80 >> (k % 8))]) + b[k // 8 + 1:]


_ABSENT = object()
_HISTORY_ALWAYS = ("A:noid", "A:twin-right-id", "A:same-instance-again")


def _construct(cls, kw, raw=_ABSENT, idv=b""):
    extra = {}
    if raw is not _ABSENT:
        extra["raw_manifest"] = raw
    if idv != b"" or raw is _ABSENT:
        extra["id"] = idv          # id=b"" is passed explicitly in one half of the no-id cases, left out in the other
    return cls(**kw, **extra)


def _enc_rawarg(raw):
    return "=" if raw is _ABSENT else hx(raw)


# ------------------------------------------------------------------ shapes of container arguments
class _Shaped:
    """a container value to be GIVEN in a particular shape (list, generator, filter object, dict view ...): `fresh()`
    makes a new value of that shape on every call (one-shot iterators are consumed by whoever reads them first),
    `mat` is the materialised tuple / dict the resulting attribute must be equal to"""

    def __init__(self, shape, make, mat):
        self.shape, self.make, self.mat = shape, make, mat

    def fresh(self):
        return self.make()


def _mat(v):
    return v.mat if isinstance(v, _Shaped) else v


def _fresh(v):
    return v.fresh() if isinstance(v, _Shaped) else v


def _differs(x, ref, names):
    """names of the fields on which x differs from the reference object (built from materialised values)"""
    out = []
    for n in names:
        try:
            if getattr(x, n) != getattr(ref, n):
                out.append(n)
        except Exception:
            out.append(n)
    return out


class _OneShot:
    """an iterator class of our own (neither generator nor builtin)"""

    def __init__(self, items):
        self._l, self._i = list(items), 0

    def __iter__(self):
        return self

    def __next__(self):
        if self._i >= len(self._l):
            raise StopIteration
        self._i += 1
        return self._l[self._i - 1]


class _ReIterable:
    """an iterable (not a sequence) that can be iterated any number of times"""

    def __init__(self, items):
        self._l = list(items)

    def __iter__(self):
        return iter(list(self._l))


class _TupleSub(tuple):
    pass


class _ListSub(list):
    pass


class _DictSub(dict):
    pass


def seq_shapes(mat):
    """[(shape name, factory)] for a tuple value"""
    import collections
    import itertools
    mat = tuple(mat)
    k = len(mat) // 2
    sh = [("tuple", lambda: tuple(mat)), ("list", lambda: list(mat)), ("generator", lambda: (x for x in mat)),
          ("iter", lambda: iter(list(mat))), ("filter", lambda: filter(lambda x: True, mat)),
          ("map", lambda: map(lambda x: x, mat)), ("chain", lambda: itertools.chain(mat[:k], mat[k:])),
          ("islice", lambda: itertools.islice(mat, len(mat))), ("reversed", lambda: reversed(mat[::-1])),
          ("deque", lambda: collections.deque(mat)), ("tuple-subclass", lambda: _TupleSub(mat)),
          ("list-subclass", lambda: _ListSub(mat)), ("one-shot-iterator", lambda: _OneShot(mat)),
          ("re-iterable", lambda: _ReIterable(mat))]
    if mat and all(isinstance(x, tuple) and len(x) == 2 for x in mat):
        ks, vs = [a for a, _ in mat], [b for _, b in mat]
        sh += [("zip", lambda: zip(ks, vs)), ("list-of-lists", lambda: [list(x) for x in mat]),
               ("generator-of-generators", lambda: ((y for y in x) for x in mat))]
        try:
            if len(set(ks)) == len(ks):
                sh.append(("dict-items", lambda: dict(zip(ks, vs)).items()))
        except TypeError:
            pass
    return sh


def map_shapes(mat):
    """[(shape name, factory)] for a mapping value"""
    import collections
    import types
    from swh.model.collections import ImmutableDict
    items = list(mat.items())
    return [("dict", lambda: dict(items)), ("ImmutableDict", lambda: ImmutableDict(dict(items))),
            ("OrderedDict", lambda: collections.OrderedDict(items)), ("dict-subclass", lambda: _DictSub(items)),
            ("defaultdict", lambda: collections.defaultdict(lambda: None, items)),
            ("MappingProxyType", lambda: types.MappingProxyType(dict(items))), ("items-view", lambda: dict(items).items()),
            ("list-of-pairs", lambda: list(items)), ("tuple-of-pairs", lambda: tuple(items)),
            ("generator-of-pairs", lambda: (x for x in items)), ("iter-of-pairs", lambda: iter(list(items))),
            ("zip", lambda: zip([a for a, _ in items], [b for _, b in items])),
            ("ImmutableDict-from-generator", lambda: ImmutableDict(x for x in items))]


def shapes_of(value):
    from swh.model.collections import ImmutableDict
    if isinstance(value, (tuple, list)):
        return seq_shapes(value)
    if isinstance(value, (dict, ImmutableDict)):
        return map_shapes(dict(value.items()))
    return []


def _alt_values_raw(kind, name, cur, a, rng):
    """new values 'of the right type' for a field, chosen from the current value's
    type (and the field's name for containers), so that a field added to a class
    is exercised without touching this file; unknown shapes -> the same value"""
    import enum
    from swh.model import model as M
    from swh.model.collections import ImmutableDict
    from swh.model.swhids import CoreSWHID, ExtendedSWHID
    out = []
    if cur is None:
        t = str(a.type)
        if name in ("snapshot", "release", "revision", "directory") and "SWHID" in t:
            from swh.model.swhids import ObjectType
            out.append(CoreSWHID(object_type=ObjectType[name.upper()], object_id=_sha(rng)))
        elif "Person" in t:
            out.append(M.Person(fullname=b"New Person <n@e>", name=None, email=None))
        elif "TimestampWithTimezone" in t:
            out.append(M.TimestampWithTimezone(timestamp=M.Timestamp(seconds=rng.randrange(10 ** 9), microseconds=0),
                                               offset_bytes=b"+0100"))
        elif "ImmutableDict" in t or "Dict" in t:
            out.append({"k": "v"})
            if kind == "revision" and name == "metadata":
                out.append({"extra_headers": [[b"x-legacy", b"1\n2"], [b"x-legacy", b""]]})       # the legacy layout
        elif "bytes" in t:
            out.append(b"new\nvalue" if name not in ("target", "payload") else _sha(rng))
        elif "str" in t:
            out.append("new")
        elif "int" in t:
            out.append(1)
        else:
            out.append(None)
        return out
    if isinstance(cur, bool):
        out.append(not cur)
    elif isinstance(cur, int):
        out.append(cur + 1)
    elif isinstance(cur, bytes):
        out.append(cur[:-1] + bytes([cur[-1] ^ 1]) if cur else b"x")
    elif isinstance(cur, str):
        out.append(cur + ("/é" if name in ("url", "origin") and len(cur.encode()) < 2000 else "x"))
    elif isinstance(cur, enum.Enum):
        ms = list(type(cur))
        out.append(ms[(ms.index(cur) + 1) % len(ms)])
    elif isinstance(cur, M.Person):
        out.append(M.Person(fullname=cur.fullname + b"x", name=None, email=None))
    elif isinstance(cur, M.TimestampWithTimezone):
        out.append(M.TimestampWithTimezone(timestamp=M.Timestamp(seconds=cur.timestamp.seconds - 1 if cur.timestamp.seconds > 0
                                                                   else cur.timestamp.seconds + 1,
                                                                   microseconds=cur.timestamp.microseconds),
                                           offset_bytes=cur.offset_bytes))
    elif isinstance(cur, datetime.datetime):
        try:
            out.append(cur + datetime.timedelta(days=1, seconds=1))
        except OverflowError:                      # the last day of year 9999
            out.append(cur - datetime.timedelta(days=1, seconds=1))
    elif isinstance(cur, (CoreSWHID, ExtendedSWHID)):
        out.append(type(cur)(object_type=cur.object_type, object_id=_flip(cur.object_id, 7)))
    elif isinstance(cur, M.MetadataAuthority):
        out.append(M.MetadataAuthority(type=cur.type, url=cur.url + "x"))
    elif isinstance(cur, M.MetadataFetcher):
        out.append(M.MetadataFetcher(name=cur.name, version=cur.version + "x"))
    elif isinstance(cur, tuple):
        if name == "entries":
            out.append(cur + (M.DirectoryEntry(name=b"\xffnew-entry", type="file", target=_sha(rng), perms=0o100644),))
        elif name == "parents":
            out.append(cur + (_sha(rng),))
        elif name == "extra_headers":
            out.append(cur + ((b"x-new", b"v\nw"),))
        if cur:
            out.append(cur[:-1])
        if not out:
            out.append(cur)
    elif isinstance(cur, (dict, ImmutableDict)):
        d = dict(cur.items())
        if name == "branches":
            d2 = dict(d)
            d2[b"\xffnew-branch"] = None
            out.append(d2)
            if d:
                d3 = dict(d)
                d3.pop(sorted(d3)[0])
                out.append(d3)
        else:
            d2 = dict(d)
            d2["new-key"] = "v"
            out.append(d2)
            if kind == "revision" and name == "metadata":
                out.append(dict(d, extra_headers=[[b"x-legacy", b"1\n2"], [b"x-legacy", b""]]))   # the legacy layout
    else:
        out.append(cur)
    if cur is not None and (str(a.type).startswith("typing.Optional") or a.default is None):
        out.append(None)
    return out


def alt_values(kind, name, cur, a, rng):
    """never raises: a value this harness cannot vary is left as it is"""
    try:
        out = _alt_values_raw(kind, name, cur, a, rng)
        return out if out else [cur]
    except Exception:
        return [cur]


def impl(c):
    """runs every scenario of the case on the real classes; each step carries the
    arguments the model needs (the attrs manifest comes from the library)"""
    import attr
    kind, what = c["kind"], c["what"]
    rng = random.Random(c["seed"])
    only = c.get("only")
    foreign_raw = None
    if what == "foreign":
        # the object is built by the neighbouring harness' own builder; what cannot be built (their API changed, the case
        # is one of their deliberately invalid ones, the class is not the expected one) is not this property's matter
        try:
            fobj = _foreign_build(c["src"], c["spec"])
            if type(fobj) is not _cls(kind):
                raise TypeError("not a " + kind)
            fkw = {a.name: getattr(fobj, a.name) for a in attr.fields(type(fobj)) if a.name not in ("id", "raw_manifest")}
            foreign_raw = getattr(fobj, "raw_manifest", None)
        except Exception as e:
            return {"attrs": None, "has_raw": False, "steps": [], "foreign_unavailable": exc_class(e)}
    try:
        cls = _cls(kind)
        kw = fkw if what == "foreign" else base_kwargs(kind, c["spec"])
        if c.get("big"):
            kw = _inflate(kind, kw, int(c["big"]))
        probe = cls(**kw, id=b"\x01" * 20)          # explicit id: nothing is hashed
    except Exception as e:
        return {"error": "cannot build: " + exc_class(e)}
    try:
        am = attrs_manifest(kind, probe)
    except Exception as e:
        if what == "foreign":
            # another slice's generator produced an object the library cannot format (e.g. a non-ASCII payload_type, which
            # that slice expects to be refused): not an object of this property's domain, never an alarm
            return {"attrs": None, "has_raw": False, "steps": [], "foreign_unavailable": exc_class(e)}
        raise
    has_raw = _has_raw(kind)
    steps = []
    res = {"attrs": None if am is None else am.hex(), "has_raw": has_raw, "steps": steps}

    def build_step(label, raw, idv, builder=None, ref_fields=None, kw_over=None, nomodel=False, given_id=None):
        """builder: another construction route (shaped keyword arguments, from_dict); the object must then equal the
        probe on ref_fields.  kw_over: some constructor arguments replaced (the attributes' manifest is then taken from
        the library for THAT object).  nomodel: too large for the executable SHA-1 of the model: oracle only.
        given_id: the id argument as actually passed (a bytes subclass ...), equal to idv"""
        if only and label not in only and not (what == "history" and label in _HISTORY_ALWAYS):
            return                   # (a shrunk history case keeps the steps that create the history)
        st = {"label": label, "rawarg": _enc_rawarg(raw), "id": idv.hex()}
        if nomodel:
            st["nomodel"] = True
        kws = kw
        if kw_over is not None:
            kws = dict(kw, **kw_over)
            try:
                m2 = attrs_manifest(kind, cls(**kws, id=b"\x01" * 20))
            except Exception as e:
                st["skip"] = "value refused by the validators: " + exc_class(e)
                steps.append(st)
                return
            st["attrs"] = None if m2 is None else m2.hex()
        try:
            if builder is not None:
                x = builder()
            elif given_id is not None:
                x = cls(**kws, id=given_id) if raw is _ABSENT else cls(**kws, id=given_id, raw_manifest=raw)
            else:
                x = _construct(cls, kws, raw, idv)
            st["obs"] = observe(x, random.Random("%d:%s" % (c["seed"], label)))
            if ref_fields is not None:
                st["obs"]["differs"] = _differs(x, probe, ref_fields)
        except Exception as e:
            st["error"] = exc_class(e)
        steps.append(st)

    junk = b"junk " + bytes(rng.randrange(256) for _ in range(rng.randrange(0, 20)))

    fnames = [a.name for a in attr.fields(cls)]

    def evolve_step(label, base_raw, base_id, kwargs, base_obj=None, nomodel=False):
        """kwargs values may be _Shaped: the call receives a FRESH value of that shape, the reference object (and the
        manifest sent to the model) is built from the materialised tuple / dict.  base_obj: an object obtained otherwise
        (a previous evolve, anonymize()) is the source: its manifest, raw manifest and id are read from it.
        Returns the evolved object (None when there is none)."""
        if only and label not in only and label.split("=")[0] not in only:
            return None
        if base_obj is not None:
            base = base_obj
            base_raw = getattr(base, "raw_manifest", None) if has_raw else _ABSENT
            base_id = base.id
            st = {"label": label, "rawarg": _enc_rawarg(base_raw), "id": base_id.hex()}
            try:
                bm = attrs_manifest(kind, base)
            except Exception as e:
                st["skip"] = "manifest function raises " + exc_class(e)
                steps.append(st)
                return None
            st["attrs"] = None if bm is None else bm.hex()
        else:
            st = {"label": label, "rawarg": _enc_rawarg(base_raw), "id": base_id.hex()}
            try:
                base = _construct(cls, kw, base_raw, base_id)
            except Exception as e:
                st["skip"] = "base cannot be built: " + exc_class(e)
                steps.append(st)
                return None
        if nomodel:
            st["nomodel"] = True
        ch = {"attrs": "=", "raw": "=", "id": "="}
        plain = {k: _mat(v) for k, v in kwargs.items() if k not in ("id", "raw_manifest")}
        if "raw_manifest" in kwargs:
            ch["raw"] = hx(kwargs["raw_manifest"])
        if "id" in kwargs:
            ch["id"] = hx(kwargs["id"] or b"")          # id=None: for the model only the presence of the keyword matters
        ref = base
        if plain:
            # is the change accepted by the validators at all?  (attrs' own evolve = the constructor)
            try:
                ref = attr.evolve(base, **plain)
            except Exception as e:
                st["skip"] = "new value refused by the validators: " + exc_class(e)
                steps.append(st)
                return None
            try:
                m2 = _manifest_fn(kind)(ref)
                ch["attrs"] = hx(m2)
            except TypeError:
                ch["attrs"] = "-"
            except Exception as e:
                st["skip"] = "manifest function raises " + exc_class(e)
                steps.append(st)
                return None
        st["change"] = ch
        orng = random.Random("%d:%s" % (c["seed"], label))       # per step: `only` must not shift the other steps' draws
        if orng.random() < 0.5:
            # the source is read before it is evolved (a read must not influence what evolve returns)
            for w in orng.sample(["ch", "check", "swhid"], 2):
                _read(base, w)
        before = [getattr(base, n, None) for n in fnames]
        out = None
        try:
            out = base.evolve(**{k: _fresh(v) for k, v in kwargs.items()})
            st["obs"] = observe(out, orng)
            st["obs"]["differs"] = _differs(out, ref, plain)
        except Exception as e:
            st["error"] = exc_class(e)
        try:
            changed = [n for n, b in zip(fnames, before) if getattr(base, n, None) != b]
        except Exception:
            changed = ["?"]
        if changed:
            st.setdefault("obs", {})["source_changed"] = changed
        steps.append(st)
        return out

    right = None if am is None else hashlib.sha1(am).digest()
    if what == "ids":
        raw = None if (has_raw and rng.random() < 0.5) else _ABSENT
        build_step("noid", raw, b"")
        if right is not None:
            build_step("right", raw, right)
            for k in range(160):
                build_step("flip-%d" % k, raw, _flip(right, k))
            build_step("trunc19", raw, right[:19])
            build_step("ext21", raw, right + bytes([rng.randrange(256)]))
            build_step("one-byte", raw, right[:1])
        build_step("random", raw, _sha(rng))
        build_step("zero", raw, bytes(20))
        build_step("random40", raw, _sha(rng) + _sha(rng))
        if right is not None:
            # the right id in another encoding / another type
            build_step("hex-ascii", raw, right.hex().encode())
            build_step("hex-ascii-upper", raw, right.hex().upper().encode())
            build_step("right-bytes-subclass", raw, right, given_id=_BytesSub(right))
            k = rng.randrange(160)
            build_step("flip-bytes-subclass", raw, _flip(right, k), given_id=_BytesSub(_flip(right, k)))
        build_step("noid-bytes-subclass", raw, b"", given_id=_BytesSub(b""))
    elif what == "raw":
        if not has_raw:
            build_step("raw-none-on-class-without-field", None, b"")
            build_step("raw-junk-on-class-without-field", b"junk", b"")
            build_step("raw-junk-with-id", b"junk", _sha(rng))
        else:
            junk = bytes(rng.randrange(256) for _ in range(rng.randrange(1, 40)))
            raws = [("junk", junk), ("empty", b"")]
            if am is not None:
                raws += [("attrs+lf", am + b"\n"), ("prefix", am[:-1])]
            for nm, rw in raws:
                rid = hashlib.sha1(rw).digest()
                build_step("raw-%s-noid" % nm, rw, b"")
                build_step("raw-%s-rightid" % nm, rw, rid)
                if right is not None:
                    build_step("raw-%s-attrsid" % nm, rw, right)
                build_step("raw-%s-randomid" % nm, rw, _sha(rng))
                for _ in range(3):
                    k = rng.randrange(160)
                    build_step("raw-%s-flip-%d" % (nm, k), rw, _flip(rid, k))
                build_step("raw-%s-trunc" % nm, rw, rid[:19])
            if am is not None:
                build_step("raw-same-noid", am, b"")
                build_step("raw-same-rightid", am, right)
                build_step("raw-same-randomid", am, _sha(rng))
                build_step("raw-same-flip", am, _flip(right, rng.randrange(160)))
            build_step("raw-None-noid", None, b"")
            # buffer-like raw manifests (the field has no validator): same bytes, same id
            for nm, mk in (("bytearray", bytearray), ("memoryview", memoryview), ("bytes-subclass", _BytesSub)):
                rid = hashlib.sha1(junk).digest()
                build_step("raw-as-%s-noid" % nm, mk(junk), b"")
                build_step("raw-as-%s-flip" % nm, mk(junk), _flip(rid, rng.randrange(160)))
            build_step("raw-as-empty-bytearray-noid", bytearray(), b"")
            # lengths around the SHA-1 block / padding boundaries (model), and large ones (oracle only)
            for n in ((55, 56, 63, 64, 65, 119, 120) if c.get("full") else rng.sample((55, 56, 63, 64, 65, 119, 120), 3)):
                build_step("raw-len-%d-noid" % n, bytes(rng.randrange(256) for _ in range(n)), b"")
            sizes = [4095, 4096, 4097, 65535, 65536, 65537] + ([(1 << 20) + 1] if c.get("full") else [])
            for n in rng.sample(sizes, 2) if not c.get("full") else sizes:
                big = bytes(rng.randrange(256) for _ in range(64)) * (n // 64 + 1)
                big = big[:n - 1] + bytes([rng.randrange(256)])
                build_step("raw-len-%d-noid" % n, big, b"", nomodel=True)
                build_step("raw-len-%d-rightid" % n, big, hashlib.sha1(big).digest(), nomodel=True)
                build_step("raw-len-%d-prefix-id" % n, big, hashlib.sha1(big[:n - 1]).digest(), nomodel=True)
    elif what == "evolve":
        base_raw = _ABSENT
        if am is None and has_raw:
            base_raw = junk          # a Release without target can only exist with a raw manifest or an explicit id
        for a in attr.fields(cls):
            if a.name == "id":
                evolve_step("field:id=empty", base_raw, b"", {"id": b""})
                evolve_step("field:id=right", base_raw, b"", {"id": right or _sha(rng)})
                evolve_step("field:id=and-raw", base_raw, b"", {"id": _sha(rng), "raw_manifest": None})
            elif a.name == "raw_manifest":
                evolve_step("field:raw_manifest=junk", base_raw, b"", {"raw_manifest": junk})
                evolve_step("field:raw_manifest=None", base_raw, b"", {"raw_manifest": None})
                evolve_step("field:raw_manifest=empty", base_raw, b"", {"raw_manifest": b""})
                if am is not None:
                    evolve_step("field:raw_manifest=attrs", base_raw, b"", {"raw_manifest": am})
            else:
                cur = kw.get(a.name, getattr(probe, a.name))
                vals = alt_values(kind, a.name, getattr(probe, a.name), a, rng)
                for j, v in enumerate(vals):
                    evolve_step("field:%s=alt%d" % (a.name, j), base_raw, b"", {a.name: v})
                evolve_step("field:%s=same" % a.name, base_raw, b"", {a.name: cur})
        if not has_raw:
            evolve_step("raw_manifest-on-class-without-field", _ABSENT, b"", {"raw_manifest": None})
        # evolve() repairs a wrong id
        wrong = _flip(right, rng.randrange(160)) if right is not None else _sha(rng)
        evolve_step("noarg-on-wrong-id", base_raw, wrong, {})
        evolve_step("noarg-on-right", base_raw, b"", {})
        names = [a.name for a in attr.fields(cls) if a.name not in ("id", "raw_manifest")]
        f0 = names[rng.randrange(len(names))]
        v0 = alt_values(kind, f0, getattr(probe, f0), attr.fields_dict(cls)[f0], rng)[0]
        evolve_step("wrong-id:%s" % f0, base_raw, wrong, {f0: v0})
        if has_raw:
            evolve_step("under-raw:%s" % f0, junk, b"", {f0: v0})
            evolve_step("under-raw:drop-raw", junk, b"", {"raw_manifest": None})
            evolve_step("under-raw:wrong-id-noarg", junk, wrong, {})
            if am is not None:
                evolve_step("under-unneeded-raw:%s" % f0, am, b"", {f0: v0})
            evolve_step("attr-and-raw:%s" % f0, base_raw, b"", {f0: v0, "raw_manifest": junk})
        evolve_step("field:id=None", base_raw, b"", {"id": None})
        fdict = attr.fields_dict(cls)
        alts = {n: alt_values(kind, n, getattr(probe, n), fdict[n], rng) for n in names}
        cur_of = {n: kw.get(n, getattr(probe, n)) for n in names}
        # --- values equal (==) to the current ones but of another type (True for 1, subclasses): a manifest may print them
        # differently, so "nothing changed" cannot be decided with ==; also: twins built one after the other with the SAME
        # explicit id (an answer remembered for the first must not be served for the second)
        eq_fields = []
        for n in names:
            acc = []
            for v in eq_alt_values(getattr(probe, n)):
                try:
                    cls(**dict(kw, **{n: v}), id=b"\x01" * 20)
                    acc.append(v)
                except Exception:
                    pass
            if acc:
                eq_fields.append((n, acc))
        res["eqtype_fields"] = [n for n, _ in eq_fields]
        if not c.get("full") and len(eq_fields) > 3:
            eq_fields = rng.sample(eq_fields, 3)
        for n, acc in eq_fields:
            for j, v in enumerate(acc if c.get("full") else acc[:1] if type(acc[0]) is bool else [rng.choice(acc)]):
                tn = type(v).__name__
                evolve_step("field:%s=eqtype-%s" % (n, tn), base_raw, b"", {n: v})
                if right is not None:
                    if c.get("full"):
                        evolve_step("field:%s=eqtype-%s-on-explicit-right-id" % (n, tn), base_raw, right, {n: v})
                        build_step("twin:%s=eqtype-%s:B-noid" % (n, tn), _ABSENT, b"", kw_over={n: v})
                    build_step("twin:%s=eqtype-%s:A" % (n, tn), _ABSENT, right)
                    build_step("twin:%s=eqtype-%s:B" % (n, tn), _ABSENT, right, kw_over={n: v})
        # --- equal values on a source whose id is stale: the id must be recomputed all the same
        for n in rng.sample(names, min(2 if c.get("full") else 1, len(names))):
            evolve_step("wrong-id-same:%s" % n, base_raw, wrong, {n: cur_of[n]})
        evolve_step("all-fields-same-on-wrong-id", base_raw, wrong, dict(cur_of))
        evolve_step("all-fields-same", base_raw, b"", dict(cur_of))
        # --- several fields at once; the fields that do not enter the manifest, all together, with each of their values
        #     (a revision's legacy metadata layout DOES enter it through __attrs_post_init__)
        for k in range(2 if c.get("full") else 1):
            fs = rng.sample(names, min(len(names), rng.choice([2, 3])))
            evolve_step("multi%d:%s" % (k, "+".join(fs)), base_raw, rng.choice([b"", wrong]),
                        {n: alts[n][rng.randrange(len(alts[n]))] for n in fs})
        unhashed = []
        for n in names:
            try:
                if am is not None and _manifest_fn(kind)(attr.evolve(probe, **{n: alts[n][0]})) == am:
                    unhashed.append(n)
            except Exception:
                pass
        if unhashed:
            for k in range(max(len(alts[n]) for n in unhashed)):
                evolve_step("unhashed-together:%d" % k, base_raw, b"", {n: alts[n][k % len(alts[n])] for n in unhashed})
                if c.get("full") or k == rng.randrange(3):
                    evolve_step("unhashed-together-on-wrong-id:%d" % k, base_raw, wrong,
                                {n: alts[n][k % len(alts[n])] for n in unhashed})
        # --- chains: evolve the result of an evolve, and back to the original content
        f1 = names[rng.randrange(len(names))]
        e1 = evolve_step("chain:1:%s" % f0, base_raw, b"", {f0: v0})
        if e1 is not None:
            e2 = evolve_step("chain:2:%s" % f1, _ABSENT, b"", {f1: alts[f1][0]}, base_obj=e1)
            if e2 is not None:
                e3 = evolve_step("chain:3:back", _ABSENT, b"", {f0: cur_of[f0], f1: cur_of[f1]}, base_obj=e2)
                if e3 is not None:
                    evolve_step("chain:4:noarg", _ABSENT, b"", {}, base_obj=e3)
        # --- a source produced by anonymize() (it keeps the original id by design: a stale id when the content changed)
        try:
            anon = _construct(cls, kw, base_raw, b"").anonymize()
        except Exception:
            anon = None
        if anon is not None:
            evolve_step("anonymized:noarg", _ABSENT, b"", {}, base_obj=anon)
            evolve_step("anonymized:%s" % f0, _ABSENT, b"", {f0: v0}, base_obj=anon)
            if c.get("full"):
                evolve_step("anonymized:same:%s" % f0, _ABSENT, b"", {f0: getattr(anon, f0)}, base_obj=anon)
    elif what == "history" and right is not None:
        # HISTORY: several different valid objects of the same kind live in the same process; what was answered for one
        # (its id was verified, hashed, printed) must never be served for another: objects carrying EACH OTHER's ids,
        # before and after the owner of the id was checked (again), with and without raw manifests.
        names = [a.name for a in attr.fields(cls) if a.name not in ("id", "raw_manifest")]
        fdict = attr.fields_dict(cls)
        pid = b"\x01" * 20
        variants = []                      # [(kw_over, manifest)] with pairwise different manifests, all different from A's
        seen = {am}
        order = list(names)
        rng.shuffle(order)
        for n in order * 2:
            if len(variants) >= 4:
                break
            try:
                cur = variants[-1][0].get(n, getattr(probe, n)) if variants and rng.random() < 0.5 else getattr(probe, n)
                base_over = dict(variants[-1][0]) if variants and rng.random() < 0.3 else {}
                for v in alt_values(kind, n, cur, fdict[n], rng)[:2]:
                    over = dict(base_over, **{n: v})
                    m2 = attrs_manifest(kind, cls(**dict(kw, **over), id=pid))
                    if m2 is not None and m2 not in seen:
                        seen.add(m2)
                        variants.append((over, m2))
                        break
            except Exception:
                continue
        ids_of = [hashlib.sha1(m).digest() for _, m in variants]
        A0 = None
        try:
            A0 = _construct(cls, kw, _ABSENT, b"")
        except Exception:
            pass
        build_step("A:noid", _ABSENT, b"")
        build_step("A:twin-right-id", _ABSENT, right)
        if A0 is not None:
            build_step("A:same-instance-again", _ABSENT, b"", builder=lambda: A0)
        blocks = []

        def blk(*a, **k):
            blocks.append((a, k))
        for i, (over, m2) in enumerate(variants[:3]):
            nm = "BCD"[i]
            if i < 2:
                blk("%s:noid" % nm, _ABSENT, b"", kw_over=over)                       # B and C are built and checked
            blk("%s:with-A's-id" % nm, _ABSENT, right, kw_over=over)
            blk("A:with-%s's-id" % nm, _ABSENT, ids_of[i])                            # D's id was never verified
            for j in range(len(variants)):
                if j != i:
                    blk("%s:with-%s's-id" % (nm, "BCDE"[j]), _ABSENT, ids_of[j], kw_over=over)
            if i == 2:
                blk("%s:right-id-first-time" % nm, _ABSENT, ids_of[i], kw_over=over)
        if has_raw:
            rid = hashlib.sha1(junk).digest()
            blk("A:raw-junk-noid", junk, b"")
            blk("A:no-raw-with-raw's-id", _ABSENT, rid)
            for i, (over, m2) in enumerate(variants[:2]):
                nm = "BC"[i]
                blk("%s:raw-junk-rightid" % nm, junk, rid, kw_over=over)              # needed for B as well: accepted
                blk("%s:raw-junk-with-A's-id" % nm, junk, right, kw_over=over)
                blk("%s:raw=A's-manifest-with-A's-id" % nm, am, right, kw_over=over)   # for B this raw manifest is NEEDED
                blk("A:raw=%s's-manifest-with-its-id" % nm, m2, ids_of[i])
                blk("%s:raw=own-manifest-with-own-id" % nm, m2, ids_of[i], kw_over=over)   # unneeded: rejected
            blk("A:raw=own-manifest-with-own-id", am, right)
        rng.shuffle(blocks)
        half = len(blocks) // 2
        for a, k in blocks[:half]:
            build_step(*a, **k)
        # the owner of the id is checked again (a new equal object, then the very same instance), then all the rest
        build_step("A:checked-again", _ABSENT, right)
        if A0 is not None:
            build_step("A:same-instance-checked-again", _ABSENT, b"", builder=lambda: A0)
        for a, k in blocks[half:]:
            build_step(*a, **k)
        for i, (over, m2) in enumerate(variants[:2]):
            build_step("%s:with-A's-id-after" % "BC"[i], _ABSENT, right, kw_over=over)
        # evolve with a history: the same change applied to two different sources; a source carrying another object's id
        if variants:
            over0 = variants[0][0]
            evolve_step("evolve:A-to-B", _ABSENT, b"", dict(over0))
            try:
                Bx = cls(**dict(kw, **over0), id=right)                               # B's content with A's id
                evolve_step("evolve:B-with-A's-id:noarg", _ABSENT, b"", {}, base_obj=Bx)
                evolve_step("evolve:B-with-A's-id:back-to-A", _ABSENT, b"", {k: kw.get(k, getattr(probe, k)) for k in over0}, base_obj=Bx)
            except Exception:
                pass
            if len(variants) > 1:
                over1 = variants[1][0]
                f1 = [n for n in names if n not in over1][:1]
                if f1:
                    v1 = alt_values(kind, f1[0], getattr(probe, f1[0]), fdict[f1[0]], rng)[0]
                    evolve_step("evolve:same-change-on-A", _ABSENT, b"", {f1[0]: v1})
                    try:
                        Cx = cls(**dict(kw, **over1))
                        evolve_step("evolve:same-change-on-C", _ABSENT, b"", {f1[0]: v1}, base_obj=Cx)
                    except Exception:
                        pass
    elif what == "foreign":
        # every valid object, whatever its content, with its right id: accepted; with another id: rejected
        wrong = _flip(right, rng.randrange(160)) if right is not None else _sha(rng)
        build_step("noid", _ABSENT, b"")
        if right is not None:
            build_step("right", _ABSENT, right)
            for _ in range(5):
                k = rng.randrange(160)
                build_step("flip-%d" % k, _ABSENT, _flip(right, k))
            build_step("trunc19", _ABSENT, right[:19])
        build_step("random", _ABSENT, _sha(rng))
        if has_raw:
            build_step("raw-junk-noid", junk, b"")
            if am is not None:
                build_step("raw-same-noid", am, b"")
            if foreign_raw is not None:
                build_step("raw-their-own-noid", foreign_raw, b"")
        names = [a.name for a in attr.fields(cls) if a.name not in ("id", "raw_manifest")]
        base_raw = junk if (am is None and has_raw) else _ABSENT
        evolve_step("noarg-on-wrong-id", base_raw, wrong, {})
        evolve_step("all-fields-same", base_raw, b"", dict(kw))
        f0 = names[rng.randrange(len(names))]
        evolve_step("field:%s=alt0" % f0, base_raw, b"", {f0: alt_values(kind, f0, getattr(probe, f0), attr.fields_dict(cls)[f0], rng)[0]})
        try:
            d0 = _construct(cls, kw, base_raw, b"").to_dict()
            if not _differs(cls.from_dict(dict(d0)), probe, names):
                d0.pop("id", None)
                build_step("from_dict:noid", base_raw, b"", lambda: cls.from_dict(dict(d0)), names)
        except Exception:
            pass
    elif what == "big":
        # manifests far beyond one hash block / buffer size: oracle only (the model's executable SHA-1 is too slow)
        wrong = _flip(right, rng.randrange(160)) if right is not None else _sha(rng)
        names = [a.name for a in attr.fields(cls) if a.name not in ("id", "raw_manifest")]
        build_step("noid", _ABSENT, b"", nomodel=True)
        build_step("right", _ABSENT, right, nomodel=True)
        for _ in range(4):
            k = rng.randrange(160)
            build_step("flip-%d" % k, _ABSENT, _flip(right, k), nomodel=True)
        build_step("trunc19", _ABSENT, right[:19], nomodel=True)
        if has_raw:
            build_step("raw-same-noid", am, b"", nomodel=True)
            build_step("raw-attrs+lf-noid", am + b"\n", b"", nomodel=True)
            build_step("raw-prefix-rightid", am[:-1], hashlib.sha1(am[:-1]).digest(), nomodel=True)
            build_step("raw-prefix-attrsid", am[:-1], right, nomodel=True)
        fdict = attr.fields_dict(cls)
        for n in rng.sample(names, min(3, len(names))):
            evolve_step("field:%s=alt0" % n, _ABSENT, b"", {n: alt_values(kind, n, getattr(probe, n), fdict[n], rng)[0]}, nomodel=True)
        evolve_step("noarg-on-wrong-id", _ABSENT, wrong, {}, nomodel=True)
    elif what == "shapes":
        # container-valued arguments given in every shape the code accepts TODAY (observed first, with an explicit id so
        # that nothing is hashed): constructor, from_dict, evolve.  Whatever the shape, the object must be the one built
        # from the materialised tuple / dict and satisfy the property.
        full = bool(c.get("full"))
        pid = b"\x01" * 20
        wrong = _flip(right, rng.randrange(160)) if right is not None else _sha(rng)
        names = [a.name for a in attr.fields(cls) if a.name not in ("id", "raw_manifest")]
        fdict = attr.fields_dict(cls)
        noid_raw = junk if (am is None and has_raw) else _ABSENT        # a Release without target needs a raw manifest
        report = res.setdefault("shapes", {})

        def some(l, n):
            # quick: n of them; thorough: all of them in the main contexts, 3n in the secondary ones
            l = list(l)
            if full:
                n = len(l) if n >= 4 else 3 * n
            return l if len(l) <= n else rng.sample(l, n)

        def ctor(f, mk, raw, idv):
            return lambda: _construct(cls, dict(kw, **{f: mk()}), raw, idv)

        accepted = {}
        for f in names:
            # the caller's own argument (a legacy revision carries its extra headers inside `metadata`), in every shape;
            # accepted = the constructor takes it and stores what it stores for the plain argument
            acc, refused = [], []
            for nm, mk in shapes_of(kw.get(f, getattr(probe, f))):
                try:
                    ok = not _differs(ctor(f, mk, _ABSENT, pid)(), probe, [f])
                except Exception:
                    ok = False
                (acc if ok else refused).append((nm, mk))
            if acc or refused:
                report["ctor:" + f] = {"accepted": [n for n, _ in acc], "refused": [n for n, _ in refused]}
            if acc:
                accepted[f] = acc
        # --- constructor
        for f, acc in accepted.items():
            for nm, mk in some(acc, 4):
                build_step("ctor:%s=%s:noid" % (f, nm), noid_raw, b"", ctor(f, mk, noid_raw, b""), [f])
            for nm, mk in some(acc, 1):
                if right is not None:
                    build_step("ctor:%s=%s:right-id" % (f, nm), _ABSENT, right, ctor(f, mk, _ABSENT, right), [f])
                build_step("ctor:%s=%s:wrong-id" % (f, nm), _ABSENT, wrong, ctor(f, mk, _ABSENT, wrong), [f])
                if has_raw:
                    build_step("ctor:%s=%s:raw" % (f, nm), junk, b"", ctor(f, mk, junk, b""), [f])
        # --- from_dict
        contexts = [("noid", noid_raw, b"")]
        if right is not None:
            contexts.append(("right-id", _ABSENT, right))
        contexts.append(("wrong-id", _ABSENT, wrong))
        if has_raw:
            contexts.append(("raw", junk, b""))
        for ci, (tag, raw, idv) in enumerate(contexts):
            try:
                d0 = _construct(cls, kw, raw, idv or pid).to_dict()
                d_probe = dict(d0, id=pid)
                if _differs(cls.from_dict(dict(d_probe)), probe, names):
                    continue
            except Exception:
                continue                      # to_dict / from_dict do not round-trip this object today: not this property
            if not idv:
                d0.pop("id", None)

            def fd(k, mk, d0=d0):
                return lambda: cls.from_dict(dict(d0) if k is None else dict(d0, **{k: mk()}))
            build_step("from_dict:%s:plain" % tag, raw, idv, fd(None, None), names)
            for k in sorted(d0):
                if k not in names or not shapes_of(getattr(probe, k)):
                    continue                  # only the container-valued attributes (not nested person / date dicts)
                acc = []
                for nm, mk in shapes_of(d0[k]):
                    try:
                        if not _differs(cls.from_dict(dict(d_probe, **{k: mk()})), probe, names):
                            acc.append((nm, mk))
                    except Exception:
                        pass
                if ci == 0 and shapes_of(d0[k]):
                    report["from_dict:" + k] = {"accepted": [n for n, _ in acc],
                                                "refused": [n for n, _ in shapes_of(d0[k]) if n not in [m for m, _ in acc]]}
                for nm, mk in (some(acc, 4) if ci == 0 else some(acc, 1)):
                    build_step("from_dict:%s:%s=%s" % (tag, k, nm), raw, idv, fd(k, mk), names)
        # --- evolve
        econtexts = [("plain", _ABSENT if am is not None or not has_raw else junk, b"")]
        if right is not None:
            econtexts.append(("on-right-id", _ABSENT, right))
        econtexts.append(("on-wrong-id", _ABSENT if am is not None or not has_raw else junk, wrong))
        if has_raw:
            econtexts += [("under-raw", junk, b""), ("under-raw-wrong-id", junk, wrong)]
        shaped = {}          # field -> [_Shaped of a NEW value] (only shapes the constructor accepts)
        for f, acc in accepted.items():
            new = [v for v in alt_values(kind, f, getattr(probe, f), fdict[f], rng) if v is not None][:1]
            vals = new + [getattr(probe, f)]
            for j, v in enumerate(vals):
                byname = dict(shapes_of(v))
                lst = [_Shaped(nm, byname[nm], v) for nm, _ in acc if nm in byname]
                if j == 0:
                    shaped[f] = lst
                for ci, (tag, raw, idv) in enumerate(econtexts):
                    if j == 1 and not full and ci not in (0, len(econtexts) - 1):
                        continue
                    for sh in (some(lst, 5) if (ci == 0 and j == 0) else some(lst, 1)):
                        evolve_step("evolve:%s:%s=%s(%s)" % (tag, f, sh.shape, "new" if j == 0 else "same"), raw, idv, {f: sh})
        # together: a shaped container with another field / with raw_manifest / with a second shaped container
        base_raw = econtexts[0][1]
        for f, lst in shaped.items():
            others = [n for n in names if n != f]
            for sh in some(lst, 2):
                if others:
                    g = others[rng.randrange(len(others))]
                    gv = alt_values(kind, g, getattr(probe, g), fdict[g], rng)[0]
                    evolve_step("evolve:with-%s:%s=%s" % (g, f, sh.shape), base_raw, b"", {f: sh, g: gv})
                    evolve_step("evolve:with-%s-on-wrong-id:%s=%s" % (g, f, sh.shape), base_raw, wrong, {g: gv, f: sh})
                if has_raw:
                    evolve_step("evolve:with-raw_manifest:%s=%s" % (f, sh.shape), base_raw, b"", {f: sh, "raw_manifest": junk})
                    evolve_step("evolve:dropping-raw:%s=%s" % (f, sh.shape), junk, b"", {f: sh, "raw_manifest": None})
                for f2, lst2 in shaped.items():
                    if f2 != f and lst2:
                        sh2 = lst2[rng.randrange(len(lst2))]
                        evolve_step("evolve:pair:%s=%s+%s=%s" % (f, sh.shape, f2, sh2.shape), base_raw, b"", {f: sh, f2: sh2})
    return res


# ------------------------------------------------------------------ model side
def _step_attrs(ires, st):
    """hex of the manifest of the attributes of the step's (base) object, None when there is none"""
    return st["attrs"] if "attrs" in st else ires["attrs"]


def _line(c, ires, st):
    a = _step_attrs(ires, st)
    a = "-" if a is None else hx(bytes.fromhex(a))
    head = "%s %s %s %s" % (c["kind"], a, st["rawarg"], hx(bytes.fromhex(st["id"])))
    if "change" in st:
        ch = st["change"]
        return "evo %s %s %s %s" % (head, ch["attrs"], ch["raw"], ch["id"])
    return "new " + head


def _live(ires):
    return [st for st in ires.get("steps", []) if "skip" not in st]


def _live_model(ires):
    return [st for st in _live(ires) if not st.get("nomodel")]


def requests(c, ires):
    return [_line(c, ires, st) for st in _live_model(ires)]


def model(c, resp):
    return {"answers": list(resp)}


def _canon_obs(st):
    """the implementation's observation in the driver's answer format"""
    if "error" in st:
        return "err " + st["error"]
    o = st["obs"]
    sw = o["swhid"]
    if sw.startswith("swh:1:"):
        sw = sw[len("swh:1:"):]
    return "ok %s %s %s %s" % (o["id"], o["ch"], o["check"], sw)


def compare(c, ires, mres):
    if "error" in ires:
        return None
    live = _live_model(ires)
    ans = mres.get("answers", [])
    if len(ans) != len(live):
        return "driver answered %d of %d requests" % (len(ans), len(live))
    for st, a in zip(live, ans):
        got = _canon_obs(st)
        if got != a:
            return "step %s: implementation `%s`, model `%s` (request: %s)" % (st["label"], got, a, _line(c, ires, st)[:200])
    return None


# ------------------------------------------------------------------ the property on the implementation (hashlib only)
def _sha1(b):
    return hashlib.sha1(b).hexdigest()


def _arg(s):
    """'=' -> absent, '-' -> None, hex/'.' -> bytes"""
    if s == "=":
        return _ABSENT
    if s == "-":
        return None
    return b"" if s == "." else bytes.fromhex(s)


def oracle(c, ires, mres):
    if "error" in ires:
        return "a valid %s could not be built at all: %s" % (c["kind"], ires["error"])
    kind = c["kind"]
    tag = TAGS[kind]
    has_raw = ires["has_raw"]
    attrs0 = None if ires["attrs"] is None else bytes.fromhex(ires["attrs"])
    for st in _live(ires):
        lab = "step %s: " % st["label"]
        raw = _arg(st["rawarg"])
        idv = bytes.fromhex(st["id"])
        attrs = attrs0
        if "attrs" in st:
            attrs = None if st["attrs"] is None else bytes.fromhex(st["attrs"])
        evolve = "change" in st
        raw_kw = raw is not _ABSENT
        raw = None if raw is _ABSENT else raw
        if not evolve and raw_kw and not has_raw:
            if st.get("error") != "TypeError":
                return lab + "raw_manifest accepted by a class without that field"
            continue
        if evolve:
            ch = st["change"]
            if ch["id"] != "=":
                if st.get("error") != "TypeError":
                    return lab + "evolve(id=...) did not raise TypeError"
                continue
            if ch["raw"] != "=":
                if not has_raw:
                    if st.get("error") != "TypeError":
                        return lab + "evolve(raw_manifest=...) accepted by a class without that field"
                    continue
                raw = _arg(ch["raw"])
            if ch["attrs"] != "=":
                attrs = _arg(ch["attrs"])
        eff = raw if raw is not None else attrs           # the manifest that must be hashed (raw first)
        if eff is None:
            # no manifest at all: nothing can be hashed
            if evolve or idv == b"":
                if st.get("error") != "TypeError":
                    return lab + "an object without manifest got an id"
                continue
        if "error" in st:
            return lab + ("evolve" if evolve else "construction") + " raised " + st["error"]
        o = st["obs"]
        want_id = _sha1(eff) if (evolve or idv == b"") else idv.hex()
        if o["id"] != want_id:
            if evolve:
                return lab + "after evolve the id %s is not the SHA-1 of the new manifest %s" % (o["id"], want_id)
            if idv == b"":
                return lab + "built without id, the id %s is not the SHA-1 of the manifest (%s)" % (o["id"], want_id)
            return lab + "the explicit id was not kept"
        if eff is not None and o["ch"] != _sha1(eff):
            return lab + "compute_hash() is not the SHA-1 of the manifest (raw manifest first)"
        if eff is None and o["ch"] != "!TypeError":
            return lab + "compute_hash() of an object without manifest"
        # check(): accepted iff the id is the recomputed one and the raw manifest is needed
        if attrs is None:
            want = "!TypeError" if (raw is None or o["id"] == _sha1(raw)) else "!ValueError"
        elif o["id"] != _sha1(eff):
            want = "!ValueError"
        elif raw is not None and o["id"] == _sha1(attrs):
            want = "!ValueError"
        else:
            want = "ok"
        if o["check"] != want:
            if want == "ok":
                return lab + "check() rejects (%s) an object whose id is the hash of its manifest" % o["check"]
            if o["check"] == "ok":
                return lab + ("check() accepts a wrong id %s (recomputed: %s)" % (o["id"], _sha1(eff)) if o["id"] != _sha1(eff)
                              else "check() accepts a raw manifest that the attributes alone reproduce")
            return lab + "check() raised %s instead of %s" % (o["check"], want)
        if tag is not None:
            want_sw = "swh:1:%s:%s" % (tag, o["id"]) if len(o["id"]) == 40 else "!ValidationError"
            if o["swhid"] != want_sw:
                return lab + "swhid() is %s, expected %s" % (o["swhid"], want_sw)
            if kind in SWHID_CLS and o.get("swhid_cls") not in (None, SWHID_CLS[kind]):
                return lab + "swhid() returns a %s, expected %s" % (o.get("swhid_cls"), SWHID_CLS[kind])
        if o.get("unstable"):
            return lab + "the same read made twice on the same object answers differently: " + ", ".join(o["unstable"])
        if o.get("id_changed"):
            return lab + "reading compute_hash() / check() / swhid() changed the id attribute to " + o["id_changed"]
        if o.get("source_changed"):
            return lab + "evolve() modified the object it was called on: " + ", ".join(o["source_changed"])
        if o.get("differs"):
            return lab + ("the object differs on %s from the one built from the materialised value (the shape in which a "
                          "container argument is given must not matter)" % ", ".join(o["differs"]))
    return None


def shrink(c):
    if c.get("only") and len(c["only"]) == 1:
        return
    try:
        labels = [st["label"] for st in impl(dict(c, only=None)).get("steps", [])]
    except Exception:
        labels = []
    for l in labels:
        yield dict(c, only=[l])


# ------------------------------------------------------------------ run-time cross-checks of the model's tables
def pre_checks(ctx):
    from . import core
    out = []
    if not os.path.exists(os.path.join(core.BUILD, ID, "driver")):
        return out
    ans = core.run_driver(ID, ["tag " + k for k in KINDS] + ["new %s 41 - ." % k for k in KINDS], shards=1)
    from swh.model import model as M
    for i, kind in enumerate(KINDS):
        cls = _cls(kind)
        if str(getattr(cls, "object_type", None)) != kind and getattr(getattr(cls, "object_type", None), "value", None) != kind:
            out.append(("table:kind-class", "%s.object_type is not %r" % (cls.__name__, kind)))
        mtag = None if ans[i] == "none" else ans[i][3:]
        if mtag != TAGS[kind]:
            out.append(("table:swhid-tag", "model tag of %s is %r, SWHID specification says %r" % (kind, mtag, TAGS[kind])))
        if hasattr(cls, "swhid") != (mtag is not None):
            out.append(("table:swhid-tag", "%s.swhid exists: %s, model tag: %r" % (cls.__name__, hasattr(cls, "swhid"), mtag)))
        model_has_raw = ans[len(KINDS) + i].startswith("ok")
        if model_has_raw != _has_raw(kind):
            out.append(("table:has-raw-field", "%s has raw_manifest field: %s, model: %s" % (cls.__name__, _has_raw(kind), model_has_raw)))
        if issubclass(cls, M.HashableObjectWithManifest) != _has_raw(kind) or not issubclass(cls, M.BaseHashableModel):
            out.append(("table:class-hierarchy", "%s: base classes do not match the raw_manifest field" % cls.__name__))
    return out


# functions of /repo whose executed-line coverage by this run is reported in the evidence
ANCHORS = [('swh/model/model.py', '_compute_hash_from_manifest'),
           ('swh/model/model.py', 'BaseHashableModel.*'),
           ('swh/model/model.py', 'HashableObjectWithManifest.compute_hash'),
           ('swh/model/model.py', 'HashableObjectWithManifest.check')]


COQ_REQS_PER_CASE = 6


def coq_cases(cases):
    """construct / evolve / compute_hash / check / swhid with H := Sha1.sha1 evaluated by vm_compute inside Coq vs the extracted
    driver, on up to 6 of the driver requests of each sampled case (only requests with short manifests: every request
    costs about six executable SHA-1 runs); one checksum per case (extraction cross-check)"""
    from . import core
    per_case = []
    for c in cases:
        ires = impl(c)
        rqs = [r for r in (requests(c, ires) if "error" not in ires else []) if len(r) <= 500]
        rqs = list(dict.fromkeys(rqs))
        step = max(1, len(rqs) // COQ_REQS_PER_CASE)
        per_case.append((c, rqs[::step][:COQ_REQS_PER_CASE]))
    per_case = [(c, r) for c, r in per_case if r]
    cases[:] = [c for c, _ in per_case]       # in place: the evidence's `n` is the number of cases evaluated
    KIND = {"origin": "KOrigin", "snapshot": "KSnapshot", "release": "KRelease", "revision": "KRevision", "directory": "KDirectory",
            "raw_extrinsic_metadata": "KRawExtrinsicMetadata", "extid": "KExtID"}

    def nl(h):
        return "[" + "; ".join("%d" % b for b in core.unhx(h)) + "]%N"
    def ob(s):
        return "None" if s == "-" else "(Some %s)" % nl(s)
    def arg(s):
        return "None" if s == "=" else "(Some %s)" % ob(s)
    def term(rq):
        w = rq.split(" ")
        base = "construct sha1 %s %s %s %s" % (KIND[w[1]], ob(w[2]), arg(w[3]), nl(w[4]))
        if w[0] == "new":
            return "show (%s)" % base
        return ("match %s with Err e => [50%%N; en e] | Ok o => show (evolve sha1 o {| ch_attrs := %s; ch_raw := %s; ch_id := %s |}) end"
                % (base, arg(w[5]), arg(w[6]), "None" if w[7] == "=" else "(Some %s)" % nl(w[7])))
    src = ("From Coq Require Import List NArith.\nFrom SWH.lib Require Import Bytes Sha1.\nFrom SWH.model Require Import Ident.\n"
           "Import ListNotations.\n" + core.COQ_CHECKSUM + """
Definition en (e : err) : N := match e with TypeError => 1 | ValueError => 2 | ValidationError => 3 | AttributeError => 4 end%N.
Definition show (r : result hobj) : list N := match r with
  | Err e => [en e]
  | Ok o => [60%N] ++ h_id o ++ [330%N] ++ match compute_hash sha1 o with Ok h => h | Err e => [331%N; en e] end
            ++ [332%N] ++ match check sha1 o with Ok _ => [0%N] | Err e => [en e] end
            ++ [333%N] ++ match swhid o with Ok (t, i) => t ++ [334%N] ++ i | Err e => [335%N; en e] end end.
""" + "Definition cases : list (list (list N)) := [" +
           ";\n ".join("[" + ";\n  ".join(term(r) for r in rqs) + "]" for _, rqs in per_case) + "].\n"
           "Eval vm_compute in map (fun rs => cksum (map cksum rs)) cases.\n")
    EN = {"TypeError": 1, "ValueError": 2, "ValidationError": 3, "AttributeError": 4}
    def answer(r):
        w = r.split(" ")
        if w[0] == "err":
            return [50, EN[w[2]]] if w[1] == "base" else [EN[w[1]]]
        _, i, ch, ck, sw = w
        l = [60] + list(core.unhx(i)) + [330] + ([331, EN[ch[1:]]] if ch.startswith("!") else list(core.unhx(ch)))
        l += [332] + ([0] if ck == "ok" else [EN[ck[1:]]]) + [333]
        if sw.startswith("!"):
            l += [335, EN[sw[1:]]]
        else:
            t, si = sw.split(":")
            l += list(t.encode("latin1")) + [334] + list(core.unhx(si))
        return l
    flat = [r for _, rqs in per_case for r in rqs]
    resp = iter(core.run_driver(ID, flat))
    exp = [core.py_cksum([core.py_cksum(answer(next(resp))) for _ in rqs]) for _, rqs in per_case]
    return src, exp
